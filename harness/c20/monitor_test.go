//go:build verif

package c20

import (
	"context"
	"fmt"
	"math"
	"runtime"
	"sort"
	"strings"
	"sync"
	"sync/atomic"
	"time"

	"github.com/samsarahq/thunder/concurrencylimiter"
	"github.com/samsarahq/thunder/verifharness/vlib"
)

// The monitor shadows every limiter operation with ticks of ONE logical clock
// (an atomic counter). A tick taken after an operation returned and a tick
// taken before an operation is called bracket the operation conservatively:
// if tick a < tick b then the instant a was taken precedes the instant b was
// taken in real time. A holder is "definitely holding" from the tick taken
// after its Acquire returned up to the smallest tick taken before ANY call of
// its release func (by any goroutine), minus every span from the tick before
// TemporarilyRelease was entered to the tick after it returned. Every bound is
// on the inside of the true span, so the monitor can only under-count.

const inf = int64(math.MaxInt64)

type evKind uint8

const (
	evAcqCall evKind = iota
	evAcqRet
	evRelCall
	evRelRet
	evTRCall
	evFStart
	evFEnd
	evTRRet
	evCancel
	evTRUnwound // TemporarilyRelease left by a panic or runtime.Goexit raised inside f
)

var evNames = [...]string{"acquire.call", "acquire.ret", "release.call", "release.ret", "tr.call", "tr.f.start", "tr.f.end", "tr.ret", "cancel.call", "tr.unwound"}

// event is one tick of the logical clock.
type event struct {
	T int64  // tick
	G int    // actor (goroutine) id
	H int    // holder id, -1 = none
	K evKind // what
	D int    // TemporarilyRelease nesting depth on this holder (0 = outermost)
}

func (e event) String() string {
	return fmt.Sprintf("%d g%d h%d %s d%d", e.T, e.G, e.H, evNames[e.K], e.D)
}

// context kinds of an Acquire
const (
	ctxNormal       = iota // context with limiter, never cancelled before Acquire returns
	ctxPreCancelled        // limiter context cancelled before Acquire is called
	ctxNoLimiter           // context without limiter
	ctxCancelDuring        // limiter context cancelled by a helper at some point
)

var ctxNames = [...]string{"lim", "precancelled", "nolimiter", "cancelduring"}

// actor is one goroutine of a scenario; its log is written by that goroutine only.
type actor struct {
	id  int
	log []event
}

type holder struct {
	id    int
	owner int
	kind  int
	ctx   context.Context
	rel   concurrencylimiter.ReleaseFunc

	start      int64  // tick after Acquire returned
	end        int64  // atomic: min tick taken before any call of rel; inf = never called
	cancelTick *int64 // atomic: tick taken before cancel() of its context; inf = not (yet) cancelled

	lim    int  // limiter the holder belongs to: 0 = the scenario's main limiter, k>0 = e.extraLim[k-1]
	nested bool // acquired on a context that already carried a holder (set before the holder is published)

	inTR   int32 // atomic: TemporarilyRelease nesting depth currently executing (owner only)
	window int32 // atomic: >0 while the outermost f has returned and TemporarilyRelease has not

	mu  sync.Mutex
	trs [][2]int64 // [tick before entering TR, tick after TR returned (inf while inside)]
}

// counted reports whether the holder certainly owns a token after Acquire
// returned: limiter context, and Acquire returned before cancel() was begun.
func (h *holder) counted() bool {
	switch h.kind {
	case ctxNormal:
		return true
	case ctxCancelDuring:
		return h.start < atomic.LoadInt64(h.cancelTick)
	}
	return false
}

type env struct {
	n     int
	base  context.Context
	clock int64
	y     *vlib.Yielder

	mu       sync.Mutex
	holders  []*holder
	actors   []*actor
	nextH    int32
	extraLim []int // sizes of further limiters (ids 1..), see newLimiter
	epiFirst int32 // first holder id of the capacity-check epilogue (0 = not started)

	wg sync.WaitGroup // script goroutines and their helpers

	feat map[string]int // feature counters (under mu)
}

func newEnv(n int) *env {
	return &env{n: n, base: concurrencylimiter.With(context.Background(), n), feat: map[string]int{}}
}

func (e *env) tick() int64 { return atomic.AddInt64(&e.clock, 1) }

func (e *env) activity() int64 {
	a := atomic.LoadInt64(&e.clock)
	if e.y != nil {
		a += e.y.Events()
	}
	return a
}

func (e *env) newActor() *actor {
	e.mu.Lock()
	defer e.mu.Unlock()
	a := &actor{id: len(e.actors)}
	e.actors = append(e.actors, a)
	return a
}

func (e *env) count(f string) {
	e.mu.Lock()
	e.feat[f]++
	e.mu.Unlock()
}

func (a *actor) ev(e *env, h int, k evKind, d int) int64 {
	t := e.tick()
	a.log = append(a.log, event{T: t, G: a.id, H: h, K: k, D: d})
	return t
}

// acquire calls Acquire on ctx and registers the holder.
func (e *env) acquire(a *actor, ctx context.Context, kind int, cancelTick *int64) *holder {
	return e.acquireLim(a, ctx, kind, cancelTick, 0)
}

// newLimiter registers a further limiter of size m (attached by the scenario
// with concurrencylimiter.With on some context) and returns its id. Limiter 0
// is the scenario's main limiter of size e.n.
func (e *env) newLimiter(m int) int {
	e.mu.Lock()
	defer e.mu.Unlock()
	e.extraLim = append(e.extraLim, m)
	return len(e.extraLim)
}

// acquireLim is acquire for a context whose innermost With is limiter lim.
func (e *env) acquireLim(a *actor, ctx context.Context, kind int, cancelTick *int64, lim int) *holder {
	id := int(atomic.AddInt32(&e.nextH, 1)) - 1
	a.ev(e, id, evAcqCall, 0)
	hctx, rel := concurrencylimiter.Acquire(ctx)
	t := a.ev(e, id, evAcqRet, 0)
	h := &holder{id: id, owner: a.id, kind: kind, ctx: hctx, rel: rel, start: t, end: inf, cancelTick: cancelTick, lim: lim,
		nested: kind == ctxNormal && ctx != e.base}
	e.mu.Lock()
	e.holders = append(e.holders, h)
	e.feat["acquire:"+ctxNames[kind]]++
	e.mu.Unlock()
	return h
}

// release calls h's release func from actor a (owner or not). The holder stops
// counting as holding at the tick taken BEFORE the call.
func (e *env) release(a *actor, h *holder) {
	t := a.ev(e, h.id, evRelCall, 0)
	for {
		old := atomic.LoadInt64(&h.end)
		if t >= old || atomic.CompareAndSwapInt64(&h.end, old, t) {
			break
		}
	}
	h.rel()
	a.ev(e, h.id, evRelRet, 0)
}

// faults raised inside the function passed to TemporarilyRelease
const (
	faultNone   = iota
	faultPanic  // f panics after body; recovered right around the TemporarilyRelease call
	faultGoexit // f calls runtime.Goexit after body; the caller's deferred functions carry on
)

type trPanic struct{}

// tr runs body inside TemporarilyRelease on h's context (owner only).
func (e *env) tr(a *actor, h *holder, body func()) { e.trFault(a, h, body, faultNone) }

// trFault is tr with an optional fault raised at the end of f. The temporary
// release span ends at the tick taken once TemporarilyRelease has returned or
// has been unwound: from then on the goroutine is outside TemporarilyRelease
// again and counts as holding until release is called.
func (e *env) trFault(a *actor, h *holder, body func(), fault int) {
	d := int(atomic.AddInt32(&h.inTR, 1)) - 1
	t0 := a.ev(e, h.id, evTRCall, d)
	h.mu.Lock()
	idx := len(h.trs)
	h.trs = append(h.trs, [2]int64{t0, inf})
	h.mu.Unlock()
	defer func() {
		var p interface{}
		if fault == faultPanic {
			p = recover()
		}
		if d == 0 {
			atomic.AddInt32(&h.window, -1)
		}
		atomic.AddInt32(&h.inTR, -1)
		k := evTRRet
		if fault != faultNone {
			k = evTRUnwound
		}
		t1 := a.ev(e, h.id, k, d)
		h.mu.Lock()
		h.trs[idx][1] = t1
		h.mu.Unlock()
		if p != nil {
			if _, ok := p.(trPanic); !ok {
				panic(p)
			}
		}
	}()
	concurrencylimiter.TemporarilyRelease(h.ctx, func() {
		a.ev(e, h.id, evFStart, d)
		body()
		a.ev(e, h.id, evFEnd, d)
		if d == 0 {
			atomic.AddInt32(&h.window, 1)
		}
		switch fault {
		case faultPanic:
			panic(trPanic{})
		case faultGoexit:
			runtime.Goexit()
		}
	})
}

// trNoHolder runs body inside TemporarilyRelease on a context without holder.
func (e *env) trNoHolder(a *actor, ctx context.Context, body func()) {
	a.ev(e, -1, evTRCall, 0)
	concurrencylimiter.TemporarilyRelease(ctx, func() {
		a.ev(e, -1, evFStart, 0)
		body()
		a.ev(e, -1, evFEnd, 0)
	})
	a.ev(e, -1, evTRRet, 0)
}

// pick chooses a holder not owned by a: mode 0 prefers holders inside the
// "f returned, TemporarilyRelease not yet returned" window, then holders inside
// TemporarilyRelease, then unreleased ones, then any; mode 1 wants a holder
// inside TemporarilyRelease only.
func (e *env) pick(a *actor, rnd func(int) int, mode int) *holder {
	e.mu.Lock()
	defer e.mu.Unlock()
	var win, in, live, other []*holder
	for _, h := range e.holders {
		if h.owner == a.id {
			continue
		}
		switch {
		case atomic.LoadInt32(&h.window) > 0:
			win = append(win, h)
		case atomic.LoadInt32(&h.inTR) > 0:
			in = append(in, h)
		case atomic.LoadInt64(&h.end) == inf:
			live = append(live, h)
		default:
			other = append(other, h)
		}
	}
	if mode == 1 {
		if len(win) > 0 {
			return win[rnd(len(win))]
		}
		if len(in) > 0 {
			return in[rnd(len(in))]
		}
		return nil
	}
	for _, l := range [][]*holder{win, in, live, other} {
		if len(l) > 0 && rnd(4) != 0 {
			return l[rnd(len(l))]
		}
	}
	for _, l := range [][]*holder{live, in, win, other} {
		if len(l) > 0 {
			return l[rnd(len(l))]
		}
	}
	return nil
}

// windowHolders lists the holders currently between "f returned" and
// "TemporarilyRelease returned".
func (e *env) windowHolders() []*holder {
	e.mu.Lock()
	defer e.mu.Unlock()
	var out []*holder
	for _, h := range e.holders {
		if atomic.LoadInt32(&h.window) > 0 {
			out = append(out, h)
		}
	}
	return out
}

func gosched(k int) {
	for i := 0; i < k; i++ {
		runtime.Gosched()
	}
}

// await waits for ch to be closed. The verdict never depends on time: a closed
// channel is Reached; a system that went quiet (no tick, no hook visit) with
// the channel still open is QuiescentNot; still moving at the hard deadline is
// Undecided.
func (e *env) await(ch <-chan struct{}) vlib.Outcome {
	for i := 0; i < 50; i++ {
		select {
		case <-ch:
			return vlib.Reached
		default:
		}
		runtime.Gosched()
	}
	t := time.NewTimer(2 * time.Second)
	defer t.Stop()
	select {
	case <-ch:
		return vlib.Reached
	case <-t.C:
	}
	return vlib.WaitCond(func() bool {
		select {
		case <-ch:
			return true
		default:
			return false
		}
	}, e.activity, 0, 30*time.Second)
}

// ---------------------------------------------------------------- analysis

type span struct {
	a, b int64
	h    *holder
}

// holding returns the definitely-holding spans of h.
func holding(h *holder) []span {
	if !h.counted() {
		return nil
	}
	end := atomic.LoadInt64(&h.end)
	if end <= h.start {
		return nil
	}
	h.mu.Lock()
	trs := append([][2]int64(nil), h.trs...)
	h.mu.Unlock()
	sort.Slice(trs, func(i, j int) bool { return trs[i][0] < trs[j][0] })
	var out []span
	cur := h.start
	for _, tr := range trs {
		if tr[0] >= end {
			break
		}
		if tr[0] > cur {
			out = append(out, span{cur, tr[0], h})
		}
		if tr[1] > cur {
			cur = tr[1]
		}
		if cur >= end {
			break
		}
	}
	if cur < end {
		out = append(out, span{cur, end, h})
	}
	return out
}

type overlap struct {
	lim      int       // limiter whose bound was exceeded (meaningful when at != 0)
	n        int       // its size
	scripted int       // the same maximum over the scripted part only (without the capacity check)
	max      int       // maximum number of simultaneously holding holders
	at       int64     // first tick at which more than n were holding (0 if never)
	holders  []*holder // who was holding at that tick
}

// sweep computes the maximum overlap of all definitely-holding spans.
func (e *env) sweep() overlap {
	res := e.sweepLim(0, e.n)
	e.mu.Lock()
	extra := append([]int(nil), e.extraLim...)
	e.mu.Unlock()
	for k, m := range extra {
		if o := e.sweepLim(k+1, m); o.at != 0 && res.at == 0 {
			res.at, res.holders, res.lim, res.n = o.at, o.holders, o.lim, o.n
		}
	}
	return res
}

// sweepLim is the sweep over the holders of one limiter of size n.
func (e *env) sweepLim(lim, n int) overlap {
	e.mu.Lock()
	var hs []*holder
	for _, h := range e.holders {
		if h.lim == lim {
			hs = append(hs, h)
		}
	}
	e.mu.Unlock()
	type pt struct {
		t int64
		d int
		h *holder
	}
	var pts []pt
	for _, h := range hs {
		for _, s := range holding(h) {
			pts = append(pts, pt{s.a, +1, h}, pt{s.b, -1, h})
		}
	}
	// ticks are unique per event; a holder's own span ends and starts never
	// coincide. Ends sort before starts on equal ticks anyway (conservative).
	sort.Slice(pts, func(i, j int) bool {
		if pts[i].t != pts[j].t {
			return pts[i].t < pts[j].t
		}
		return pts[i].d < pts[j].d
	})
	res := overlap{lim: lim, n: n}
	active := map[*holder]bool{}
	cur, curS := 0, 0
	epi := int(atomic.LoadInt32(&e.epiFirst))
	for _, p := range pts {
		if p.d > 0 {
			active[p.h] = true
		} else {
			delete(active, p.h)
		}
		cur += p.d
		if epi == 0 || p.h.id < epi {
			curS += p.d
		}
		if cur > res.max {
			res.max = cur
		}
		if curS > res.scripted {
			res.scripted = curS
		}
		if cur > n && res.at == 0 {
			res.at = p.t
			for h := range active {
				res.holders = append(res.holders, h)
			}
			sort.Slice(res.holders, func(i, j int) bool { return res.holders[i].id < res.holders[j].id })
		}
	}
	return res
}

// merged returns all events in tick order. Call only when every actor is
// finished (or parked for good).
func (e *env) merged() []event {
	e.mu.Lock()
	defer e.mu.Unlock()
	var all []event
	for _, a := range e.actors {
		all = append(all, a.log...)
	}
	sort.Slice(all, func(i, j int) bool { return all[i].T < all[j].T })
	return all
}

// windowRelease is the classifier of the token-steal defect: some holder h had
// a release call by a goroutine other than the one running its outermost
// TemporarilyRelease, and that call [call,ret] overlapped the span between f
// returning and TemporarilyRelease returning (the re-acquire window), beginning
// before tick `before`. Returns the holder id or -1.
func windowRelease(evs []event, before int64) (hid int, relCall int64) {
	type win struct {
		f, r int64
		g    int
	}
	wins := map[int][]win{}
	open := map[int]*win{}
	for _, ev := range evs {
		if ev.H < 0 || ev.D != 0 {
			continue
		}
		switch ev.K {
		case evFEnd:
			open[ev.H] = &win{f: ev.T, r: inf, g: ev.G}
		case evTRRet, evTRUnwound:
			if w := open[ev.H]; w != nil {
				w.r = ev.T
				wins[ev.H] = append(wins[ev.H], *w)
				delete(open, ev.H)
			}
		}
	}
	for h, w := range open {
		wins[h] = append(wins[h], *w)
	}
	type rel struct {
		c, r int64
		g    int
	}
	rels := map[int][]rel{}
	openRel := map[[2]int]int64{}
	for _, ev := range evs {
		switch ev.K {
		case evRelCall:
			openRel[[2]int{ev.G, ev.H}] = ev.T
		case evRelRet:
			k := [2]int{ev.G, ev.H}
			if c, ok := openRel[k]; ok {
				rels[ev.H] = append(rels[ev.H], rel{c, ev.T, ev.G})
				delete(openRel, k)
			}
		}
	}
	for k, c := range openRel {
		rels[k[1]] = append(rels[k[1]], rel{c, inf, k[0]})
	}
	best, bestC := -1, inf
	for h, ws := range wins {
		for _, w := range ws {
			for _, r := range rels[h] {
				if r.g != w.g && r.c < w.r && r.r > w.f && r.c < before && r.c < bestC {
					best, bestC = h, r.c
				}
			}
		}
	}
	return best, bestC
}

const classTokenSteal = "token-steal-release-during-reacquire"

// verdict runs the sweep over a finished scenario and reports an overlap > n.
func (e *env) verdict(run *vlib.Run, i int, desc map[string]interface{}) overlap {
	ov := e.sweep()
	if ov.at == 0 {
		return ov
	}
	evs := e.merged()
	class := ""
	wh, wc := windowRelease(evs, ov.at)
	if wh >= 0 {
		class = classTokenSteal
	}
	involved := map[int]bool{}
	var hs []interface{}
	lo := ov.at
	for _, h := range ov.holders {
		involved[h.id] = true
		if h.start < lo {
			lo = h.start
		}
		var sp []string
		for _, s := range holding(h) {
			b := fmt.Sprint(s.b)
			if s.b == inf {
				b = "inf"
			}
			sp = append(sp, fmt.Sprintf("[%d,%s)", s.a, b))
		}
		hs = append(hs, map[string]interface{}{"holder": h.id, "goroutine": h.owner, "ctx": ctxNames[h.kind], "holding_spans": strings.Join(sp, " ")})
	}
	if wh >= 0 {
		involved[wh] = true
		if wc < lo {
			lo = wc
		}
	}
	var hist []string
	for _, ev := range evs {
		if ev.T > ov.at+4 {
			break
		}
		if involved[ev.H] && (ev.T >= lo-6 || ev.H == wh) {
			hist = append(hist, ev.String())
		}
	}
	if len(hist) > 120 {
		hist = hist[len(hist)-120:]
	}
	w := map[string]interface{}{
		"what":              fmt.Sprintf("%d goroutines were between Acquire and release (outside TemporarilyRelease) at logical tick %d; limit n=%d (limiter #%d of the scenario)", len(ov.holders), ov.at, ov.n, ov.lim),
		"n":                 ov.n,
		"observed_overlap":  len(ov.holders),
		"expected":          fmt.Sprintf("<= %d", ov.n),
		"holders_at_tick":   hs,
		"history":           hist,
		"history_format":    "tick goroutine holder event nesting-depth; ticks come from one atomic counter",
		"window_release_of": wh,
	}
	for k, v := range desc {
		w[k] = v
	}
	run.Violation(i, class, w)
	return ov
}

// hang reports a liveness outcome.
func (e *env) hang(run *vlib.Run, i int, o vlib.Outcome, what string, desc map[string]interface{}) {
	if o == vlib.Undecided {
		run.Inconclusive(fmt.Sprintf("case %d: %s: still busy at the hard deadline", i, what))
		return
	}
	w := map[string]interface{}{
		"what":     what + ": the system went quiet (no tick, no hook visit for 450 ms) with the operation still not returned",
		"n":        e.n,
		"expected": "the operation returns",
		"stacks":   vlib.Trunc(strings.Join(vlib.ThunderGoroutines(), "\n\n"), 6000),
	}
	for k, v := range desc {
		w[k] = v
	}
	run.Violation(i, "", w)
}
