//go:build verif

package c20

import (
	"testing"

	"github.com/anishathalye/porcupine"
)

// Unit tests of the monitor itself (not run by the driver).

func mkHolder(id int, start, end int64, trs ...[2]int64) *holder {
	return &holder{id: id, owner: id, kind: ctxNormal, start: start, end: end, trs: trs}
}

func TestSweepCountsOnlyDefiniteHolding(t *testing.T) {
	// two holders overlap in ticks [5,8) with n=1
	e := newEnv(1)
	e.holders = []*holder{mkHolder(0, 2, 8), mkHolder(1, 5, 9)}
	if ov := e.sweep(); ov.at != 5 || ov.max != 2 || len(ov.holders) != 2 {
		t.Fatalf("overlap not found: %+v", ov)
	}
	// the same, but holder 0 is inside TemporarilyRelease over [4,10]
	e = newEnv(1)
	e.holders = []*holder{mkHolder(0, 2, 12, [2]int64{4, 10}), mkHolder(1, 5, 9)}
	if ov := e.sweep(); ov.at != 0 || ov.max != 1 {
		t.Fatalf("temporary release not subtracted: %+v", ov)
	}
	// nested and unterminated TR spans
	e = newEnv(1)
	e.holders = []*holder{mkHolder(0, 2, inf, [2]int64{4, inf}, [2]int64{5, 6}), mkHolder(1, 7, 9)}
	if ov := e.sweep(); ov.at != 0 {
		t.Fatalf("open temporary release not subtracted: %+v", ov)
	}
	// holder released (by anyone) before the other acquired
	e = newEnv(1)
	e.holders = []*holder{mkHolder(0, 2, 4), mkHolder(1, 5, 9)}
	if ov := e.sweep(); ov.at != 0 {
		t.Fatalf("released holder counted: %+v", ov)
	}
	// uncounted context kinds never count
	e = newEnv(1)
	h := mkHolder(0, 2, 20)
	h.kind = ctxPreCancelled
	c := int64(1)
	g := mkHolder(2, 3, 20)
	g.kind = ctxCancelDuring
	g.cancelTick = &c
	e.holders = []*holder{h, g, mkHolder(1, 5, 9)}
	if ov := e.sweep(); ov.at != 0 {
		t.Fatalf("holder on cancelled context counted: %+v", ov)
	}
	// n=2 with three overlapping
	e = newEnv(2)
	e.holders = []*holder{mkHolder(0, 1, 10), mkHolder(1, 2, 10), mkHolder(2, 3, 10)}
	if ov := e.sweep(); ov.at != 3 || ov.max != 3 {
		t.Fatalf("n=2 overlap of 3 not found: %+v", ov)
	}
}

func pop(g int, name string, h int, call, ret int64) porcupine.Operation {
	return porcupine.Operation{ClientId: g, Input: semIn{name, h}, Call: call, Return: ret}
}

func TestSemaphoreModel(t *testing.T) {
	m := semModel(1)
	// the token-steal history: h1 holds from 6 on; h0's release lands while h0
	// returns from TR; h2 acquires at [10,11] while h1 still holds.
	steal := []porcupine.Operation{
		pop(0, "acquire", 0, 1, 2), pop(0, "trBegin", 0, 3, 4), pop(1, "acquire", 1, 5, 6),
		pop(2, "release", 0, 8, 9), pop(3, "acquire", 2, 10, 11), pop(3, "release", 2, 12, 13),
		pop(0, "trEnd", 0, 7, 14), pop(1, "release", 1, 15, 16),
	}
	if porcupine.CheckOperations(m, steal) {
		t.Fatal("token-steal history accepted by the semaphore model")
	}
	// the repaired behaviour: h2 acquires only after h1's release began
	fine := []porcupine.Operation{
		pop(0, "acquire", 0, 1, 2), pop(0, "trBegin", 0, 3, 4), pop(1, "acquire", 1, 5, 6),
		pop(2, "release", 0, 8, 9), pop(3, "acquire", 2, 10, 17), pop(3, "release", 2, 18, 19),
		pop(0, "trEnd", 0, 7, 20), pop(1, "release", 1, 15, 16),
	}
	if !porcupine.CheckOperations(m, fine) {
		t.Fatal("legal history rejected by the semaphore model")
	}
	// double release and release inside TR are legal
	dbl := []porcupine.Operation{
		pop(0, "acquire", 0, 1, 2), pop(0, "trBegin", 0, 3, 4), pop(0, "release", 0, 5, 6), pop(0, "trEnd", 0, 7, 8),
		pop(0, "release", 0, 9, 10), pop(1, "acquire", 1, 11, 12),
	}
	if !porcupine.CheckOperations(m, dbl) {
		t.Fatal("double release rejected")
	}
}

func TestWindowClassifier(t *testing.T) {
	evs := []event{
		{T: 1, G: 0, H: 0, K: evAcqCall}, {T: 2, G: 0, H: 0, K: evAcqRet}, {T: 3, G: 0, H: 0, K: evTRCall}, {T: 4, G: 0, H: 0, K: evFStart},
		{T: 7, G: 0, H: 0, K: evFEnd}, {T: 8, G: 2, H: 0, K: evRelCall}, {T: 9, G: 2, H: 0, K: evRelRet}, {T: 14, G: 0, H: 0, K: evTRRet},
	}
	if h, _ := windowRelease(evs, 11); h != 0 {
		t.Fatalf("window release not recognised: %d", h)
	}
	// release before f returned: not the window
	evs[5].T, evs[6].T = 5, 6
	if h, _ := windowRelease(evs, 11); h != -1 {
		t.Fatalf("release inside f classified as window release: %d", h)
	}
}
