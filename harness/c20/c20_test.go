//go:build verif

// Package c20 monitors property C20: with a limiter of size n on a context at
// most n goroutines are between Acquire and release at once (time inside
// TemporarilyRelease not counted), release is idempotent and may happen during
// a temporary release, the full capacity is available again after all holders
// released, and Acquire never blocks on a cancelled or limiter-less context.
package c20

import (
	"context"
	"fmt"
	"math/rand"
	"sort"
	"strings"
	"sync"
	"sync/atomic"
	"testing"
	"time"

	"github.com/anishathalye/porcupine"
	"github.com/samsarahq/thunder/batch"
	"github.com/samsarahq/thunder/concurrencylimiter"
	"github.com/samsarahq/thunder/verifharness/vlib"
)

// ------------------------------------------------------------------ scripts

const (
	opWork       = iota // a few scheduler yields
	opTR                // TemporarilyRelease on the own holder, Sub runs inside f
	opRel               // release the own holder (early, or inside TemporarilyRelease)
	opForeign           // call the release func of another goroutine's holder (non-blocking pick)
	opSnipe             // wait (bounded) for another holder's f to return, then release that holder
	opTRNoHolder        // TemporarilyRelease on a context without holder
	opTRPanic           // like opTR, but f panics after Sub; the goroutine recovers and carries on in its critical section
	opInner             // attach a second limiter of size A on THIS holder's returned context (With on a context that carries a holder of another limiter); A+1 goroutines Acquire on it, run Sub, release
	opShare             // inside the own TemporarilyRelease: a second goroutine calls TemporarilyRelease on the SAME holder's context and is still inside when the owner's f returns
	opChild             // start a goroutine that calls Acquire on THIS holder's returned context (nested Acquire), runs Sub, releases
)

type op struct {
	K   int
	A   int
	Sub []op
}

type segment struct {
	Kind        int  // context kind of the Acquire
	Body        []op // operations between Acquire and the final release
	Tail        int  // number of final release calls (>= 1)
	HandOff     bool // the owner makes no final release call if a call of its release func (by anyone) has already begun: released exactly once, by someone else
	CancelAfter int  // ctxCancelDuring: yields before the helper cancels
}

type script []segment

func opsString(ops []op) string {
	var sb strings.Builder
	for i, o := range ops {
		if i > 0 {
			sb.WriteByte(' ')
		}
		switch o.K {
		case opWork:
			fmt.Fprintf(&sb, "w%d", o.A)
		case opTR:
			sb.WriteString("T(" + opsString(o.Sub) + ")")
		case opTRPanic:
			sb.WriteString("P(" + opsString(o.Sub) + ")")
		case opRel:
			sb.WriteString("R")
		case opForeign:
			sb.WriteString("F")
		case opSnipe:
			sb.WriteString("S")
		case opTRNoHolder:
			fmt.Fprintf(&sb, "N%d", o.A)
		case opChild:
			sb.WriteString("C{" + opsString(o.Sub) + "}")
		case opInner:
			fmt.Fprintf(&sb, "L%d{%s}", o.A, opsString(o.Sub))
		case opShare:
			fmt.Fprintf(&sb, "H%d", o.A)
		}
	}
	return sb.String()
}

func (s script) String() string {
	var parts []string
	for _, seg := range s {
		parts = append(parts, fmt.Sprintf("A:%s[%s]R%d%s", ctxNames[seg.Kind], opsString(seg.Body), seg.Tail, map[bool]string{true: "h"}[seg.HandOff]))
	}
	return strings.Join(parts, " ; ")
}

func genOps(r *rand.Rand, n, depth int, simple, child bool) []op {
	var ops []op
	for i := 0; i < n; i++ {
		switch k := r.Intn(14); {
		case k < 2:
			ops = append(ops, op{K: opWork, A: r.Intn(4)})
		case k < 6:
			if depth >= 3 || (simple && depth >= 1) {
				ops = append(ops, op{K: opWork, A: 1})
			} else {
				k := opTR
				if r.Intn(5) == 0 {
					k = opTRPanic
				}
				ops = append(ops, op{K: k, Sub: genOps(r, r.Intn(4), depth+1, simple, child)})
			}
		case k < 7:
			ops = append(ops, op{K: opRel})
		case k < 9:
			ops = append(ops, op{K: opForeign})
		case k < 10:
			ops = append(ops, op{K: opSnipe})
		case k < 11:
			if simple {
				ops = append(ops, op{K: opWork, A: 1})
			} else {
				ops = append(ops, op{K: opTRNoHolder, A: r.Intn(2)})
			}
		case k < 12:
			ops = append(ops, op{K: opWork, A: 1 + r.Intn(3)})
		default:
			if depth >= 1 && !simple && r.Intn(2) == 0 {
				ops = append(ops, op{K: opShare, A: r.Intn(6)})
			} else if simple || !child {
				ops = append(ops, op{K: opWork, A: 1})
			} else {
				// the child mostly waits inside TemporarilyRelease, as a batch waiter does
				var sub []op
				if r.Intn(3) != 0 {
					sub = append(sub, op{K: opTR, Sub: genOps(r, r.Intn(3), 1, simple, false)})
				}
				sub = append(sub, genOps(r, r.Intn(3), 0, simple, false)...)
				if r.Intn(3) == 0 {
					ops = append(ops, op{K: opInner, A: 1 + r.Intn(2), Sub: genOps(r, r.Intn(3), 0, simple, false)})
				} else {
					ops = append(ops, op{K: opChild, Sub: sub})
				}
			}
		}
	}
	return ops
}

func genScript(r *rand.Rand, simple bool) script {
	var s script
	nseg := 1 + r.Intn(3)
	if simple {
		nseg = 1
	}
	for i := 0; i < nseg; i++ {
		seg := segment{Kind: ctxNormal, Tail: 1}
		if !simple {
			switch p := r.Intn(100); {
			case p < 76:
			case p < 84:
				seg.Kind = ctxPreCancelled
			case p < 90:
				seg.Kind = ctxNoLimiter
			default:
				seg.Kind = ctxCancelDuring
				seg.CancelAfter = r.Intn(6)
			}
			if r.Intn(4) == 0 {
				seg.Tail = 2
			}
		}
		seg.HandOff = r.Intn(3) == 0
		nb := r.Intn(5)
		if simple {
			nb = r.Intn(3)
		}
		seg.Body = genOps(r, nb, 0, simple, true)
		s = append(s, seg)
	}
	return s
}

// runOps interprets ops for actor a holding h.
func (e *env) runOps(a *actor, r *rand.Rand, h *holder, ops []op, inTR bool) {
	for _, o := range ops {
		switch o.K {
		case opWork:
			gosched(o.A)
		case opTR:
			if inTR {
				e.count("op:nested_tr")
			} else {
				e.count("op:tr")
			}
			e.tr(a, h, func() { e.runOps(a, r, h, o.Sub, true) })
		case opTRPanic:
			e.count("op:tr_f_panics_recovered")
			e.trFault(a, h, func() { e.runOps(a, r, h, o.Sub, true) }, faultPanic)
		case opRel:
			if inTR {
				e.count("op:release_during_own_tr")
			} else {
				e.count("op:early_release")
			}
			e.release(a, h)
		case opForeign:
			if t := e.pick(a, r.Intn, 0); t != nil {
				e.count("op:foreign_release")
				if atomic.LoadInt32(&t.inTR) > 0 {
					e.count("op:foreign_release_during_tr")
				}
				e.release(a, t)
			}
		case opSnipe:
			if t := e.pick(a, r.Intn, 1); t != nil {
				for k := 0; k < 200 && atomic.LoadInt32(&t.window) == 0 && atomic.LoadInt32(&t.inTR) > 0; k++ {
					gosched(1)
				}
				e.count("op:snipe_release")
				e.release(a, t)
			}
		case opChild:
			if h.kind != ctxNormal {
				gosched(1)
				break
			}
			e.count("op:child_acquire_on_parent_context")
			ca := e.newActor()
			cr := rand.New(rand.NewSource(r.Int63()))
			sub := o.Sub
			e.wg.Add(1)
			go func() {
				defer e.wg.Done()
				c := e.acquireLim(ca, h.ctx, ctxNormal, nil, h.lim)
				e.runOps(ca, cr, c, sub, false)
				e.release(ca, c)
			}()
		case opShare:
			if !inTR {
				gosched(1)
				break
			}
			// the second goroutine enters TemporarilyRelease while the owner is inside
			// its own f (the holder is blocked or released then, never acquired), and
			// stays longer than the owner
			e.count("op:second_goroutine_in_tr_on_same_holder")
			sa := e.newActor()
			in := make(chan struct{})
			stay := o.A
			e.wg.Add(1)
			go func() {
				defer e.wg.Done()
				e.trNoHolder(sa, h.ctx, func() { close(in); gosched(stay) })
			}()
			<-in
		case opInner:
			if h.kind != ctxNormal || h.lim != 0 {
				gosched(1)
				break
			}
			e.count("op:inner_limiter_on_holder_context")
			inner := concurrencylimiter.With(h.ctx, o.A)
			lim := e.newLimiter(o.A)
			for c := 0; c <= o.A; c++ {
				ca := e.newActor()
				cr := rand.New(rand.NewSource(r.Int63()))
				sub := o.Sub
				e.wg.Add(1)
				go func() {
					defer e.wg.Done()
					ih := e.acquireLim(ca, inner, ctxNormal, nil, lim)
					e.runOps(ca, cr, ih, sub, false)
					e.release(ca, ih)
				}()
			}
		case opTRNoHolder:
			e.count("op:tr_without_holder")
			ctx := e.base
			if o.A == 1 {
				ctx = context.Background()
			}
			e.trNoHolder(a, ctx, func() { gosched(1) })
		}
	}
}

func (e *env) runScript(a *actor, r *rand.Rand, sc script) {
	for _, seg := range sc {
		ctx := e.base
		var cancelTick *int64
		var cancel context.CancelFunc
		switch seg.Kind {
		case ctxPreCancelled:
			ctx, cancel = context.WithCancel(e.base)
			cancel()
		case ctxNoLimiter:
			ctx = context.Background()
		case ctxCancelDuring:
			ctx, cancel = context.WithCancel(e.base)
			cancelTick = new(int64)
			*cancelTick = inf
			helper := e.newActor()
			e.wg.Add(1)
			go func(k int) {
				defer e.wg.Done()
				gosched(k)
				t := helper.ev(e, -1, evCancel, 0)
				atomic.StoreInt64(cancelTick, t)
				cancel()
			}(seg.CancelAfter)
		}
		h := e.acquire(a, ctx, seg.Kind, cancelTick)
		e.runOps(a, r, h, seg.Body, false)
		if seg.HandOff && atomic.LoadInt64(&h.end) != inf {
			// a release call on this holder has begun (and will return): the
			// holder has been released, the owner adds no call of its own
			e.count("op:owner_leaves_release_to_earlier_call")
			continue
		}
		for k := 0; k < seg.Tail; k++ {
			if k > 0 {
				e.count("op:double_release")
			}
			e.release(a, h)
		}
	}
}

// epilogue checks, with every scripted holder released: n fresh Acquires
// complete; Acquire on a cancelled and on a limiter-less context returns while
// all n tokens are held, and their release funcs free nothing; an (n+1)-th
// Acquire does not complete while the n are held (decided by the overlap sweep
// on the ticks, not by a delay) and does complete once one is released.
func (e *env) epilogue(run *vlib.Run, i int, desc map[string]interface{}) bool {
	n := e.n
	atomic.StoreInt32(&e.epiFirst, atomic.LoadInt32(&e.nextH))
	acquired := make([]chan struct{}, n)
	goRel := make([]chan struct{}, n)
	allDone := make(chan struct{})
	var wg sync.WaitGroup
	for k := 0; k < n; k++ {
		acquired[k] = make(chan struct{})
		goRel[k] = make(chan struct{})
		a := e.newActor()
		wg.Add(1)
		go func(k int) {
			defer wg.Done()
			h := e.acquire(a, e.base, ctxNormal, nil)
			close(acquired[k])
			<-goRel[k]
			e.release(a, h)
		}(k)
	}
	for k := 0; k < n; k++ {
		if o := e.await(acquired[k]); o != vlib.Reached {
			e.hang(run, i, o, fmt.Sprintf("capacity check: after every holder released, fresh Acquire #%d of n=%d", k+1, n), desc)
			return false
		}
	}
	// all n tokens are held now
	free := make(chan struct{})
	fa := e.newActor()
	go func() {
		cctx, cancel := context.WithCancel(e.base)
		cancel()
		h1 := e.acquire(fa, cctx, ctxPreCancelled, nil)
		h2 := e.acquire(fa, context.Background(), ctxNoLimiter, nil)
		e.release(fa, h1)
		e.release(fa, h2)
		e.release(fa, h1)
		e.trNoHolder(fa, e.base, func() {})
		close(free)
	}()
	if o := e.await(free); o != vlib.Reached {
		e.hang(run, i, o, "Acquire/release on a cancelled context and on a context without limiter while all n tokens are held", desc)
		return false
	}
	extra := make(chan struct{})
	extraRel := make(chan struct{})
	xa := e.newActor()
	wg.Add(1)
	go func() {
		defer wg.Done()
		h := e.acquire(xa, e.base, ctxNormal, nil)
		close(extra)
		<-extraRel
		e.release(xa, h)
	}()
	// give a wrongly admitted (n+1)-th Acquire the chance to return; the
	// verdict is the tick order (its Acquire returned before holder 0's release
	// was begun), not this delay.
	for k := 0; k < 30; k++ {
		select {
		case <-extra:
			k = 30
		default:
			gosched(1)
		}
	}
	// the limiter is still full and the (n+1)-th goroutine (live context) is
	// parked inside Acquire: an Acquire on a context cancelled before the call,
	// and one whose context is cancelled while it waits, must both return now
	behind := make(chan struct{})
	ba, ca := e.newActor(), e.newActor()
	go func() {
		cctx, cancel := context.WithCancel(e.base)
		cancel()
		h1 := e.acquire(ba, cctx, ctxPreCancelled, nil)
		e.release(ba, h1)
		wctx, wcancel := context.WithCancel(e.base)
		ct := new(int64)
		*ct = inf
		got := make(chan *holder, 1)
		go func() { got <- e.acquire(ca, wctx, ctxCancelDuring, ct) }()
		gosched(10)
		atomic.StoreInt64(ct, ba.ev(e, -1, evCancel, 0))
		wcancel()
		h2 := <-got
		e.release(ba, h2)
		close(behind)
	}()
	if o := e.await(behind); o != vlib.Reached {
		e.hang(run, i, o, "Acquire on a cancelled context (cancelled before the call, then cancelled while waiting) while the limiter is full and a goroutine with a live context is parked in Acquire", desc)
		return false
	}
	close(goRel[0])
	if o := e.await(extra); o != vlib.Reached {
		e.hang(run, i, o, "capacity check: (n+1)-th Acquire after one of the n holders released", desc)
		return false
	}
	for k := 1; k < n; k++ {
		close(goRel[k])
	}
	close(extraRel)
	go func() { wg.Wait(); close(allDone) }()
	if o := e.await(allDone); o != vlib.Reached {
		e.hang(run, i, o, "capacity check: final releases", desc)
		return false
	}
	return true
}

// shape abstracts the observed history: per holder the sequence of outermost
// TemporarilyRelease entries/returns and release calls (own / foreign, inside
// or outside TemporarilyRelease, inside the re-acquire window).
func (e *env) shape(evs []event, ov overlap) (string, bool, map[string]int) {
	owner := map[int]int{}
	kind := map[int]int{}
	nested := map[int]bool{}
	e.mu.Lock()
	for _, h := range e.holders {
		owner[h.id] = h.owner
		kind[h.id] = h.kind
		nested[h.id] = h.nested
	}
	e.mu.Unlock()
	sig := map[int]*strings.Builder{}
	state := map[int]int{} // 0 outside, 1 inside f, 2 window
	feats := map[string]int{}
	for _, ev := range evs {
		if ev.H < 0 {
			continue
		}
		sb := sig[ev.H]
		if sb == nil {
			sb = &strings.Builder{}
			sb.WriteString(ctxNames[kind[ev.H]][:1] + ":")
			if nested[ev.H] {
				sb.WriteString("child:")
				feats["holder_acquired_on_parent_context"]++
			}
			sig[ev.H] = sb
		}
		switch ev.K {
		case evTRCall:
			if ev.D == 0 {
				sb.WriteByte('t')
				state[ev.H] = 1
			} else {
				sb.WriteByte('n')
			}
		case evFEnd:
			if ev.D == 0 {
				state[ev.H] = 2
			}
		case evTRRet, evTRUnwound:
			if ev.D == 0 {
				if ev.K == evTRUnwound {
					sb.WriteByte('p')
					feats["tr_unwound_by_panic_or_goexit"]++
				} else {
					sb.WriteByte('u')
				}
				state[ev.H] = 0
			}
		case evRelCall:
			c := byte('r')
			if ev.G != owner[ev.H] {
				c = 'f'
				switch state[ev.H] {
				case 1:
					feats["foreign_release_inside_tr"]++
				case 2:
					feats["foreign_release_in_reacquire_window"]++
				}
			} else if state[ev.H] == 1 {
				feats["own_release_inside_tr"]++
			}
			sb.WriteByte(c)
			sb.WriteByte("-iw"[state[ev.H]])
		}
	}
	var sigs []string
	interesting := false
	for _, sb := range sig {
		s := sb.String()
		sigs = append(sigs, s)
		if strings.Contains(s, "t") && (strings.Contains(s, "f") || strings.Contains(s, "ri")) {
			interesting = true
		}
	}
	sort.Strings(sigs)
	reached := ov.scripted >= e.n
	if reached {
		feats["limit_reached_in_scripted_part"]++
	}
	return fmt.Sprintf("n=%d max=%d %s", e.n, ov.scripted, strings.Join(sigs, ",")), reached && interesting, feats
}

// ---------------------------------------------------------------- scenarios

type actTracker struct {
	inj  *vlib.Injection
	done int32
}

// finishActs waits until the injected action, if its point was reached, has
// finished. Call when no scenario goroutine is left (no further hook visits).
func (e *env) finishActs(tr *actTracker) vlib.Outcome {
	if tr.inj == nil {
		return vlib.Reached
	}
	return vlib.WaitCond(func() bool {
		return !tr.inj.Fired() || atomic.LoadInt32(&tr.done) == 1
	}, e.activity, 2*time.Second, 30*time.Second)
}

var hookPoints = []string{"limiter.block.reacquiring", "limiter.release.swapped", "limiter.block.blocked"}

// randomScenario runs seeded scripts on G goroutines.
func randomScenario(run *vlib.Run, i int, agg *vlib.HitAgg, simple bool) (*env, bool) {
	r := run.Rand("scenario", i)
	n := 1 + r.Intn(4)
	g := 2 + r.Intn(23)
	if simple {
		n = 1 + r.Intn(2)
		g = 2 + r.Intn(3)
	}
	scripts := make([]script, g)
	for k := range scripts {
		scripts[k] = genScript(r, simple)
	}
	intensity := []int{0, 15, 40, 80}[r.Intn(4)]
	e := newEnv(n)
	y := vlib.NewYielder(run.Seed()*1000003+int64(i), intensity)
	e.y = y
	tr := &actTracker{}
	injDesc := "none"
	if r.Intn(3) != 0 {
		point := hookPoints[r.Intn(len(hookPoints))]
		visit := 1 + r.Intn(4)
		injDesc = fmt.Sprintf("%s#%d", point, visit)
		tr.inj = &vlib.Injection{Point: point, Visit: visit, Timeout: 300 * time.Microsecond, Act: func() {
			defer atomic.StoreInt32(&tr.done, 1)
			a := e.newActor()
			hs := e.windowHolders()
			for _, h := range hs {
				e.count("op:injected_window_release")
				e.release(a, h)
			}
			gosched(8)
		}}
		y.Inject(tr.inj)
	}
	desc := map[string]interface{}{"kind": "random", "goroutines": g, "yield_intensity": intensity, "injection": injDesc}
	var ss []string
	for k, s := range scripts {
		ss = append(ss, fmt.Sprintf("g%d: %s", k, s))
	}
	desc["scripts"] = ss
	desc["script_format"] = "A:<ctx>[ops]R<k>[h]: Acquire, ops, k release calls (h: none if a call of the release func by anyone has already begun); wK yields, T(..) TemporarilyRelease, P(..) TemporarilyRelease whose f panics (recovered), R own release, F foreign release, S foreign release aimed at a returning TemporarilyRelease, N TemporarilyRelease without holder, H<k> (inside T) a second goroutine enters TemporarilyRelease on this holder's context and stays k yields longer than the owner; L<m>{..} With(this holder's context, m) and m+1 goroutines Acquire on it, run the ops, release; C{..} another goroutine calls Acquire on this holder's returned context (nested Acquire), runs the ops, releases"

	y.Install()
	defer vlib.Uninstall()
	done := make(chan struct{})
	start := make(chan struct{})
	for k := 0; k < g; k++ {
		a := e.newActor()
		gr := run.Rand(fmt.Sprintf("g%d", k), i)
		e.wg.Add(1)
		go func(k int) {
			defer e.wg.Done()
			<-start
			e.runScript(a, gr, scripts[k])
		}(k)
	}
	close(start)
	go func() { e.wg.Wait(); close(done) }()
	ok := true
	if o := e.await(done); o != vlib.Reached {
		e.hang(run, i, o, "scripted workload", desc)
		ok = false
	} else if o := e.finishActs(tr); o != vlib.Reached {
		e.hang(run, i, o, "injected release", desc)
		ok = false
	} else if ok = e.epilogue(run, i, desc); ok {
		if o := e.finishActs(tr); o != vlib.Reached {
			e.hang(run, i, o, "injected release", desc)
			ok = false
		}
	}
	agg.Add(y)
	if !ok {
		return e, false
	}
	ov := e.verdict(run, i, desc)
	evs := e.merged()
	sh, nontrivial, feats := e.shape(evs, ov)
	run.Case(sh, nontrivial)
	for f, c := range feats {
		run.Count("observed:"+f, c)
	}
	e.mu.Lock()
	for f, c := range e.feat {
		run.Count(f, c)
	}
	e.mu.Unlock()
	run.Count("events", len(evs))
	if nontrivial && run.WantSample() {
		var h []string
		for k, ev := range evs {
			if k >= 60 {
				h = append(h, "...")
				break
			}
			h = append(h, ev.String())
		}
		run.Sample(map[string]interface{}{"n": n, "scripts": ss, "injection": injDesc, "max_overlap": ov.max, "history_head": h})
	}
	return e, true
}

// targetedScenario drives the re-acquire window directly: H1 is inside
// TemporarilyRelease while n other goroutines hold all n tokens; when H1's f
// has returned and H1 is at the hook between its status CAS and its channel
// send, another goroutine calls H1's release func and an extra goroutine calls
// Acquire. The n others keep holding until the extra Acquire returned, or the
// foreign release returned and a short grace passed (timing only decides
// whether a defect is hit; the verdict is the overlap sweep).
func targetedScenario(run *vlib.Run, i int, agg *vlib.HitAgg) {
	n := 1 + i%4
	preWaiter := (i/4)%2 == 1
	intensity := []int{0, 25}[(i/8)%2]
	handOff := (i/16)%2 == 1 // H1 makes no release call of its own once the foreign call has begun
	e := newEnv(n)
	y := vlib.NewYielder(run.Seed()*7919+int64(i), intensity)
	e.y = y
	desc := map[string]interface{}{"kind": "targeted", "pre_blocked_waiter": preWaiter, "yield_intensity": intensity, "h1_released_only_by_the_foreign_call": handOff,
		"scenario": "H1 Acquire; H1 TemporarilyRelease(f); n others Acquire and hold; f returns; at hook limiter.block.reacquiring (H1 status CAS blocked->acquired done, token not yet re-sent) another goroutine calls H1's release func; an extra goroutine calls Acquire"}

	var h1 atomic.Value
	h1Holds := make(chan struct{})
	othersHold := make(chan struct{})
	fEnd := make(chan struct{})
	relDone := make(chan struct{})
	extraAcq := make(chan struct{})
	releaseExtra := make(chan struct{})
	var holdCount int32
	var wg sync.WaitGroup

	extra := func() {
		defer wg.Done()
		a := e.newActor()
		h := e.acquire(a, e.base, ctxNormal, nil)
		close(extraAcq)
		<-releaseExtra
		e.release(a, h)
	}
	tr := &actTracker{}
	inj := &vlib.Injection{Point: "limiter.block.reacquiring", Visit: 1, Timeout: time.Millisecond, Act: func() {
		defer atomic.StoreInt32(&tr.done, 1)
		a := e.newActor()
		e.release(a, h1.Load().(*holder))
		close(relDone)
		if !preWaiter {
			wg.Add(1)
			extra()
		} else {
			select {
			case <-extraAcq:
			case <-time.After(500 * time.Microsecond):
			}
		}
	}}
	tr.inj = inj
	y.Inject(inj)
	y.Install()
	defer vlib.Uninstall()

	// H1
	wg.Add(1)
	go func() {
		defer wg.Done()
		a := e.newActor()
		h := e.acquire(a, e.base, ctxNormal, nil)
		h1.Store(h)
		close(h1Holds)
		e.tr(a, h, func() {
			<-othersHold
			if preWaiter {
				wg.Add(1)
				go extra()
				gosched(20) // let the waiter park inside Acquire (affects hit rate only)
			}
			close(fEnd)
		})
		if !handOff || atomic.LoadInt64(&h.end) == inf {
			e.release(a, h)
		}
	}()
	// the n others
	for k := 0; k < n; k++ {
		wg.Add(1)
		go func() {
			defer wg.Done()
			a := e.newActor()
			<-h1Holds
			h := e.acquire(a, e.base, ctxNormal, nil)
			if int(atomic.AddInt32(&holdCount, 1)) == n {
				close(othersHold)
			}
			<-fEnd
			t := time.NewTimer(5 * time.Millisecond)
			select {
			case <-extraAcq:
			case <-relDone:
				g := time.NewTimer(150 * time.Microsecond)
				select {
				case <-extraAcq:
				case <-g.C:
				}
				g.Stop()
			case <-t.C:
			}
			t.Stop()
			e.release(a, h)
		}()
	}
	done := make(chan struct{})
	go func() {
		// the extra acquirer is released once it acquired
		<-extraAcq
		close(releaseExtra)
	}()
	go func() { <-fEnd; <-extraAcq; wg.Wait(); close(done) }()
	ok := true
	if o := e.await(done); o != vlib.Reached {
		if !inj.Fired() {
			run.Inconclusive(fmt.Sprintf("case %d: hook limiter.block.reacquiring was never visited (await) %v", i, y.Hits()))
		} else {
			e.hang(run, i, o, "targeted re-acquire window scenario", desc)
		}
		ok = false
	} else if o := e.finishActs(tr); o != vlib.Reached {
		e.hang(run, i, o, "injected release", desc)
		ok = false
	} else if ok = e.epilogue(run, i, desc); ok {
		if o := e.finishActs(tr); o != vlib.Reached {
			e.hang(run, i, o, "injected release", desc)
			ok = false
		}
	}
	agg.Add(y)
	if !ok {
		return
	}
	if !inj.Fired() {
		run.Inconclusive(fmt.Sprintf("case %d: hook limiter.block.reacquiring was never visited (post) %v", i, y.Hits()))
	} else {
		run.Count("targeted_window_hit", 1)
	}
	ov := e.verdict(run, i, desc)
	evs := e.merged()
	sh, _, feats := e.shape(evs, ov)
	run.Case(fmt.Sprintf("targeted pre=%v %s", preWaiter, sh), inj.Fired())
	if n <= 2 {
		porcupineCheck(run, i, e, evs, 24)
	}
	for f, c := range feats {
		run.Count("observed:"+f, c)
	}
	e.mu.Lock()
	for f, c := range e.feat {
		run.Count(f, c)
	}
	e.mu.Unlock()
}

// nestedScenario drives the fan-out shape: parent P acquires on the base
// context and stays in its critical section; 1..2 children (other goroutines)
// call Acquire on P's RETURNED context (a context that already carries a holder
// of the same limiter) and wait inside TemporarilyRelease, as batch.Invoke
// waiters do; then n other goroutines call Acquire. P never enters
// TemporarilyRelease, so the monitor keeps counting P: with the children's
// tokens given up exactly n-1 of the others may get in while P holds.
func nestedScenario(run *vlib.Run, i, k int, agg *vlib.HitAgg) {
	n := 2 + k%3
	children := 1 + (k/3)%2
	if children > n-1 {
		children = n - 1
	}
	intensity := []int{0, 25}[(k/6)%2]
	nestedTR := (k/12)%2 == 1
	e := newEnv(n)
	y := vlib.NewYielder(run.Seed()*104729+int64(i), intensity)
	e.y = y
	y.Install()
	defer vlib.Uninstall()
	defer agg.Add(y)
	desc := map[string]interface{}{"kind": "nested-acquire", "children": children, "child_nests_tr": nestedTR, "yield_intensity": intensity,
		"scenario": "P: ctxP, relP := Acquire(base) and keeps running; each child goroutine: ctxC, relC := Acquire(ctxP); TemporarilyRelease(ctxC, wait); then n goroutines Acquire(base); P releases only after n-1 of them hold"}

	pa := e.newActor()
	P := e.acquire(pa, e.base, ctxNormal, nil)
	gate := make(chan struct{})
	inTR := make(chan struct{}, children)
	var wg sync.WaitGroup
	for c := 0; c < children; c++ {
		ca := e.newActor()
		wg.Add(1)
		go func() {
			defer wg.Done()
			ch := e.acquire(ca, P.ctx, ctxNormal, nil)
			body := func() { inTR <- struct{}{}; <-gate }
			if nestedTR {
				inner := body
				body = func() { e.tr(ca, ch, inner) }
			}
			e.tr(ca, ch, body)
			e.release(ca, ch)
		}()
	}
	childrenWait := make(chan struct{})
	go func() {
		for c := 0; c < children; c++ {
			<-inTR
		}
		close(childrenWait)
	}()
	fail := func(o vlib.Outcome, what string) {
		e.hang(run, i, o, what, desc)
		run.Case("nested hang", false)
	}
	if o := e.await(childrenWait); o != vlib.Reached {
		fail(o, "nested Acquire on the parent's context / entering TemporarilyRelease")
		return
	}
	var got int32
	most := make(chan struct{}) // n-1 of the others hold
	all := make(chan struct{})  // all n hold
	relAll := make(chan struct{})
	for k := 0; k < n; k++ {
		oa := e.newActor()
		wg.Add(1)
		go func() {
			defer wg.Done()
			h := e.acquire(oa, e.base, ctxNormal, nil)
			switch int(atomic.AddInt32(&got, 1)) {
			case n - 1:
				close(most)
				if n == 1 {
					close(all)
				}
			case n:
				close(all)
			}
			<-relAll
			e.release(oa, h)
		}()
	}
	if o := e.await(most); o != vlib.Reached {
		fail(o, "Acquire of n-1 goroutines while the parent holds and the children wait inside TemporarilyRelease")
		return
	}
	// chance for a wrongly admitted n-th Acquire to return; the verdict is the
	// tick order against P's release, not this delay
	for k := 0; k < 40; k++ {
		select {
		case <-all:
			k = 40
		default:
			gosched(1)
		}
	}
	e.release(pa, P)
	if o := e.await(all); o != vlib.Reached {
		fail(o, "n-th Acquire after the parent released")
		return
	}
	close(relAll)
	close(gate)
	done := make(chan struct{})
	go func() { wg.Wait(); close(done) }()
	if o := e.await(done); o != vlib.Reached {
		fail(o, "children returning from TemporarilyRelease and releasing")
		return
	}
	if !e.epilogue(run, i, desc) {
		run.Case("nested hang", false)
		return
	}
	ov := e.verdict(run, i, desc)
	evs := e.merged()
	sh, _, feats := e.shape(evs, ov)
	run.Case(fmt.Sprintf("nested children=%d tr2=%v %s", children, nestedTR, sh), true)
	run.Count("nested_acquire_cases", 1)
	for f, c := range feats {
		run.Count("observed:"+f, c)
	}
	e.mu.Lock()
	for f, c := range e.feat {
		run.Count(f, c)
	}
	e.mu.Unlock()
	if n == 2 {
		porcupineCheck(run, i, e, evs, 24)
	}
}

// faultScenario: A acquires, calls TemporarilyRelease with an f that panics
// (recovered by A) or calls runtime.Goexit (A's deferred function carries on);
// A is then outside TemporarilyRelease and still between Acquire and release.
// n-1 others hold; B's Acquire must not return before A's release is begun
// (tick order), and must return after it.
func faultScenario(run *vlib.Run, i, k int, agg *vlib.HitAgg) {
	n := 1 + k%3
	fault := []int{faultPanic, faultGoexit}[(k/3)%2]
	intensity := []int{0, 25}[(k/6)%2]
	nested := (k/12)%2 == 1
	e := newEnv(n)
	y := vlib.NewYielder(run.Seed()*15485863+int64(i), intensity)
	e.y = y
	y.Install()
	defer vlib.Uninstall()
	defer agg.Add(y)
	desc := map[string]interface{}{"kind": "fault-in-f", "fault": []string{"", "panic (recovered)", "runtime.Goexit (deferred function carries on)"}[fault], "fault_in_nested_tr": nested, "yield_intensity": intensity,
		"scenario": "A: ctxA, relA := Acquire(base); TemporarilyRelease(ctxA, f) where f raises the fault; A carries on in its critical section; n-1 others hold; B: Acquire(base); A releases only after B had its chance"}
	var wg sync.WaitGroup
	aHolds := make(chan struct{})
	aBack := make(chan struct{})
	relA := make(chan struct{})
	relAll := make(chan struct{})
	aa := e.newActor()
	wg.Add(1)
	go func() {
		defer wg.Done()
		h := e.acquire(aa, e.base, ctxNormal, nil)
		close(aHolds)
		defer func() {
			// reached after the recovered panic as well as while Goexit unwinds
			close(aBack)
			<-relA
			e.release(aa, h)
		}()
		if nested {
			e.tr(aa, h, func() { e.trFault(aa, h, func() {}, fault) })
		} else {
			e.trFault(aa, h, func() {}, fault)
		}
	}()
	fail := func(o vlib.Outcome, what string) {
		e.hang(run, i, o, what, desc)
		run.Case("fault hang", false)
	}
	if o := e.await(aHolds); o != vlib.Reached {
		fail(o, "first Acquire")
		return
	}
	var held int32
	othersHold := make(chan struct{})
	if n == 1 {
		close(othersHold)
	}
	for c := 0; c < n-1; c++ {
		oa := e.newActor()
		wg.Add(1)
		go func() {
			defer wg.Done()
			h := e.acquire(oa, e.base, ctxNormal, nil)
			if int(atomic.AddInt32(&held, 1)) == n-1 {
				close(othersHold)
			}
			<-relAll
			e.release(oa, h)
		}()
	}
	if o := e.await(aBack); o != vlib.Reached {
		fail(o, "TemporarilyRelease with a faulting f")
		return
	}
	if o := e.await(othersHold); o != vlib.Reached {
		fail(o, "Acquire of the n-1 other holders")
		return
	}
	bGot := make(chan struct{})
	ab := e.newActor()
	wg.Add(1)
	go func() {
		defer wg.Done()
		h := e.acquire(ab, e.base, ctxNormal, nil)
		close(bGot)
		<-relAll
		e.release(ab, h)
	}()
	for c := 0; c < 40; c++ {
		select {
		case <-bGot:
			c = 40
		default:
			gosched(1)
		}
	}
	close(relA)
	if o := e.await(bGot); o != vlib.Reached {
		fail(o, "Acquire after A released")
		return
	}
	close(relAll)
	done := make(chan struct{})
	go func() { wg.Wait(); close(done) }()
	if o := e.await(done); o != vlib.Reached {
		fail(o, "final releases")
		return
	}
	if !e.epilogue(run, i, desc) {
		run.Case("fault hang", false)
		return
	}
	ov := e.verdict(run, i, desc)
	evs := e.merged()
	sh, _, feats := e.shape(evs, ov)
	run.Case(fmt.Sprintf("fault=%d nested=%v %s", fault, nested, sh), true)
	run.Count("fault_in_f_cases", 1)
	for f, c := range feats {
		run.Count("observed:"+f, c)
	}
	e.mu.Lock()
	for f, c := range e.feat {
		run.Count(f, c)
	}
	e.mu.Unlock()
	if n <= 2 {
		porcupineCheck(run, i, e, evs, 24)
	}
}

// limiterScenario: nested limiters. P acquires on the outer limiter (size n1);
// a second limiter of size m is attached with With on P's RETURNED context
// (which carries P's holder); m goroutines Acquire on that inner context and
// must get in even when the outer limiter is full (the inner one is idle); an
// (m+1)-th must wait for an inner release even when the outer limiter has
// room. Variants: outer limiter filled or not, P released before the inner
// Acquires (stale holder on the context) or still holding.
func limiterScenario(run *vlib.Run, i, k int, agg *vlib.HitAgg) {
	n1 := 1 + k%3
	m := 1 + (k/3)%3
	outerFull := (k/9)%2 == 1
	stale := (k/18)%2 == 1
	intensity := []int{0, 25}[(k/36)%2]
	e := newEnv(n1)
	y := vlib.NewYielder(run.Seed()*32452843+int64(i), intensity)
	e.y = y
	y.Install()
	defer vlib.Uninstall()
	defer agg.Add(y)
	desc := map[string]interface{}{"kind": "nested-limiters", "outer_size": n1, "inner_size": m, "outer_filled": outerFull, "parent_released_before_inner_acquires": stale, "yield_intensity": intensity,
		"scenario": "base := With(bg, n1); ctxP, relP := Acquire(base); inner := With(ctxP, m); [relP()]; [fill the outer limiter]; m goroutines Acquire(inner) must all get in; an (m+1)-th only after one of them released"}
	pa := e.newActor()
	P := e.acquire(pa, e.base, ctxNormal, nil)
	inner := concurrencylimiter.With(P.ctx, m)
	lim := e.newLimiter(m)
	if stale {
		e.release(pa, P)
	}
	fail := func(o vlib.Outcome, what string) {
		e.hang(run, i, o, what, desc)
		run.Case("limiters hang", false)
	}
	var wg sync.WaitGroup
	relOuter := make(chan struct{})
	if outerFull {
		fill := n1 - 1
		if stale {
			fill = n1
		}
		var cnt int32
		full := make(chan struct{})
		if fill == 0 {
			close(full)
		}
		for c := 0; c < fill; c++ {
			oa := e.newActor()
			wg.Add(1)
			go func() {
				defer wg.Done()
				h := e.acquire(oa, e.base, ctxNormal, nil)
				if int(atomic.AddInt32(&cnt, 1)) == fill {
					close(full)
				}
				<-relOuter
				e.release(oa, h)
			}()
		}
		if o := e.await(full); o != vlib.Reached {
			fail(o, "filling the outer limiter")
			return
		}
	}
	// m inner holders
	relInner := make([]chan struct{}, m)
	var got int32
	allIn := make(chan struct{})
	for c := 0; c < m; c++ {
		relInner[c] = make(chan struct{})
		ia := e.newActor()
		wg.Add(1)
		go func(c int) {
			defer wg.Done()
			h := e.acquireLim(ia, inner, ctxNormal, nil, lim)
			if int(atomic.AddInt32(&got, 1)) == m {
				close(allIn)
			}
			<-relInner[c]
			e.release(ia, h)
		}(c)
	}
	if o := e.await(allIn); o != vlib.Reached {
		fail(o, fmt.Sprintf("Acquire of %d goroutines on the idle inner limiter of size %d (outer limiter of size %d %s)", m, m, n1, map[bool]string{true: "is full", false: "has room"}[outerFull]))
		return
	}
	extra := make(chan struct{})
	relExtra := make(chan struct{})
	xa := e.newActor()
	wg.Add(1)
	go func() {
		defer wg.Done()
		h := e.acquireLim(xa, inner, ctxNormal, nil, lim)
		close(extra)
		<-relExtra
		e.release(xa, h)
	}()
	for c := 0; c < 40; c++ {
		select {
		case <-extra:
			c = 40
		default:
			gosched(1)
		}
	}
	close(relInner[0])
	if o := e.await(extra); o != vlib.Reached {
		fail(o, "(m+1)-th Acquire on the inner limiter after one inner holder released")
		return
	}
	for c := 1; c < m; c++ {
		close(relInner[c])
	}
	close(relExtra)
	close(relOuter)
	if !stale {
		e.release(pa, P)
	}
	done := make(chan struct{})
	go func() { wg.Wait(); close(done) }()
	if o := e.await(done); o != vlib.Reached {
		fail(o, "final releases")
		return
	}
	// the inner limiter has its full capacity again
	again := make(chan struct{})
	ga := e.newActor()
	go func() {
		var hs []*holder
		for c := 0; c < m; c++ {
			hs = append(hs, e.acquireLim(ga, inner, ctxNormal, nil, lim))
		}
		for _, h := range hs {
			e.release(ga, h)
		}
		close(again)
	}()
	if o := e.await(again); o != vlib.Reached {
		fail(o, "m fresh Acquires on the inner limiter after all its holders released")
		return
	}
	if !e.epilogue(run, i, desc) {
		run.Case("limiters hang", false)
		return
	}
	ov := e.verdict(run, i, desc)
	evs := e.merged()
	sh, _, feats := e.shape(evs, ov)
	run.Case(fmt.Sprintf("limiters n1=%d m=%d full=%v stale=%v %s", n1, m, outerFull, stale, sh), true)
	run.Count("nested_limiter_cases", 1)
	for f, c := range feats {
		run.Count("observed:"+f, c)
	}
	e.mu.Lock()
	for f, c := range e.feat {
		run.Count(f, c)
	}
	e.mu.Unlock()
}

// sharedScenario: two goroutines share one holder's context and are inside
// TemporarilyRelease with overlapping lifetimes. The owner O enters first; the
// helper S enters while O is inside its f (so S finds the holder blocked and
// gives nothing up) and stays; O leaves first and is then outside
// TemporarilyRelease, between Acquire and release: with the n-1 others
// holding, B's Acquire must wait for O's release (tick order). Only the
// owner's own TemporarilyRelease spans are subtracted from its holding span.
func sharedScenario(run *vlib.Run, i, k int, agg *vlib.HitAgg) {
	n := 1 + k%3
	helpers := 1 + (k/3)%2
	intensity := []int{0, 25}[(k/6)%2]
	e := newEnv(n)
	y := vlib.NewYielder(run.Seed()*49979687+int64(i), intensity)
	e.y = y
	y.Install()
	defer vlib.Uninstall()
	defer agg.Add(y)
	desc := map[string]interface{}{"kind": "shared-holder-overlapping-tr", "helpers": helpers, "yield_intensity": intensity,
		"scenario": "O: ctxO, relO := Acquire(base); n-1 others hold; O: TemporarilyRelease(ctxO, f) where f starts helper goroutine(s) S: TemporarilyRelease(ctxO, g) and returns once S is inside g; S stays inside g; B: Acquire(base) must wait for relO()"}
	var wg sync.WaitGroup
	fail := func(o vlib.Outcome, what string) {
		e.hang(run, i, o, what, desc)
		run.Case("shared hang", false)
	}
	oa := e.newActor()
	O := e.acquire(oa, e.base, ctxNormal, nil)
	var held int32
	othersHold := make(chan struct{})
	relAll := make(chan struct{})
	if n == 1 {
		close(othersHold)
	}
	for c := 0; c < n-1; c++ {
		a := e.newActor()
		wg.Add(1)
		go func() {
			defer wg.Done()
			h := e.acquire(a, e.base, ctxNormal, nil)
			if int(atomic.AddInt32(&held, 1)) == n-1 {
				close(othersHold)
			}
			<-relAll
			e.release(a, h)
		}()
	}
	if o := e.await(othersHold); o != vlib.Reached {
		fail(o, "Acquire of the n-1 other holders")
		return
	}
	sGo := make(chan struct{})
	oBack := make(chan struct{})
	relO := make(chan struct{})
	wg.Add(1)
	go func() {
		defer wg.Done()
		e.tr(oa, O, func() {
			for c := 0; c < helpers; c++ {
				sa := e.newActor()
				in := make(chan struct{})
				wg.Add(1)
				go func() {
					defer wg.Done()
					e.trNoHolder(sa, O.ctx, func() { close(in); <-sGo })
				}()
				<-in
			}
		})
		close(oBack)
		<-relO
		e.release(oa, O)
	}()
	if o := e.await(oBack); o != vlib.Reached {
		fail(o, "owner returning from TemporarilyRelease while a second goroutine is still inside TemporarilyRelease on the same holder")
		return
	}
	bGot := make(chan struct{})
	ab := e.newActor()
	wg.Add(1)
	go func() {
		defer wg.Done()
		h := e.acquire(ab, e.base, ctxNormal, nil)
		close(bGot)
		<-relAll
		e.release(ab, h)
	}()
	for c := 0; c < 40; c++ {
		select {
		case <-bGot:
			c = 40
		default:
			gosched(1)
		}
	}
	close(relO)
	if o := e.await(bGot); o != vlib.Reached {
		fail(o, "Acquire after the owner released")
		return
	}
	close(sGo)
	close(relAll)
	done := make(chan struct{})
	go func() { wg.Wait(); close(done) }()
	if o := e.await(done); o != vlib.Reached {
		fail(o, "helpers returning from TemporarilyRelease / final releases")
		return
	}
	if !e.epilogue(run, i, desc) {
		run.Case("shared hang", false)
		return
	}
	ov := e.verdict(run, i, desc)
	evs := e.merged()
	sh, _, feats := e.shape(evs, ov)
	run.Case(fmt.Sprintf("shared helpers=%d %s", helpers, sh), true)
	run.Count("shared_holder_cases", 1)
	for f, c := range feats {
		run.Count("observed:"+f, c)
	}
	e.mu.Lock()
	for f, c := range e.feat {
		run.Count(f, c)
	}
	e.mu.Unlock()
}

// batchWaiterScenario combines the limiter with batch.Func: W holds a token
// (acquired on its own cancellable context) and calls Func.Invoke, becoming a
// WAITER of a group created by C (MaxSize 2, timers far away, so W's arrival
// triggers the batch); C's Many parks on a gate; W's context is cancelled
// while the batch is running. The whole Invoke call is treated as a possible
// TemporarilyRelease span of W (conservative); once Invoke has returned W is
// between Acquire and release again. The n-1 others hold; B acquires after the
// cancellation: it may take the slot W gave up only while W is still inside
// Invoke.
func batchWaiterScenario(run *vlib.Run, i, k int, agg *vlib.HitAgg) {
	n := 1 + k%3
	intensity := []int{0, 25}[(k/3)%2]
	limiterFirst := (k/6)%2 == 1
	e := newEnv(n)
	y := vlib.NewYielder(run.Seed()*67867967+int64(i), intensity)
	e.y = y
	y.Install()
	defer vlib.Uninstall()
	defer agg.Add(y)
	desc := map[string]interface{}{"kind": "batch-waiter-cancelled", "yield_intensity": intensity, "limiter_attached_before_batching": limiterFirst,
		"scenario": "n-1 others hold; C: f.Invoke(bctx, c) creates the group (MaxSize 2); W: wctx, relW := Acquire(WithCancel(bctx)); f.Invoke(wctx, w) joins, Many runs and parks; cancel W's context; B: Acquire; Many is let go; W releases after B had its chance"}
	var bctx context.Context
	if limiterFirst {
		bctx = batch.WithBatching(e.base)
	} else {
		// batching attached first, the limiter on top of it
		e.base = concurrencylimiter.With(batch.WithBatching(context.Background()), n)
		bctx = e.base
	}
	manyIn := make(chan struct{})
	gate := make(chan struct{})
	var once sync.Once
	f := &batch.Func{MaxSize: 2, WaitInterval: time.Hour, MaxDuration: time.Hour,
		Many: func(ctx context.Context, args []interface{}) ([]interface{}, error) {
			once.Do(func() { close(manyIn) })
			<-gate
			return append([]interface{}(nil), args...), nil
		}}
	var wg sync.WaitGroup
	fail := func(o vlib.Outcome, what string) {
		e.hang(run, i, o, what, desc)
		run.Case("batchwaiter hang", false)
	}
	var held int32
	othersHold := make(chan struct{})
	relAll := make(chan struct{})
	if n == 1 {
		close(othersHold)
	}
	for c := 0; c < n-1; c++ {
		a := e.newActor()
		wg.Add(1)
		go func() {
			defer wg.Done()
			h := e.acquire(a, e.base, ctxNormal, nil)
			if int(atomic.AddInt32(&held, 1)) == n-1 {
				close(othersHold)
			}
			<-relAll
			e.release(a, h)
		}()
	}
	if o := e.await(othersHold); o != vlib.Reached {
		fail(o, "Acquire of the n-1 other holders")
		return
	}
	// C creates the group
	wg.Add(1)
	go func() {
		defer wg.Done()
		_, _ = f.Invoke(bctx, "c")
	}()
	if o := vlib.WaitCond(func() bool { return y.Hits()["batch.invoke.registered"] >= 1 }, e.activity, 2*time.Second, 30*time.Second); o != vlib.Reached {
		if o == vlib.QuiescentNot {
			run.Inconclusive(fmt.Sprintf("case %d: hook batch.invoke.registered never visited", i))
			run.Case("batchwaiter hang", false)
		} else {
			fail(o, "creator registering its batch group")
		}
		close(gate)
		return
	}
	// W: token holder on an own cancellable context, becomes a waiter
	wa := e.newActor()
	cctx, cancel := context.WithCancel(bctx)
	defer cancel()
	ct := new(int64)
	*ct = inf
	W := e.acquireLim(wa, cctx, ctxCancelDuring, ct, 0)
	wBack := make(chan struct{})
	relW := make(chan struct{})
	wg.Add(1)
	go func() {
		defer wg.Done()
		t0 := wa.ev(e, W.id, evTRCall, 0)
		W.mu.Lock()
		idx := len(W.trs)
		W.trs = append(W.trs, [2]int64{t0, inf})
		W.mu.Unlock()
		_, _ = f.Invoke(W.ctx, "w")
		t1 := wa.ev(e, W.id, evTRRet, 0)
		W.mu.Lock()
		W.trs[idx][1] = t1
		W.mu.Unlock()
		close(wBack)
		<-relW
		e.release(wa, W)
	}()
	if o := e.await(manyIn); o != vlib.Reached {
		fail(o, "batch triggered by the waiter's arrival (MaxSize reached)")
		close(gate)
		return
	}
	ca := e.newActor()
	atomic.StoreInt64(ct, ca.ev(e, -1, evCancel, 0))
	cancel()
	for c := 0; c < 60; c++ {
		select {
		case <-wBack:
			c = 60
		default:
			gosched(1)
		}
	}
	bGot := make(chan struct{})
	relB := make(chan struct{})
	ab := e.newActor()
	wg.Add(1)
	go func() {
		defer wg.Done()
		h := e.acquire(ab, e.base, ctxNormal, nil)
		close(bGot)
		<-relB
		e.release(ab, h)
	}()
	// B gets in while W is inside Invoke (its slot is given up), or - if W is
	// already back and holding - only after W released; give it its chance
	for c := 0; c < 60; c++ {
		select {
		case <-bGot:
			c = 60
		default:
			gosched(1)
		}
	}
	select {
	case <-wBack:
		// W came back before the batch finished: it releases now (tick order decides)
		close(relW)
		relW = nil
	default:
	}
	if o := e.await(bGot); o != vlib.Reached {
		fail(o, "Acquire while the cancelled waiter is inside Invoke or after it released")
		close(gate)
		return
	}
	close(relB)
	close(gate)
	if o := e.await(wBack); o != vlib.Reached {
		fail(o, "Invoke of the cancelled waiter after the batch finished")
		return
	}
	if relW != nil {
		close(relW)
	}
	close(relAll)
	done := make(chan struct{})
	go func() { wg.Wait(); close(done) }()
	if o := e.await(done); o != vlib.Reached {
		fail(o, "final releases")
		return
	}
	if !e.epilogue(run, i, desc) {
		run.Case("batchwaiter hang", false)
		return
	}
	ov := e.verdict(run, i, desc)
	evs := e.merged()
	sh, _, feats := e.shape(evs, ov)
	run.Case(fmt.Sprintf("batchwaiter %s", sh), true)
	run.Count("batch_waiter_cases", 1)
	for f, c := range feats {
		run.Count("observed:"+f, c)
	}
	e.mu.Lock()
	for f, c := range e.feat {
		run.Count(f, c)
	}
	e.mu.Unlock()
}

// ---------------------------------------------------------------- porcupine

type semIn struct {
	Op string // acquire release trBegin trEnd
	H  int
}

// semaphore model state: one byte per holder: 0 none, 1 held, 2 inside
// TemporarilyRelease, 3 released.
func semModel(n int) porcupine.Model {
	held := func(s string) int {
		c := 0
		for k := 0; k < len(s); k++ {
			if s[k] == 1 {
				c++
			}
		}
		return c
	}
	set := func(s string, h int, v byte) string {
		b := []byte(s)
		b[h] = v
		return string(b)
	}
	return porcupine.Model{
		Init: func() interface{} { return string(make([]byte, 16)) },
		Step: func(state, input, output interface{}) (bool, interface{}) {
			s := state.(string)
			in := input.(semIn)
			switch in.Op {
			case "acquire":
				if s[in.H] != 0 || held(s) >= n {
					return false, s
				}
				return true, set(s, in.H, 1)
			case "release":
				if s[in.H] == 0 {
					return false, s
				}
				return true, set(s, in.H, 3)
			case "trBegin":
				if s[in.H] == 1 {
					return true, set(s, in.H, 2)
				}
				return true, s
			case "trEnd":
				if s[in.H] == 2 {
					if held(s) >= n {
						return false, s
					}
					return true, set(s, in.H, 1)
				}
				return true, s
			}
			return false, s
		},
		Equal: func(a, b interface{}) bool { return a.(string) == b.(string) },
		DescribeOperation: func(in, out interface{}) string {
			x := in.(semIn)
			return fmt.Sprintf("%s(h%d)", x.Op, x.H)
		},
	}
}

// history turns the event log into porcupine operations (outermost
// TemporarilyRelease only; it splits into trBegin = [before TR, f started] and
// trEnd = [f returned, TR returned]).
func history(evs []event, normal map[int]bool) []porcupine.Operation {
	var ops []porcupine.Operation
	open := map[[3]int]int64{}
	for _, ev := range evs {
		if ev.H < 0 || ev.D != 0 || !normal[ev.H] {
			continue
		}
		k := [3]int{ev.G, ev.H, 0}
		switch ev.K {
		case evAcqCall:
			open[k] = ev.T
		case evAcqRet:
			ops = append(ops, porcupine.Operation{ClientId: ev.G, Input: semIn{"acquire", ev.H}, Call: open[k], Return: ev.T})
		case evRelCall:
			k[2] = 1
			open[k] = ev.T
		case evRelRet:
			k[2] = 1
			ops = append(ops, porcupine.Operation{ClientId: ev.G, Input: semIn{"release", ev.H}, Call: open[k], Return: ev.T})
		case evTRCall:
			k[2] = 2
			open[k] = ev.T
		case evFStart:
			k[2] = 2
			ops = append(ops, porcupine.Operation{ClientId: ev.G, Input: semIn{"trBegin", ev.H}, Call: open[k], Return: ev.T})
		case evFEnd:
			k[2] = 3
			open[k] = ev.T
		case evTRRet, evTRUnwound:
			k[2] = 3
			ops = append(ops, porcupine.Operation{ClientId: ev.G, Input: semIn{"trEnd", ev.H}, Call: open[k], Return: ev.T})
		}
	}
	return ops
}

// porcupineScenario cross-checks a short history against the counting
// semaphore model.
func porcupineScenario(run *vlib.Run, i int, agg *vlib.HitAgg) {
	e, ok := randomScenario(run, i, agg, true)
	if !ok {
		return
	}
	porcupineCheck(run, i, e, e.merged(), 12+2*e.n+2)
}

// porcupineCheck feeds the history of a finished scenario (scripted part plus
// the 2n+2 operations of the capacity check) to porcupine.
func porcupineCheck(run *vlib.Run, i int, e *env, evs []event, maxOps int) {
	normal := map[int]bool{}
	e.mu.Lock()
	for _, h := range e.holders {
		if h.kind == ctxNormal && h.lim == 0 {
			normal[h.id] = true
		}
	}
	e.mu.Unlock()
	ops := history(evs, normal)
	if len(ops) > maxOps {
		run.Count("porcupine:skipped_long", 1)
		return
	}
	res := porcupine.CheckOperationsTimeout(semModel(e.n), ops, 5*time.Second)
	switch res {
	case porcupine.Ok:
		run.Count("porcupine:linearizable", 1)
	case porcupine.Unknown:
		run.Count("porcupine:timeout", 1)
		run.Inconclusive(fmt.Sprintf("case %d: porcupine timed out on a %d-operation history", i, len(ops)))
	case porcupine.Illegal:
		run.Count("porcupine:illegal", 1)
		class := ""
		if wh, _ := windowRelease(evs, inf); wh >= 0 {
			class = classTokenSteal
		}
		var h []string
		for _, ev := range evs {
			h = append(h, ev.String())
		}
		run.Violation(i, class, map[string]interface{}{
			"what":     "history is not linearizable with respect to a counting semaphore of size n (acquire needs a free token; release frees it once; TemporarilyRelease frees it and re-takes it before returning unless released meanwhile)",
			"n":        e.n,
			"history":  h,
			"expected": "linearizable",
		})
	}
}

// -------------------------------------------------------------------- check

func TestCheck(t *testing.T) {
	run := vlib.Start(t, "C20", "exploration")
	defer run.Finish()
	run.Rule("three seeded families on the real limiter: (1) targeted: n in 1..4, H1 inside TemporarilyRelease, n others hold, a foreign release of H1 is injected at hook limiter.block.reacquiring and an extra Acquire is issued (with/without an Acquire already parked, with/without random yields); " +
		"(1b) nested Acquire: n in 2..4, parent P holds and keeps running, 1..2 child goroutines Acquire on P's returned context and wait inside (nested) TemporarilyRelease, n others Acquire, P releases only after n-1 of them hold; " +
		"(1c) fault inside f: n in 1..3, A acquires and calls TemporarilyRelease (optionally nested) with an f that panics (recovered) or calls runtime.Goexit (deferred function carries on), A stays in its critical section, n-1 others hold, B's Acquire must wait for A's release; " +
		"(1d) nested limiters: outer size 1..3, inner size 1..3 attached with With on the context returned by an Acquire on the outer one, outer filled or not, parent released first or not: the idle inner limiter admits its m, the (m+1)-th waits for an inner release, every limiter is checked against its own bound; " +
		"(1e) shared holder: the owner and 1..2 helper goroutines are inside TemporarilyRelease on one holder's context with overlapping lifetimes (owner enters first, leaves first), n-1 others hold, B's Acquire must wait for the owner's release; " +
		"(1f) batch waiter: a token holder on its own cancellable context becomes a waiter of a batch.Func group whose Many is parked, its context is cancelled meanwhile, a further Acquire arrives; the Invoke call counts as a possible TemporarilyRelease span, afterwards the caller is holding again; " +
		"(2) random: n in 1..4, 2..24 goroutines, each 1..3 Acquire segments on a limiter / pre-cancelled / limiter-less / concurrently-cancelled context with bodies of nested TemporarilyRelease (depth<=3, one in five with an f that panics and is recovered), early and double release, holders released exactly once by another goroutine (the owner adds no call once one has begun), release inside own TemporarilyRelease, release of other goroutines' holders (also aimed at a returning TemporarilyRelease), child goroutines that Acquire on the running parent's returned context and mostly wait inside TemporarilyRelease, a second limiter (size 1..2) attached on a holder's returned context with size+1 goroutines acquiring on it, TemporarilyRelease without holder, random hook yields and an optional injected release at a limiter hook; every scenario ends with the capacity check (n fresh Acquires, Acquire on cancelled / limiter-less contexts while all tokens are held, again on a pre-cancelled and on a cancelled-while-waiting context with a live goroutine parked in Acquire, (n+1)-th Acquire only after a release); " +
		"(3) the targeted histories with n<=2 and short random histories (<=12 scripted operations plus the capacity check, n in 1..2, 2..4 goroutines) additionally checked with porcupine against a counting-semaphore model. " +
		"Non-trivial = the limit was reached in the scripted part (observed overlap == n before the capacity check) and some holder had a TemporarilyRelease plus a foreign release or a release inside it; distinct = n, max overlap and the multiset of per-holder lifecycles (outermost TR enter/return, own/foreign release and whether it fell outside TR, inside f, or in the re-acquire window).")
	run.Assume("holding spans are bracketed by ticks of one atomic counter taken after Acquire returned / before release is called / before TemporarilyRelease is entered / after it returned, so the monitor can only under-count")
	run.Assume("a holder stops counting as holding at the tick taken before the first call of its release func by any goroutine; holders acquired on a context that was cancelled (or being cancelled) when Acquire returned are not counted")
	run.Assume("hook points limiter.block.reacquiring / limiter.release.swapped / limiter.block.blocked sit between the status CAS and the channel operation (hit counts reported)")

	agg := vlib.NewHitAgg()
	nT := run.N(240, 4000)
	nN := run.N(120, 3000)
	nF := run.N(96, 2400)
	nL := run.N(144, 2880)
	nS := run.N(72, 1440)
	nB := run.N(72, 1440)
	nR := run.N(20000, 1600000)
	nP := run.N(1500, 100000)
	run.Each(nT+nN+nF+nL+nS+nB+nR+nP, 1, func(i int) {
		if run.Violations() >= 6 {
			// enough unclassified witnesses; hung scenarios leave parked goroutines
			// behind and cost seconds each, so stop early
			run.Count("skipped_after_violations", 1)
			return
		}
		fmt.Println("CASE", i)
		switch {
		case i < nT:
			targetedScenario(run, i, agg)
		case i < nT+nN:
			nestedScenario(run, i, i-nT, agg)
		case i < nT+nN+nF:
			faultScenario(run, i, i-nT-nN, agg)
		case i < nT+nN+nF+nL:
			limiterScenario(run, i, i-nT-nN-nF, agg)
		case i < nT+nN+nF+nL+nS:
			sharedScenario(run, i, i-nT-nN-nF-nL, agg)
		case i < nT+nN+nF+nL+nS+nB:
			batchWaiterScenario(run, i, i-nT-nN-nF-nL-nS, agg)
		case i < nT+nN+nF+nL+nS+nB+nR:
			randomScenario(run, i, agg, false)
		default:
			porcupineScenario(run, i, agg)
		}
	})
	agg.Report(run)
}

var _ = concurrencylimiter.Acquire
