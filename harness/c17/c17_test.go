//go:build verif

// Package c17 monitors property C17 (connection lifecycle): every accepted
// subscription ends exactly once (one logger Unsubscribe per Subscribe), and
// after it ended - and after the connection closed - none of its resolvers
// run, nothing is written for it, its reactive resources are released; the
// subscription limit and the duplicate-id rule hold for every message order.
package c17

import (
	"fmt"
	"io"
	"log"
	"math/rand"
	"os"
	"sort"
	"strings"
	"testing"
	"time"

	"github.com/samsarahq/thunder/verifharness/vlib"
	"github.com/samsarahq/thunder/verifharness/wsclient"
)

// Classifier keys of the genuine defects this monitor found (see FINDINGS.md).
const (
	classCloseNoLog = "close-no-unsubscribe-log"
	classOrphan     = "mutate-id-collision-orphan"
	classStaleClose = "stale-async-close"
)

type liveSub struct {
	tag   string
	cells []string
}

type history struct {
	Cfg   wsclient.Config `json:"cfg"`
	Steps []wsclient.Step `json:"steps"`
	Name  string          `json:"name,omitempty"`
	// features of the history (for the non-triviality rule)
	EndByClose, Collision, Failure bool
	// Pressure names the limit-pressure burst spliced into the history ("" = none)
	Pressure string `json:"pressure,omitempty"`
}

func pause(r *rand.Rand) int {
	switch x := r.Intn(20); {
	case x < 11:
		return 0
	case x < 17:
		return 30 + r.Intn(500)
	default:
		return 1000 + r.Intn(2500)
	}
}

var malformed = []string{
	`{"id":"%s","type":"bogus"}`,
	`{"id":"%s","type":"subscribe","message":5}`,
	`{"id":"%s","type":"subscribe","message":{"query":"{ nosuchfield }"}}`,
	`{"id":"%s","type":"subscribe","message":{"query":"{{{"}}`,
	`{"id":"%s","type":"subscribe"}`,
	`{"id":"%s","type":"mutate","message":"x"}`,
	`{"id":"%s","type":"mutate","message":{"query":"mutation { nosuch }"}}`,
	`{"id":"%s","type":"mutate","message":{"query":"{ root(tag: \"x\") { n } }"}}`,
	`{"id":"%s","type":"url","message":7}`,
	`{"id":"%s","type":"unsubscribe","message":{"x":[1,2]}}`,
	`{"id":"%s"}`,
	`{"id":"%s","type":"echo","message":{"deep":{"er":[null]}},"extensions":{"a":1}}`,
}

// frames that make ReadJSON itself fail (the connection ends)
var undecodable = []string{`not json`, `{"id":7,"type":"echo"}`, `[1,2]`, `{"id":"a","type":`}

func genHistory(r *rand.Rand, g *wsclient.Gen, seed int64) *history {
	h := &history{}
	h.Cfg = wsclient.Config{
		Seed:           seed,
		MaxSubs:        2 + r.Intn(3),
		MinRerunUS:     []int{200, 1000, 1000, 2000}[r.Intn(4)],
		AlwaysSpawn:    r.Intn(3) == 0,
		YieldIntensity: []int{0, 10, 30, 60}[r.Intn(4)],
		DefMode:        r.Intn(3),
		Modes:          map[string]int{},
	}
	if r.Intn(5) < 3 {
		h.Cfg.WriteThenReadUS = 500 + r.Intn(2500)
	}
	// middlewares: counts that leave spare capacity in the slice conn.Use
	// builds (3, 5-7, 9) and counts that do not (0, 1); some pause so that
	// computations of different subscriptions / mutations overlap inside
	// the chain
	for k := []int{0, 1, 3, 3, 5, 6, 7, 9}[r.Intn(8)]; k > 0; k-- {
		m := wsclient.MwSpec{}
		if r.Intn(3) == 0 {
			m.PreUS = 20 + r.Intn(300)
		}
		if r.Intn(5) == 0 {
			m.PostUS = 20 + r.Intn(150)
		}
		h.Cfg.Middlewares = append(h.Cfg.Middlewares, m)
	}
	for _, c := range []string{"n", "s", "obj", "items", "plain", "nums", "ku", "pu", "slow", "exp", "boom", "r"} {
		if r.Intn(3) == 0 {
			h.Cfg.Modes[c] = r.Intn(3)
		}
	}
	pool := []string{"a", "b", "c"}
	live := map[string]*liveSub{} // the generator's guess; the oracle uses the log
	seq := 0
	pick := func() string { return pool[r.Intn(len(pool))] }
	prefer := func() []string {
		var ks []string
		for k := range live {
			ks = append(ks, k)
		}
		sort.Strings(ks)
		var cs []string
		for _, k := range ks {
			for _, c := range live[k].cells {
				if c != "boom" {
					cs = append(cs, c)
				}
			}
		}
		return cs
	}
	forceSlow := false
	newSub := func(id string, boom bool) wsclient.Step {
		seq++
		tag := fmt.Sprintf("t%d", seq)
		// a failing subscription fails in a plain resolver, inside the public
		// reactive.Cache after registering a resource (live-query pattern), or both
		opts := wsclient.QueryOpts{Slow: true, Res: true, SlowAlways: forceSlow}
		if boom {
			switch r.Intn(3) {
			case 0:
				opts.Boom = true
			case 1:
				opts.LQ = true
			default:
				opts.Boom, opts.LQ = true, true
			}
		} else if r.Intn(4) == 0 {
			opts.LQ = true
		}
		q, cells := g.GenQuery(tag, opts)
		if live[id] == nil && len(live) < h.Cfg.MaxSubs {
			live[id] = &liveSub{tag: tag, cells: cells}
		}
		return wsclient.Step{Kind: "sub", ID: id, Tag: tag, Query: q, Wait: r.Intn(3) == 0, PauseUS: pause(r)}
	}
	mutate := func(id string) wsclient.Step {
		st := wsclient.Step{Kind: "mutate", ID: id, Wait: r.Intn(3) == 0, PauseUS: pause(r)}
		switch r.Intn(8) {
		case 0:
			st.Query = "mutation { fail(safe: true) }"
			h.Failure = true
		case 1:
			st.Query = "mutation { fail(safe: false) }"
			h.Failure = true
		default:
			st.Op = g.NextOp(prefer())
		}
		if live[id] != nil {
			h.Collision = true
		}
		return st
	}
	boomSet := func(v int64) wsclient.Step {
		if v != 0 {
			h.Failure = true
		}
		return wsclient.Step{Kind: "write", Op: g.AddOp(wsclient.Op{Cell: "boom", Val: v}), PauseUS: pause(r)}
	}
	closed := false
	n := 10 + r.Intn(26)
	closeAt := -1
	if r.Intn(100) < 40 {
		closeAt = r.Intn(n)
	}
	cancelAt := -1
	if r.Intn(100) < 8 {
		cancelAt = r.Intn(n)
	}
	h.Steps = append(h.Steps, newSub(pick(), r.Intn(5) == 0))
	for len(h.Steps) < n && !closed {
		if len(h.Steps) == closeAt {
			h.Steps = append(h.Steps, wsclient.Step{Kind: "close", Wait: r.Intn(2) == 0})
			closed = true
			break
		}
		if len(h.Steps) == cancelAt {
			h.Steps = append(h.Steps, wsclient.Step{Kind: "cancel", PauseUS: pause(r)})
			cancelAt = -1
			continue
		}
		switch x := r.Intn(100); {
		case x < 16:
			id := pick()
			if r.Intn(6) == 0 {
				seq++
				id = fmt.Sprintf("x%d", seq)
			}
			if live[id] != nil {
				h.Collision = true
			}
			h.Steps = append(h.Steps, newSub(id, r.Intn(3) == 0))
		case x < 28:
			id := pick()
			if r.Intn(6) == 0 {
				seq++
				id = fmt.Sprintf("u%d", seq)
			}
			delete(live, id)
			h.Steps = append(h.Steps, wsclient.Step{Kind: "unsub", ID: id, Wait: r.Intn(3) == 0, PauseUS: pause(r)})
		case x < 40:
			id := pick()
			if r.Intn(3) != 0 {
				seq++
				id = fmt.Sprintf("m%d", seq)
			}
			h.Steps = append(h.Steps, mutate(id))
		case x < 44:
			h.Steps = append(h.Steps, wsclient.Step{Kind: "echo", ID: pick(), Wait: r.Intn(2) == 0, PauseUS: pause(r)})
		case x < 46:
			h.Steps = append(h.Steps, wsclient.Step{Kind: "url", ID: pick(), PauseUS: pause(r)})
		case x < 49: // an id shared by a slow mutation and a subscription: mutate X, unsubscribe X while it runs, subscribe X, end it
			id := pick()
			if live[id] != nil {
				delete(live, id)
				h.Steps = append(h.Steps, wsclient.Step{Kind: "unsub", ID: id, Wait: true})
			}
			h.Steps = append(h.Steps, wsclient.Step{Kind: "mutate", ID: id, Query: fmt.Sprintf("mutation { slowApply(op: %d, us: %d) }", g.NextOp(prefer()), 1500+r.Intn(3000)), PauseUS: 100 + r.Intn(600)})
			h.Steps = append(h.Steps, wsclient.Step{Kind: "unsub", ID: id, Wait: r.Intn(2) == 0})
			end := r.Intn(3)
			if end == 2 {
				h.Steps = append(h.Steps, boomSet(int64(1+r.Intn(wsclient.BoomShapes))))
			}
			st := newSub(id, end == 2)
			st.Wait = true
			h.Steps = append(h.Steps, st)
			h.Collision = true
			switch end {
			case 0:
				delete(live, id)
				h.Steps = append(h.Steps, wsclient.Step{Kind: "echo", ID: "e", Wait: true, PauseUS: 500 + r.Intn(2000)}, wsclient.Step{Kind: "unsub", ID: id, Wait: true, PauseUS: pause(r)})
			case 1:
				h.Steps = append(h.Steps, wsclient.Step{Kind: "echo", ID: "e", Wait: true, PauseUS: 500 + r.Intn(2000)}, wsclient.Step{Kind: "close", Wait: true})
				closed = true
			default: // it ends by its own initial failure
				delete(live, id)
				h.Steps = append(h.Steps, wsclient.Step{Kind: "sync", PauseUS: 1000 + r.Intn(2000)}, boomSet(0))
			}
		case x < 54:
			id := pick()
			if live[id] != nil {
				h.Collision = true
			}
			h.Steps = append(h.Steps, wsclient.Step{Kind: "raw", Raw: fmt.Sprintf(malformed[r.Intn(len(malformed))], id), Wait: r.Intn(3) == 0, PauseUS: pause(r)})
		case x < 55:
			h.Steps = append(h.Steps, wsclient.Step{Kind: "raw", Raw: undecodable[r.Intn(len(undecodable))]})
			h.EndByClose = true
			closed = true
		case x < 64:
			h.Steps = append(h.Steps, wsclient.Step{Kind: "write", Op: g.NextOp(prefer()), PauseUS: pause(r)})
		case x < 66 && x >= 64 && cancelAt < 0: // the connection context is cancelled while a RE-run is inside a context-honouring resolver
			id := pick()
			h.Steps = append(h.Steps, boomSet(0))
			if live[id] != nil {
				delete(live, id)
				h.Steps = append(h.Steps, wsclient.Step{Kind: "unsub", ID: id, Wait: true})
			}
			forceSlow = true
			st := newSub(id, false)
			forceSlow = false
			st.Wait, st.PauseUS = true, 0
			h.Steps = append(h.Steps, st, wsclient.Step{Kind: "idle"})
			h.Steps = append(h.Steps, wsclient.Step{Kind: "gate", Cell: "slow", Phase: r.Intn(2), Op: g.OpOn("slow"), Then: []wsclient.Step{{Kind: "cancel"}}, Hold: true, PauseUS: 1000 + r.Intn(2000)})
			h.Failure = true
			h.Steps = append(h.Steps, wsclient.Step{Kind: "close", Wait: true})
			closed = true
		case x < 68: // a subscription that ran successfully fails on a RE-run (retry with back-off), then ends
			id := pick()
			h.Steps = append(h.Steps, boomSet(0))
			if live[id] == nil {
				st := newSub(id, true)
				st.Wait, st.PauseUS = true, 0
				h.Steps = append(h.Steps, st)
			}
			h.Steps = append(h.Steps, wsclient.Step{Kind: "idle"})
			h.Steps = append(h.Steps, boomSet(int64(1+r.Intn(wsclient.BoomShapes)))) // invalidates the failing fields: the re-run fails
			h.Steps = append(h.Steps, wsclient.Step{Kind: "touch", PauseUS: 500 + r.Intn(3000)})
			switch r.Intn(3) {
			case 0: // ends while failing
				delete(live, id)
				h.Steps = append(h.Steps, wsclient.Step{Kind: "unsub", ID: id, Wait: true, PauseUS: pause(r)})
			case 1: // recovers, then ends
				h.Steps = append(h.Steps, boomSet(0), wsclient.Step{Kind: "idle"})
				delete(live, id)
				h.Steps = append(h.Steps, wsclient.Step{Kind: "unsub", ID: id, Wait: true, PauseUS: pause(r)})
			default: // the connection closes while it is failing
				h.Steps = append(h.Steps, wsclient.Step{Kind: "close", Wait: true})
				closed = true
			}
		case x < 71:
			h.Steps = append(h.Steps, wsclient.Step{Kind: "touch", PauseUS: pause(r)})
		case x < 77:
			h.Steps = append(h.Steps, boomSet([]int64{0, 1, 2, 3, 3, 4, 5}[r.Intn(7)]))
		case x < 80: // stale-close motif: failing subscribe, unsubscribe, re-subscribe, back to back
			id := pick()
			delete(live, id)
			h.Steps = append(h.Steps, boomSet(int64(1+r.Intn(wsclient.BoomShapes))))
			h.Steps = append(h.Steps, wsclient.Step{Kind: "unsub", ID: id, Wait: true})
			s1 := newSub(id, true)
			s1.Wait, s1.PauseUS = false, 0
			delete(live, id)
			s2 := newSub(id, false)
			s2.Wait, s2.PauseUS = false, 0
			h.Steps = append(h.Steps, s1, wsclient.Step{Kind: "unsub", ID: id}, s2, boomSet(0))
		case x < 81:
			h.Steps = append(h.Steps, wsclient.Step{Kind: "failwrite", N: 1 + r.Intn(3)})
			h.EndByClose = true
		case x < 89: // an unsubscribe / close arrives shortly after an invalidation of an idle, already-run subscription
			pf := prefer()
			if len(pf) == 0 {
				continue
			}
			d := h.Cfg.WriteThenReadUS
			if d == 0 {
				d = 400
			}
			gap := 40 + r.Intn(d)
			h.Steps = append(h.Steps, wsclient.Step{Kind: "idle"})
			h.Steps = append(h.Steps, wsclient.Step{Kind: "write", Op: g.OpOn(pf[r.Intn(len(pf))]), PauseUS: gap})
			if r.Intn(4) == 0 {
				h.Steps = append(h.Steps, wsclient.Step{Kind: "close", Wait: true})
				closed = true
			} else {
				var ks []string
				for k := range live {
					ks = append(ks, k)
				}
				sort.Strings(ks)
				for _, id := range ks { // unsubscribe everything that is live: one of them is the invalidated one
					delete(live, id)
					h.Steps = append(h.Steps, wsclient.Step{Kind: "unsub", ID: id})
				}
				h.Steps = append(h.Steps, wsclient.Step{Kind: "sync", PauseUS: 2 * d})
			}
		default: // something lands while a run is in flight
			pf := prefer()
			if len(pf) == 0 {
				continue
			}
			st := wsclient.Step{Kind: "gate", Phase: r.Intn(2), Op: g.OpOn(pf[r.Intn(len(pf))]), PauseUS: pause(r)}
			for k := r.Intn(3); k > 0; k-- {
				st.Landing = append(st.Landing, g.NextOp(pf))
			}
			switch r.Intn(8) {
			case 0, 1:
				id := pick()
				delete(live, id)
				st.Then = []wsclient.Step{{Kind: "unsub", ID: id}}
				if r.Intn(2) == 0 { // and re-subscribe at once
					st.Then = append(st.Then, newSub(id, false))
				}
				st.Hold = r.Intn(2) == 0
			case 2:
				st.Then = []wsclient.Step{{Kind: "close"}}
				st.Hold = r.Intn(2) == 0
				closed = true
			case 3:
				st.Then = []wsclient.Step{mutate(pick())}
			case 4:
				st.Then = []wsclient.Step{{Kind: "cancel"}}
				st.Hold = true
			case 5:
				st.Then = []wsclient.Step{newSub(pick(), false)}
			}
			h.Steps = append(h.Steps, st)
		}
	}
	if closed || closeAt >= 0 {
		h.EndByClose = true
	}
	for _, st := range h.Steps {
		if st.Kind == "cancel" {
			h.Failure = true
		}
		for _, t := range st.Then {
			if t.Kind == "cancel" {
				h.Failure = true
			}
		}
	}
	// some writes injected at hook points, and sometimes a pair
	// unsubscribe+subscribe played while a closeSubscription call is held at
	// its entry
	for k := r.Intn(3); k > 0; k-- {
		if r.Intn(3) == 0 {
			id := pick()
			seq++
			tag := fmt.Sprintf("t%d", seq)
			q, _ := g.GenQuery(tag, wsclient.QueryOpts{Res: true})
			h.Cfg.Injections = append(h.Cfg.Injections, wsclient.InjSpec{Point: "server.closeSubscription.enter", Visit: 1 + r.Intn(6), TimeoutMS: 20,
				Steps: []wsclient.Step{{Kind: "unsub", ID: id}, {Kind: "sub", ID: id, Tag: tag, Query: q}}})
			continue
		}
		pts := []string{"rerunner.run.computed", "rerunner.run.arming", "server.subscribe.diffed", "server.write.enter", "rerunner.stop.cancelled", "server.closeSubscriptions.enter", "rerunner.run.locked"}
		in := wsclient.InjSpec{Point: pts[r.Intn(len(pts))], Visit: 1 + r.Intn(10)}
		in.Steps = append(in.Steps, wsclient.Step{Kind: "write", Op: g.NextOp(prefer())})
		h.Cfg.Injections = append(h.Cfg.Injections, in)
	}
	return h
}

// endsConnection reports whether a top-level step may end the connection.
func endsConnection(st *wsclient.Step) bool {
	switch st.Kind {
	case "close", "failwrite":
		return true
	case "raw":
		for _, u := range undecodable {
			if st.Raw == u {
				return true
			}
		}
	case "gate":
		for i := range st.Then {
			if st.Then[i].Kind == "close" {
				return true
			}
		}
	}
	return false
}

// addLimitPressure widens a generated history with the dimension "the client
// keeps asking for more subscriptions than the limit leaves room for": at a
// random point before the step that ends the connection it splices in a burst
// of MaxSubs+1..MaxSubs+3 subscribes with fresh, distinct ids (pipelined,
// awaited one by one, or a mix), so that the limit is certainly reached and
// at least one subscribe must be refused whatever was live before. The burst
// is combined with the other events of the property's quantifier: the
// connection context is cancelled (the socket stays open) before a random
// subscribe of the burst; or some of the burst fail initially (their slots are
// freed asynchronously); afterwards nothing, or a random subset is
// unsubscribed and one more than that is subscribed again (exactly the freed
// room may be re-used), or all of the burst is unsubscribed. The oracle is
// unchanged: by the logger's account (Subscribe minus Unsubscribe) there are
// never more than MaxSubs live subscriptions, and a subscribe that arrives at
// the limit gets an error.
func addLimitPressure(r *rand.Rand, g *wsclient.Gen, h *history) {
	end := len(h.Steps)
	for i := range h.Steps {
		if endsConnection(&h.Steps[i]) {
			end = i
			break
		}
	}
	at := end
	if end > 1 {
		at = 1 + r.Intn(end)
	}
	seq := 0
	mode := r.Intn(3)
	var booms int64
	sub := func(boom bool) wsclient.Step {
		seq++
		id, tag := fmt.Sprintf("p%d", seq), fmt.Sprintf("tp%d", seq)
		q, _ := g.GenQuery(tag, wsclient.QueryOpts{Res: true, Boom: boom, LQ: boom && r.Intn(2) == 0})
		st := wsclient.Step{Kind: "sub", ID: id, Tag: tag, Query: q}
		switch mode {
		case 1:
			st.Wait = true
		case 2:
			st.Wait, st.PauseUS = r.Intn(2) == 0, pause(r)
		}
		return st
	}
	var ins []wsclient.Step
	k := h.Cfg.MaxSubs + 1 + r.Intn(3)
	cancelBefore := -1
	switch r.Intn(4) {
	case 0, 1:
		cancelBefore = r.Intn(k)
		h.Pressure = "cancel"
	case 2:
		booms = int64(1 + r.Intn(wsclient.BoomShapes))
		ins = append(ins, wsclient.Step{Kind: "write", Op: g.AddOp(wsclient.Op{Cell: "boom", Val: booms})})
		h.Pressure = "failing"
	default:
		h.Pressure = "plain"
	}
	for j := 0; j < k; j++ {
		if j == cancelBefore {
			ins = append(ins, wsclient.Step{Kind: "cancel", PauseUS: pause(r)})
		}
		ins = append(ins, sub(booms != 0 && r.Intn(2) == 0))
	}
	ins = append(ins, wsclient.Step{Kind: "sync", PauseUS: pause(r)})
	if booms != 0 {
		ins = append(ins, wsclient.Step{Kind: "write", Op: g.AddOp(wsclient.Op{Cell: "boom", Val: int64(0)}), PauseUS: pause(r)})
	}
	switch r.Intn(3) {
	case 1: // free a random subset, then ask for one more than was freed
		freed := 0
		for j := 1; j <= k; j++ {
			if r.Intn(2) == 0 {
				freed++
				ins = append(ins, wsclient.Step{Kind: "unsub", ID: fmt.Sprintf("p%d", j), Wait: mode == 1})
			}
		}
		for j := 0; j <= freed; j++ {
			ins = append(ins, sub(false))
		}
		ins = append(ins, wsclient.Step{Kind: "sync", PauseUS: pause(r)})
		h.Pressure += "+refill"
	case 2: // make room again for the rest of the history
		for j := 1; j <= k; j++ {
			ins = append(ins, wsclient.Step{Kind: "unsub", ID: fmt.Sprintf("p%d", j), Wait: mode == 1})
		}
		ins = append(ins, wsclient.Step{Kind: "sync", PauseUS: pause(r)})
		h.Pressure += "+release"
	}
	tail := append([]wsclient.Step(nil), h.Steps[at:]...)
	if cancelBefore >= 0 {
		h.Failure = true
		// pacing only: "idle" waits (bounded) for the first envelope of every
		// live subscription, which never comes once the context is cancelled
		for i := range tail {
			if tail[i].Kind == "idle" {
				tail[i].Kind = "pause"
			}
		}
	}
	if booms != 0 {
		h.Failure = true
	}
	h.Steps = append(append(h.Steps[:at:at], ins...), tail...)
}

// pinned histories: minimal reproducers of the known defects and of the rules.
func pinnedHistory(idx int, g *wsclient.Gen, seed int64) *history {
	cfg := wsclient.Config{Seed: seed, MaxSubs: 2, MinRerunUS: 1000, YieldIntensity: 0, DefMode: wsclient.ModeReplace}
	q := func(tag, fields string) string { return fmt.Sprintf("{ root(tag: %q) { %s } }", tag, fields) }
	switch idx {
	case 0: // close with a live subscription: closeSubscriptions must log Unsubscribe
		return &history{Name: "close-with-live-subscription", Cfg: cfg, EndByClose: true, Steps: []wsclient.Step{
			{Kind: "sub", ID: "a", Tag: "t1", Query: q("t1", "n res"), Wait: true},
			{Kind: "echo", ID: "e1", Wait: true, PauseUS: 3000},
			{Kind: "close", Wait: true},
		}}
	case 1: // mutate whose id equals a live subscription id
		op := g.AddOp(wsclient.Op{Cell: "n", Val: int64(1000)})
		op2 := g.AddOp(wsclient.Op{Cell: "n", Val: int64(1001)})
		return &history{Name: "mutate-id-equals-live-subscription", Cfg: cfg, Collision: true, EndByClose: true, Steps: []wsclient.Step{
			{Kind: "sub", ID: "a", Tag: "t1", Query: q("t1", "n res"), Wait: true},
			{Kind: "echo", ID: "e1", Wait: true, PauseUS: 3000},
			{Kind: "mutate", ID: "a", Op: op, Wait: true, PauseUS: 3000},
			{Kind: "unsub", ID: "a", Wait: true, PauseUS: 2000},
			{Kind: "write", Op: op2, PauseUS: 5000},
			{Kind: "close", Wait: true},
		}}
	case 2: // unsubscribe during an in-flight run, then re-subscribe the id while the run's own async close is held
		cfg.Injections = []wsclient.InjSpec{{Point: "server.closeSubscription.enter", Visit: 2, TimeoutMS: 100,
			Steps: []wsclient.Step{{Kind: "sub", ID: "a", Tag: "t2", Query: q("t2", "n res"), Wait: true}}}}
		op := g.AddOp(wsclient.Op{Cell: "slow", Val: int64(1000)})
		op2 := g.AddOp(wsclient.Op{Cell: "n", Val: int64(1000)})
		return &history{Name: "stale-async-close", Cfg: cfg, Collision: true, EndByClose: true, Steps: []wsclient.Step{
			{Kind: "sub", ID: "a", Tag: "t1", Query: q("t1", "slow(us: 100) exp res"), Wait: true},
			{Kind: "echo", ID: "e1", Wait: true, PauseUS: 3000},
			{Kind: "gate", Cell: "slow", Phase: 0, Op: op, Then: []wsclient.Step{{Kind: "unsub", ID: "a"}}, Hold: true, PauseUS: 5000},
			{Kind: "sync", PauseUS: 40000},
			{Kind: "write", Op: op2, PauseUS: 5000},
			{Kind: "close", Wait: true},
		}}
	case 3: // limit and duplicate rule, no defect expected
		return &history{Name: "limit-and-duplicate", Cfg: cfg, Collision: true, Steps: []wsclient.Step{
			{Kind: "sub", ID: "a", Tag: "t1", Query: q("t1", "n res"), Wait: true},
			{Kind: "sub", ID: "a", Tag: "t2", Query: q("t2", "s res"), Wait: true},
			{Kind: "sub", ID: "b", Tag: "t3", Query: q("t3", "s res"), Wait: true},
			{Kind: "sub", ID: "c", Tag: "t4", Query: q("t4", "nums res"), Wait: true},
			{Kind: "unsub", ID: "a", Wait: true},
			{Kind: "sub", ID: "c", Tag: "t5", Query: q("t5", "nums res"), Wait: true},
			{Kind: "unsub", ID: "b", Wait: true},
			{Kind: "unsub", ID: "c", Wait: true},
			{Kind: "sync"},
		}}
	case 4, 5, 6, 7: // stress: unsubscribe racing the wake-up of a (re-)run under flush contention, many times
		// (four of them so that the driver's shards run them in parallel)
		cfg.MaxSubs, cfg.MinRerunUS = 4, []int{200, 200, 100, 400}[idx-4]
		cfg.AlwaysSpawn = idx == 5 || idx == 7
		cfg.YieldIntensity = []int{0, 0, 10, 0}[idx-4]
		a := g.AddOp(wsclient.Op{Cell: "n", Val: int64(2000)})
		b := g.AddOp(wsclient.Op{Cell: "n", Val: int64(2001)})
		c := g.AddOp(wsclient.Op{Cell: "n", Val: int64(2002)})
		return &history{Name: "stop-vs-wakeup-storm", Cfg: cfg, EndByClose: true, Steps: []wsclient.Step{
			{Kind: "storm", N: stormRounds, Landing: []int{a, b, c}},
			{Kind: "close", Wait: true},
		}}
	}
	return nil
}

// stormRounds is set by TestCheck from the tier.
var stormRounds = 1600

const numPinned = 8

func TestCheck(t *testing.T) {
	log.SetOutput(io.Discard)
	run := vlib.Start(t, "C17", "exploration")
	defer run.Finish()
	run.Rule("histories over one websocket connection (scripted JSONSocket, recording SubscriptionLogger, WithMaxSubscriptions 2-4, 0-9 pass-through middlewares): 10-35 steps of subscribe / unsubscribe / mutate / echo / url / malformed envelopes with ids from a pool of 3 shared by ALL message types (plus fresh ids), undecodable frames, " +
		"writes and invalidate-everything steps, resolver failures (initial and on re-run; plain, safe, and errors wrapping context.Canceled / DeadlineExceeded of a resolver-owned context; failing mutations), context cancellation, socket close at a random step (ReadJSON error) or through a failing WriteJSON, gate steps (a resolver of an in-flight run is held while an unsubscribe(+re-subscribe) / close / cancel / colliding mutate / subscribe lands), " +
		"an unsubscribe-all / close sent a fraction of the write-then-read delay after a write that invalidates an idle subscription, a motif: a slow mutation with id X, unsubscribe X while it runs, subscribe X, then that subscription ends by unsubscribe / close / own failure; a motif: the connection context is cancelled while a re-run is inside a context-honouring resolver; a motif: a successful subscription fails on a re-run (retry), then unsubscribes / recovers and unsubscribes / the connection closes, a failing-subscribe+unsubscribe+re-subscribe motif, unsubscribe+subscribe played while a closeSubscription call is held at its entry, writes injected at hook points; every subscription query carries a unique tag that its resolvers log and a field that creates a reactive.Resource with a Cleanup counter; some also select a live-query field that registers a counted Resource inside the public reactive.Cache and then fails (initially / transiently on re-runs). " +
		"reactive.WriteThenReadDelay is 0 in 2/5 of the histories and 0.5-3 ms in the rest. Every history ends with socket close, three invalidate-everything settle rounds and a quiescence wait. A third of the generated histories (own random stream) additionally get a limit-pressure burst spliced in at a random point before the step that ends the connection: MaxSubs+1..MaxSubs+3 subscribes with fresh distinct ids (pipelined / awaited / mixed), in half of them with the connection context cancelled (socket left open) before a random subscribe of the burst, in a quarter with some of the burst failing initially; then nothing / a random subset unsubscribed and one more than that subscribed again / all unsubscribed. 8 pinned histories first; the last four are stress histories, each 1600 (thorough 6000) rounds of subscribe x4 / one write invalidating all / mutation + unsubscribe x4 pipelined at once, with a per-round timing jitter (Stop racing the wake-up of a re-run or of the initial run, under RerunImmediately contention). Non-trivial = the history has an end-by-close, an id collision or a failure. Distinct = step-kind sequence + end kinds of the instances.")
	run.Assume("a subscription instance is a logger Subscribe call inside the handle window of a subscribe message; it ends at the first of: logger Unsubscribe(id), read-enter after its unsubscribe message, ServeJSONSocket returned")
	run.Assume("Unsubscribe logger calls for ids of mutations (never subscribed) are tolerated")
	run.Assume("rejecting a subscribe early (a mutation in flight occupies a slot or an id) is not a violation")
	n := run.N(80, 10000)
	stormRounds = run.N(1600, 6000)
	agg := vlib.NewHitAgg()
	defer agg.Report(run)
	run.Each(n, 1, func(i int) {
		fmt.Printf("CASE %d\n", i)
		runCase(run, agg, i)
	})
}

func runCase(run *vlib.Run, agg *vlib.HitAgg, i int) {
	r := run.Rand("hist", i)
	g := wsclient.NewGen(run.Rand("data", i))
	seed := run.Seed()*1000003 + int64(i)
	var h *history
	if i < numPinned {
		h = pinnedHistory(i, g, seed)
	} else {
		h = genHistory(r, g, seed)
		// a third of the generated histories additionally ask for more
		// subscriptions than the limit allows (own stream: the other
		// histories are what they were before this dimension existed)
		if pr := run.Rand("limit", i); pr.Intn(3) == 0 {
			addLimitPressure(pr, g, h)
		}
	}
	boomOff := g.AddOp(wsclient.Op{Cell: "boom", Val: int64(0)})
	s := wsclient.StartSession(h.Cfg, g)
	s.SetOps(g.Ops())
	defer func() {
		agg.Add(s.Y)
		s.End()
	}()
	// a witness renders the whole log: only the first violations of a case get one
	witnesses := 0
	witness := func(extra map[string]interface{}) map[string]interface{} {
		witnesses++
		if witnesses > 12 {
			return map[string]interface{}{"what": extra["what"], "note": "further violation of the same case; see the earlier replay files of this case for the log"}
		}
		ev := s.Log.Snapshot()
		w := map[string]interface{}{"history": h.Name, "cfg": h.Cfg, "steps": h.Steps, "messages": s.Sock.Meta(), "log": wsclient.Render(ev, true, 400)}
		for k, v := range extra {
			w[k] = v
		}
		return w
	}
	hang := func(err error) bool {
		if strings.Contains(err.Error(), vlib.QuiescentNot.String()) {
			run.Violation(i, "", witness(map[string]interface{}{"what": "the server hangs: " + err.Error(), "stacks": vlib.Trunc(vlib.Stacks(), 20000)}))
		} else {
			run.Inconclusive(fmt.Sprintf("case %d: %v", i, err))
		}
		return true
	}
	if err := s.Play(h.Steps); err != nil && hang(err) {
		return
	}
	// end of the connection: socket close, ServeJSONSocket must return
	if err := s.Play([]wsclient.Step{{Kind: "close", Wait: true}}); err != nil && hang(err) {
		return
	}
	// settle: keep invalidating everything, then wait for quiet
	quiet := true
	for round := 0; round < 3; round++ {
		s.World.Apply(boomOff, "settle")
		s.World.TouchAll("settle")
		if !s.WaitQuiet(10*time.Millisecond, 3, 5*time.Second) {
			quiet = false
		}
	}
	if !quiet {
		run.Inconclusive(fmt.Sprintf("case %d: the system did not go quiet during the settle phase", i))
		return
	}
	analyze := func() *wsclient.Analysis {
		return wsclient.Analyze(s.Log.Snapshot(), s.Sock.Meta(), h.Cfg.MaxSubs)
	}
	// every resource released, every Subscribe matched - by quiescence
	var a *wsclient.Analysis
	allDone := func() bool {
		a = analyze()
		for _, ri := range a.Res {
			if len(ri.Cleans) == 0 {
				return false
			}
		}
		return true
	}
	out := vlib.WaitCond(allDone, s.Activity, 500*time.Millisecond, 15*time.Second)
	if out == vlib.Undecided {
		run.Inconclusive(fmt.Sprintf("case %d: resources still being released at the hard deadline", i))
		return
	}
	a = analyze()
	collided := func(inst *wsclient.Instance) bool { return inst != nil && inst.CollidedBy != 0 }
	classOf := func(inst *wsclient.Instance) string {
		if collided(inst) {
			return classOrphan
		}
		return ""
	}

	if os.Getenv("VERIF_DEBUG_LOG") != "" {
		fmt.Println(strings.Join(wsclient.Render(a.Events, false, 0), "\n"))
	}
	// R1: exactly one logger Unsubscribe per Subscribe
	for _, inst := range a.Instances {
		if inst.EndKind == "superseded" {
			continue
		}
		if inst.UnsubLogs == 0 {
			class := ""
			if inst.EndKind == "serve-return" {
				class = classCloseNoLog // live until the connection closed; closeSubscriptions logged nothing
			}
			run.Violation(i, class, witness(map[string]interface{}{"rule": "R1", "what": "logger Subscribe without a matching Unsubscribe by the end of the connection (ServeJSONSocket returned, system quiescent)", "instance": inst}))
		}
	}
	// causes: an instance may end by unsubscribe, by its own failure or when the connection closes
	for _, inst := range a.Instances {
		if inst.EndKind == "log-unsub" && inst.EndCause == "unexplained" {
			class := ""
			if inst.PriorSameID {
				class = classStaleClose
			}
			run.Violation(i, class, witness(map[string]interface{}{"rule": "R1c", "what": "the server ended a subscription (logger Unsubscribe) that was not unsubscribed, had not failed, and whose connection was not closing", "instance": inst}))
		}
	}
	// R2: silence after the end
	for _, inst := range a.Instances {
		if inst.EndSeq < 0 || inst.EndKind == "superseded" || inst.Tag == "" {
			continue
		}
		for _, sq := range a.ResolveByTag[inst.Tag] {
			if sq > inst.EndSeq {
				run.Violation(i, classOf(inst), witness(map[string]interface{}{"rule": "R2", "what": fmt.Sprintf("a resolver of subscription %q (tag %s) started at %d, after the subscription ended at %d (%s)", inst.ID, inst.Tag, sq, inst.EndSeq, inst.EndKind),
					"instance": inst, "after_serve_return": a.ServeReturnSeq >= 0 && sq > a.ServeReturnSeq}))
				break
			}
		}
	}
	for _, an := range a.Anomalies {
		switch an.Rule {
		case "envelope-after-end", "write-after-serve-return", "update-after-unsub-processed":
			class := classOf(an.Inst)
			if class == "" && a.MutCollision[an.ID] {
				class = classOrphan // a mutation's rerunner was overwritten by another mutate with the same id
			}
			run.Violation(i, class, witness(map[string]interface{}{"rule": "R2", "what": an.Rule + ": " + an.Detail, "at": an.Seq, "id": an.ID, "instance": an.Inst}))
		case "second-subscribe-live", "duplicate-subscribe-no-error", "limit-exceeded", "over-limit-no-error", "unsubscribe-log-without-subscribe", "subscribe-log-outside-window", "unsub-no-log":
			run.Violation(i, "", witness(map[string]interface{}{"rule": "R4/R5", "what": an.Rule + ": " + an.Detail, "at": an.Seq, "id": an.ID, "instance": an.Inst}))
		}
	}
	// R3: resources released exactly once
	for _, ri := range a.Res {
		inst := a.ByTag[ri.Tag]
		if len(ri.Cleans) == 0 {
			class := classOf(inst)
			run.Violation(i, class, witness(map[string]interface{}{"rule": "R3", "what": fmt.Sprintf("resource %d of tag %s was never released (connection closed, system quiescent)", ri.N, ri.Tag), "instance": inst, "quiescent": out == vlib.QuiescentNot}))
			break
		}
		if len(ri.Cleans) > 1 {
			run.Violation(i, "", witness(map[string]interface{}{"rule": "R3", "what": fmt.Sprintf("Cleanup of resource %d of tag %s ran %d times", ri.N, ri.Tag, len(ri.Cleans)), "instance": inst}))
		}
	}

	// ---- coverage
	var kinds []string
	for _, st := range h.Steps {
		k := st.Kind
		if st.Kind == "gate" && len(st.Then) > 0 {
			k += "+" + st.Then[0].Kind
		}
		kinds = append(kinds, k)
		run.Count("step:"+k, 1)
	}
	var ends []string
	for _, inst := range a.Instances {
		e := inst.EndKind + "/" + inst.EndCause
		ends = append(ends, e)
		run.Count("instance_end:"+e, 1)
		if inst.CollidedBy != 0 {
			run.Count("instances_with_colliding_mutate", 1)
		}
		if inst.LiveAtReadError {
			run.Count("instances_live_at_socket_close", 1)
		}
	}
	inflightAtClose := 0
	if a.ReadErrorSeq >= 0 {
		infl := map[string]int{}
		for _, e := range a.Events {
			if e.Seq > a.ReadErrorSeq {
				break
			}
			if e.Kind == wsclient.EvExecStart {
				infl[e.ID]++
			} else if e.Kind == wsclient.EvExecFinish && infl[e.ID] > 0 {
				infl[e.ID]--
			}
		}
		for _, c := range infl {
			inflightAtClose += c
		}
	}
	if inflightAtClose > 0 {
		run.Count("closes_during_inflight_execution", 1)
	}
	for _, an := range a.Anomalies {
		run.Count("anomaly:"+an.Rule, 1)
	}
	run.Count("subscriptions_accepted", len(a.Instances))
	run.Count("resources_created", len(a.Res))
	run.Count("stray_unsubscribe_logs_for_mutation_ids", a.StrayMutUnsubs)
	run.Count("gate_hits", int(s.World.GateHits()))
	run.Count("injections_fired", s.InjectionsFired())
	run.Count("log_events", len(a.Events))
	if a.MaxLive >= h.Cfg.MaxSubs {
		run.Count("histories_reaching_the_limit", 1)
	}
	if h.Pressure != "" {
		run.Count("limit_pressure:"+h.Pressure, 1)
		refused := 0
		for _, e := range a.Events {
			if e.Kind == wsclient.EvWrite && e.Sync && e.Type == "error" && strings.HasPrefix(e.ID, "p") {
				refused++
			}
		}
		run.Count("limit_pressure_subscribes_refused", refused)
		if a.CtxCancelSeq >= 0 {
			after := 0
			for _, inst := range a.Instances {
				if inst.SubSeq > a.CtxCancelSeq {
					after++
				}
			}
			run.Count("subscriptions_accepted_after_ctx_cancel", after)
		}
	}
	nontrivial := h.EndByClose || h.Collision || h.Failure
	run.Case(strings.Join(kinds, ",")+"|"+strings.Join(ends, ","), nontrivial)
	if nontrivial && run.WantSample() && i >= numPinned {
		run.Sample(map[string]interface{}{"case": i, "steps": kinds, "instance_ends": ends, "max_subs": h.Cfg.MaxSubs, "log_events": len(a.Events)})
	}
}
