package wsclient

import (
	"fmt"
	"math/rand"
	"strings"
)

// Gen generates initial data, absolute write operations (derived from a
// model of the store so that list edits are structural: insert / delete /
// move / reverse ...) and queries over the World schema.
type Gen struct {
	r     *rand.Rand
	state map[string]interface{}
	init  map[string]interface{}
	ops   []Op
	docs  []varDoc // documents with variables generated so far (re-used verbatim)
}

type varDoc struct {
	text  string
	cells []string
	lastK int
}

var words = []string{"x", "y", "z", "w", "hello", ""}

func NewGen(r *rand.Rand) *Gen {
	g := &Gen{r: r, state: map[string]interface{}{}}
	g.state["n"] = int64(r.Intn(5))
	g.state["s"] = g.strp()
	g.state["obj"] = g.objVal()
	g.state["items"] = g.idList(NumItems, 5)
	g.state["kids:0"] = g.idList(NumItems, 3)
	g.state["kids:1"] = g.idList(NumItems, 3)
	for i := 0; i < NumItems; i++ {
		g.state[fmt.Sprintf("item:%d", i)] = ItemVal{Name: fmt.Sprintf("i%d", i), W: int64(r.Intn(4))}
	}
	g.state["plain"] = g.plainList()
	g.state["nums"] = g.numList(6)
	g.state["grid"] = g.grid()
	g.state["ku"] = g.uval(6)
	g.state["pu"] = g.uval(3)
	g.state["mu"] = g.uval(4)
	g.state["mulist"] = g.ulist(false)
	g.state["lq"] = int64(r.Intn(5))
	g.state["clock"] = int64(r.Intn(5))
	g.state["kulist"] = g.ulist(true)
	g.state["ulist"] = g.ulist(false)
	g.state["slow"] = int64(r.Intn(5))
	g.state["exp"] = int64(r.Intn(5))
	g.state["boom"] = int64(0)
	g.state["r"] = int64(0)
	g.state["teams"] = g.idList(NumTeams, NumTeams)
	for i := 0; i < NumTeams; i++ {
		g.state[fmt.Sprintf("team:%d", i)] = int64(10*(i+1) + r.Intn(5))
	}
	for i := 0; i < NumVCells; i++ {
		g.state[fmt.Sprintf("v:%d", i)] = int64(100*(i+1) + r.Intn(5))
	}
	g.state["pick"] = int64(r.Intn(NumItems+2) - 2)
	if g.state["pick"].(int64) < 0 {
		g.state["pick"] = int64(-1)
	}
	g.richInit() // rich.go: extra cells; draws nothing from r
	g.init = make(map[string]interface{}, len(g.state))
	for k, v := range g.state {
		g.init[k] = v // values are immutable snapshots
	}
	return g
}

// Init returns the initial values (the state before any operation).
func (g *Gen) Init() map[string]interface{} {
	m := make(map[string]interface{}, len(g.init))
	for k, v := range g.init {
		m[k] = v
	}
	return m
}

// Ops returns all operations generated so far.
func (g *Gen) Ops() []Op { return g.ops }

// AddOp appends an explicit operation and returns its index.
func (g *Gen) AddOp(op Op) int {
	g.ops = append(g.ops, op)
	g.state[op.Cell] = op.Val
	return len(g.ops) - 1
}

func (g *Gen) strp() *string {
	if g.r.Intn(3) == 0 {
		return nil
	}
	s := words[g.r.Intn(len(words))]
	return &s
}

func (g *Gen) objVal() *ObjVal {
	if g.r.Intn(3) == 0 {
		return nil
	}
	o := &ObjVal{A: int64(g.r.Intn(4)), B: words[g.r.Intn(len(words))], L: g.numList(4)}
	if g.r.Intn(2) == 0 {
		c := int64(g.r.Intn(4))
		o.In = &c
	}
	return o
}

func (g *Gen) idList(universe, max int) []int64 {
	p := g.r.Perm(universe)
	if max > universe {
		max = universe
	}
	n := g.r.Intn(max + 1)
	out := make([]int64, 0, n)
	for _, x := range p[:n] {
		out = append(out, int64(x))
	}
	return out
}

func (g *Gen) numList(max int) []int64 {
	n := g.r.Intn(max + 1)
	out := make([]int64, 0, n)
	for i := 0; i < n; i++ {
		out = append(out, int64(g.r.Intn(4)))
	}
	return out
}

func (g *Gen) plainVal() PlainVal { return PlainVal{X: int64(g.r.Intn(4)), Y: g.strp()} }

func (g *Gen) plainList() []PlainVal {
	n := g.r.Intn(5)
	out := make([]PlainVal, 0, n)
	for i := 0; i < n; i++ {
		out = append(out, g.plainVal())
	}
	return out
}

func (g *Gen) grid() [][]int64 {
	n := g.r.Intn(4)
	out := make([][]int64, 0, n)
	for i := 0; i < n; i++ {
		out = append(out, g.numList(3))
	}
	return out
}

func (g *Gen) uval(ids int) UVal {
	switch g.r.Intn(5) {
	case 0:
		return UVal{}
	case 1, 2:
		return UVal{Kind: "A", ID: int64(g.r.Intn(ids)), A: int64(g.r.Intn(4))}
	default:
		return UVal{Kind: "B", ID: int64(g.r.Intn(ids)), B: words[g.r.Intn(len(words))]}
	}
}

func (g *Gen) ulist(keyed bool) []UVal {
	n := g.r.Intn(5)
	out := make([]UVal, 0, n)
	used := map[int64]bool{}
	for i := 0; i < n; i++ {
		u := g.uval(8)
		if keyed {
			if u.Kind == "" || used[u.ID] {
				continue // keyed lists hold distinct keys and no nulls
			}
			used[u.ID] = true
		}
		out = append(out, u)
	}
	return out
}

// editIDs is a structural edit of a list of distinct ids.
func (g *Gen) editIDs(old []int64, universe int) []int64 {
	a := append([]int64(nil), old...)
	switch g.r.Intn(8) {
	case 0, 1: // insert an id that is not present
		present := map[int64]bool{}
		for _, x := range a {
			present[x] = true
		}
		var free []int64
		for i := 0; i < universe; i++ {
			if !present[int64(i)] {
				free = append(free, int64(i))
			}
		}
		if len(free) > 0 {
			x := free[g.r.Intn(len(free))]
			i := g.r.Intn(len(a) + 1)
			a = append(a[:i:i], append([]int64{x}, a[i:]...)...)
		}
	case 2: // delete
		if len(a) > 0 {
			i := g.r.Intn(len(a))
			a = append(a[:i:i], a[i+1:]...)
		}
	case 3: // move
		if len(a) > 1 {
			i, j := g.r.Intn(len(a)), g.r.Intn(len(a))
			x := a[i]
			a = append(a[:i:i], a[i+1:]...)
			a = append(a[:j:j], append([]int64{x}, a[j:]...)...)
		}
	case 4: // rotate
		if len(a) > 1 {
			k := 1 + g.r.Intn(len(a)-1)
			a = append(append([]int64{}, a[k:]...), a[:k]...)
		}
	case 5: // reverse
		for i, j := 0, len(a)-1; i < j; i, j = i+1, j-1 {
			a[i], a[j] = a[j], a[i]
		}
	case 6: // shuffle
		g.r.Shuffle(len(a), func(i, j int) { a[i], a[j] = a[j], a[i] })
	default: // replace wholesale
		a = g.idList(universe, 5)
	}
	if a == nil {
		a = []int64{}
	}
	return a
}

func (g *Gen) editNums(old []int64) []int64 {
	a := append([]int64{}, old...)
	switch g.r.Intn(6) {
	case 0:
		i := g.r.Intn(len(a) + 1)
		a = append(a[:i:i], append([]int64{int64(g.r.Intn(4))}, a[i:]...)...)
	case 1:
		if len(a) > 0 {
			i := g.r.Intn(len(a))
			a = append(a[:i:i], a[i+1:]...)
		}
	case 2:
		if len(a) > 0 {
			a[g.r.Intn(len(a))] = int64(g.r.Intn(4))
		}
	case 3:
		for i, j := 0, len(a)-1; i < j; i, j = i+1, j-1 {
			a[i], a[j] = a[j], a[i]
		}
	case 4:
		if len(a) > 0 {
			a = append(a, a[g.r.Intn(len(a))])
		}
	default:
		a = g.numList(6)
	}
	return a
}

// NextOp generates the next absolute write; with probability 3/4 it targets
// one of the preferred cells (cells the live queries read).
func (g *Gen) NextOp(prefer []string) int {
	var name string
	if len(prefer) > 0 && g.r.Intn(4) != 0 {
		name = prefer[g.r.Intn(len(prefer))]
	} else {
		all := []string{"n", "s", "obj", "items", "kids:0", "kids:1", "plain", "nums", "grid", "ku", "pu", "mu", "mu", "mulist", "lq", "clock", "kulist", "ulist", "slow", "exp", "r", "pick", "teams",
			fmt.Sprintf("team:%d", g.r.Intn(NumTeams)), fmt.Sprintf("v:%d", g.r.Intn(NumVCells)),
			fmt.Sprintf("item:%d", g.r.Intn(NumItems))}
		name = all[g.r.Intn(len(all))]
	}
	return g.OpOn(name)
}

// OpOn generates the next absolute write to the named cell.
func (g *Gen) OpOn(name string) int {
	if name == "boom" {
		name = "n"
	}
	old := g.state[name]
	var nv interface{}
	switch {
	case name == "clock": // the logical clock only moves forward; sometimes across an epoch boundary
		l := old.(int64)
		if g.r.Intn(3) == 0 {
			nv = (l/ClockEpoch+1)*ClockEpoch + int64(g.r.Intn(3))
		} else if l%ClockEpoch < ClockEpoch-2 {
			nv = l + 1
		} else {
			nv = l
		}
	case name == "teams":
		nv = g.editIDs(old.([]int64), NumTeams)
	case name == "n" || name == "slow" || name == "exp" || name == "r" || name == "lq" || strings.HasPrefix(name, "team:") || strings.HasPrefix(name, "v:"):
		if g.r.Intn(8) == 0 {
			nv = old // a write that changes nothing
		} else {
			nv = old.(int64) + 1 + int64(g.r.Intn(2))
		}
	case name == "pick":
		if old.(int64) >= 0 && g.r.Intn(2) == 0 {
			nv = int64(-1)
		} else {
			nv = int64(g.r.Intn(NumItems))
		}
	case name == "s":
		nv = g.strp()
	case name == "obj":
		o := old.(*ObjVal)
		if o == nil || g.r.Intn(4) == 0 {
			nv = g.objVal()
		} else {
			c := *o
			switch g.r.Intn(5) {
			case 0:
				c.A++
			case 1:
				c.B = words[g.r.Intn(len(words))]
			case 2:
				c.L = g.editNums(o.L)
			case 3:
				if c.In == nil {
					x := int64(g.r.Intn(4))
					c.In = &x
				} else {
					c.In = nil
				}
			default:
				if c.In != nil {
					x := *c.In + 1
					c.In = &x
				} else {
					c.A++
				}
			}
			nv = &c
		}
	case name == "items" || strings.HasPrefix(name, "kids:"):
		nv = g.editIDs(old.([]int64), NumItems)
	case strings.HasPrefix(name, "item:"):
		iv := old.(ItemVal)
		if g.r.Intn(2) == 0 {
			iv.W++
		} else {
			iv.Name = iv.Name + "'"
			if len(iv.Name) > 6 {
				iv.Name = iv.Name[:2]
			}
		}
		nv = iv
	case name == "plain":
		a := append([]PlainVal{}, old.([]PlainVal)...)
		switch g.r.Intn(5) {
		case 0:
			i := g.r.Intn(len(a) + 1)
			a = append(a[:i:i], append([]PlainVal{g.plainVal()}, a[i:]...)...)
		case 1:
			if len(a) > 0 {
				i := g.r.Intn(len(a))
				a = append(a[:i:i], a[i+1:]...)
			}
		case 2:
			if len(a) > 0 {
				a[g.r.Intn(len(a))] = g.plainVal()
			}
		case 3:
			for i, j := 0, len(a)-1; i < j; i, j = i+1, j-1 {
				a[i], a[j] = a[j], a[i]
			}
		default:
			a = g.plainList()
		}
		nv = a
	case name == "nums":
		nv = g.editNums(old.([]int64))
	case name == "grid":
		gr := old.([][]int64)
		a := make([][]int64, len(gr))
		copy(a, gr)
		switch g.r.Intn(5) {
		case 0:
			i := g.r.Intn(len(a) + 1)
			a = append(a[:i:i], append([][]int64{g.numList(3)}, a[i:]...)...)
		case 1:
			if len(a) > 0 {
				i := g.r.Intn(len(a))
				a = append(a[:i:i], a[i+1:]...)
			}
		case 2:
			if len(a) > 0 {
				i := g.r.Intn(len(a))
				a[i] = g.editNums(a[i])
			}
		case 3:
			for i, j := 0, len(a)-1; i < j; i, j = i+1, j-1 {
				a[i], a[j] = a[j], a[i]
			}
		default:
			a = g.grid()
		}
		nv = a
	case name == "ku" || name == "pu" || name == "mu":
		u := old.(UVal)
		ids := 6
		if name == "pu" {
			ids = 3
		}
		switch g.r.Intn(5) {
		case 0: // member switch keeping the id (same __key for ku)
			switch u.Kind {
			case "A":
				nv = UVal{Kind: "B", ID: u.ID, B: words[g.r.Intn(len(words))]}
			case "B":
				nv = UVal{Kind: "A", ID: u.ID, A: int64(g.r.Intn(4))}
			default:
				nv = g.uval(ids)
			}
		case 1: // value change within the member
			u.A++
			u.B += "!"
			if len(u.B) > 5 {
				u.B = "q"
			}
			nv = u
		case 2:
			nv = UVal{}
		default:
			nv = g.uval(ids)
		}
	case name == "kulist" || name == "ulist" || name == "mulist":
		keyed := name == "kulist"
		a := append([]UVal{}, old.([]UVal)...)
		switch g.r.Intn(6) {
		case 0: // insert
			u := g.uval(8)
			ok := true
			if keyed {
				if u.Kind == "" {
					ok = false
				}
				for _, x := range a {
					if x.ID == u.ID {
						ok = false
					}
				}
			}
			if ok {
				i := g.r.Intn(len(a) + 1)
				a = append(a[:i:i], append([]UVal{u}, a[i:]...)...)
			}
		case 1:
			if len(a) > 0 {
				i := g.r.Intn(len(a))
				a = append(a[:i:i], a[i+1:]...)
			}
		case 2: // member switch in place, id kept
			if len(a) > 0 {
				i := g.r.Intn(len(a))
				if a[i].Kind == "A" {
					a[i] = UVal{Kind: "B", ID: a[i].ID, B: "sw"}
				} else if a[i].Kind == "B" {
					a[i] = UVal{Kind: "A", ID: a[i].ID, A: 7}
				}
			}
		case 3:
			for i, j := 0, len(a)-1; i < j; i, j = i+1, j-1 {
				a[i], a[j] = a[j], a[i]
			}
		case 4:
			g.r.Shuffle(len(a), func(i, j int) { a[i], a[j] = a[j], a[i] })
		default:
			a = g.ulist(keyed)
		}
		nv = a
	case isRichCell(name): // rich.go
		nv = g.richEdit(name, old)
	default:
		panic("wsclient: NextOp: unknown cell " + name)
	}
	return g.AddOp(Op{Cell: name, Val: nv})
}

// LeaveReturn generates the four writes "an object leaves the result, its
// data changes, it comes back, its data changes again" for one item, either
// as an element of the keyed list `items` or as the nullable object `pick`.
// It returns the op indices and the cells involved.
func (g *Gen) LeaveReturn() ([]int, []string) {
	var ops []int
	bump := func(id int64) int {
		name := fmt.Sprintf("item:%d", id)
		iv := g.state[name].(ItemVal)
		iv.W += 10
		return g.AddOp(Op{Cell: name, Val: iv})
	}
	if g.r.Intn(2) == 0 {
		ids := g.state["items"].([]int64)
		if len(ids) == 0 {
			ids = []int64{int64(g.r.Intn(NumItems))}
			ops = append(ops, g.AddOp(Op{Cell: "items", Val: ids}))
		}
		x := ids[g.r.Intn(len(ids))]
		var without []int64
		for _, y := range ids {
			if y != x {
				without = append(without, y)
			}
		}
		if without == nil {
			without = []int64{}
		}
		ops = append(ops, g.AddOp(Op{Cell: "items", Val: without}))
		ops = append(ops, bump(x))
		i := g.r.Intn(len(without) + 1)
		back := append(append(append([]int64{}, without[:i]...), x), without[i:]...)
		ops = append(ops, g.AddOp(Op{Cell: "items", Val: back}))
		ops = append(ops, bump(x))
		return ops, []string{"items", fmt.Sprintf("item:%d", x)}
	}
	x := g.state["pick"].(int64)
	if x < 0 {
		x = int64(g.r.Intn(NumItems))
		ops = append(ops, g.AddOp(Op{Cell: "pick", Val: x}))
	}
	ops = append(ops, g.AddOp(Op{Cell: "pick", Val: int64(-1)}))
	ops = append(ops, bump(x))
	ops = append(ops, g.AddOp(Op{Cell: "pick", Val: x}))
	ops = append(ops, bump(x))
	return ops, []string{"pick", fmt.Sprintf("item:%d", x)}
}

// GenVarQuery generates a document WITH VARIABLES - the tag and the cell
// selector of `vcell` are given as $tag and $k - plus variable values. With
// probability 2/3 it re-uses, verbatim, the text of a document generated
// earlier, with a different $k: the same text with different variables must
// give that subscription's own data.
func (g *Gen) GenVarQuery(tag string, o QueryOpts) (string, map[string]interface{}, []string) {
	r := g.r
	var d *varDoc
	if len(g.docs) > 0 && r.Intn(3) != 0 {
		d = &g.docs[r.Intn(len(g.docs))]
	} else {
		const marker = "@@TAG@@"
		q, cells := g.GenQuery(marker, o)
		head := fmt.Sprintf("{ root(tag: %q) {", marker)
		if !strings.HasPrefix(q, head) {
			panic("wsclient: GenVarQuery: unexpected query form " + q)
		}
		text := "query Q($tag: string!, $k: int64!) { root(tag: $tag) { vk: vcell(k: $k)" + strings.TrimPrefix(q, head)
		for i := 0; i < NumVCells; i++ {
			cells = append(cells, fmt.Sprintf("v:%d", i))
		}
		g.docs = append(g.docs, varDoc{text: text, cells: cells, lastK: -1})
		d = &g.docs[len(g.docs)-1]
	}
	k := r.Intn(NumVCells)
	if k == d.lastK {
		k = (k + 1) % NumVCells
	}
	d.lastK = k
	return d.text, map[string]interface{}{"tag": tag, "k": float64(k)}, d.cells
}

// ClockTick generates a small advance of the logical clock inside the current
// epoch (no deadline passes) and ClockCross one beyond the next boundary.
func (g *Gen) ClockTick() int {
	l := g.state["clock"].(int64)
	if l%ClockEpoch < ClockEpoch-2 {
		l++
	}
	return g.AddOp(Op{Cell: "clock", Val: l})
}

func (g *Gen) ClockCross() int {
	l := g.state["clock"].(int64)
	return g.AddOp(Op{Cell: "clock", Val: (l/ClockEpoch+1)*ClockEpoch + int64(g.r.Intn(3))})
}

// KeySwitch generates writes that switch the mixed union `mu` from its
// key-less member to its keyed member (and on to a value change and back).
func (g *Gen) KeySwitch() []int {
	id := int64(g.r.Intn(4))
	return []int{
		g.AddOp(Op{Cell: "mu", Val: UVal{Kind: "A", ID: id, A: int64(g.r.Intn(4))}}),
		g.AddOp(Op{Cell: "mu", Val: UVal{Kind: "B", ID: id, B: words[g.r.Intn(len(words))]}}),
		g.AddOp(Op{Cell: "mu", Val: UVal{Kind: "B", ID: id, B: "changed"}}),
		// member switches that are diffed field by field (no key / same key),
		// from the member with fewer selected fields to the one with more
		g.AddOp(Op{Cell: "pu", Val: UVal{Kind: "A", ID: id % 3, A: 1}}),
		g.AddOp(Op{Cell: "pu", Val: UVal{Kind: "B", ID: id % 3, B: "sw"}}),
		g.AddOp(Op{Cell: "ku", Val: UVal{Kind: "A", ID: id, A: 2}}),
		g.AddOp(Op{Cell: "ku", Val: UVal{Kind: "B", ID: id, B: "sw"}}),
	}
}

// QueryOpts selects optional fields.
type QueryOpts struct {
	Boom       bool // may select the failing field
	Res        bool // selects the resource-creating field
	Slow       bool // may select the slow field
	Cost       bool // selects the Expensive field on list elements and on the nullable object
	Timed      bool // selects the time-driven field (logical clock, InvalidateAt / InvalidateAfter)
	SlowAlways bool // always selects the slow (context-honouring) field
	LQ         bool // selects the live-query field (public reactive.Cache; registers a resource, then may fail)
	Rich       bool // selects unions whose members hold nullable object- and union-typed fields (rich.go)
	Snap       bool // selects fields whose resolvers read snapshot-style (value and resource first, registration afterwards), also below an Expensive field (rich.go)
}

// GenQuery generates a query `{ root(tag: "<tag>") { ... } }` and the cells
// it reads.
func (g *Gen) GenQuery(tag string, o QueryOpts) (string, []string) {
	r := g.r
	type fld struct {
		text  string
		cells []string
	}
	itemCells := func() []string {
		var cs []string
		for i := 0; i < NumItems; i++ {
			cs = append(cs, fmt.Sprintf("item:%d", i))
		}
		return cs
	}
	pool := []func() fld{
		func() fld { return fld{"n", []string{"n"}} },
		func() fld { return fld{"s", []string{"s"}} },
		func() fld {
			subs := []string{"a", "b", "l", "in { c }"}
			r.Shuffle(len(subs), func(i, j int) { subs[i], subs[j] = subs[j], subs[i] })
			return fld{"obj { " + strings.Join(subs[:1+r.Intn(len(subs))], " ") + " }", []string{"obj"}}
		},
		func() fld {
			switch r.Intn(6) {
			case 4:
				return fld{"items { id cost }", append([]string{"items"}, itemCells()...)}
			case 5:
				return fld{"items { id cost kids { id cost } }", append([]string{"items", "kids:0", "kids:1"}, itemCells()...)}
			case 0:
				return fld{"items { id }", []string{"items"}}
			case 1:
				return fld{"items { id name w }", append([]string{"items"}, itemCells()...)}
			case 2:
				return fld{"items { id w kids { id name } }", append([]string{"items", "kids:0", "kids:1"}, itemCells()...)}
			default:
				return fld{"items { name kids { id kids { id } } }", append([]string{"items", "kids:0", "kids:1"}, itemCells()...)}
			}
		},
		func() fld {
			if r.Intn(3) == 0 {
				return fld{"pick { id name }", append([]string{"pick"}, itemCells()...)}
			}
			return fld{"pick { id cost }", append([]string{"pick"}, itemCells()...)}
		},
		func() fld { return fld{"plain { x y }", []string{"plain"}} },
		func() fld { // the same item pointers along two paths, an Expensive object field under one response key with different sub-selections / arguments
			cs := append([]string{"items", "pick", "kids:0", "kids:1"}, itemCells()...)
			switch r.Intn(4) {
			case 0:
				return fld{"w1: items { id detail { name } } w2: items { id detail { w name } }", cs}
			case 1:
				return fld{"w1: items { id v: scaled(by: 2) { w } } w2: items { id v: scaled(by: 3) { w name } }", cs}
			case 2:
				return fld{"w1: items { id detail { w } } w2: pick { id detail { name } kids { id detail { name w } } }", cs}
			default:
				return fld{"w1: pick { id v: scaled(by: 5) { w } } w2: items { id v: detail { name } kids { id v: scaled(by: 7) { name w } } }", cs}
			}
		},
		func() fld {
			cs := []string{"teams"}
			for i := 0; i < NumTeams; i++ {
				cs = append(cs, fmt.Sprintf("team:%d", i))
			}
			if r.Intn(3) == 0 {
				return fld{"teams { id members size }", cs}
			}
			return fld{"teams { id size }", cs}
		},
		func() fld { return fld{"nums", []string{"nums"}} },
		func() fld { return fld{"grid", []string{"grid"}} },
		func() fld {
			if r.Intn(2) == 0 {
				return fld{"ku { __typename ... on KA { id a } ... on KB { id b } }", []string{"ku"}}
			}
			if r.Intn(2) == 0 { // members with different numbers of selected fields
				return fld{"ku { ... on KA { a } ... on KB { id b __typename } }", []string{"ku"}}
			}
			return fld{"ku { ... on KA { a } ... on KB { b } }", []string{"ku"}}
		},
		func() fld {
			if r.Intn(2) == 0 {
				return fld{"pu { __typename ... on PA { a same } ... on PB { b same } }", []string{"pu"}}
			}
			if r.Intn(2) == 0 { // members with different numbers of selected fields
				return fld{"pu { ... on PA { a } ... on PB { b same __typename } }", []string{"pu"}}
			}
			return fld{"pu { ... on PA { a } ... on PB { b } }", []string{"pu"}}
		},
		func() fld {
			if r.Intn(2) == 0 {
				return fld{"mu { __typename ... on PA { a same } ... on KB { id b } }", []string{"mu"}}
			}
			return fld{"mu { ... on PA { a } ... on KB { b } }", []string{"mu"}}
		},
		func() fld { return fld{"mulist { ... on PA { a } ... on KB { id b } }", []string{"mulist"}} },
		func() fld { return fld{"kulist { ... on KA { id a } ... on KB { id b } }", []string{"kulist"}} },
		func() fld { return fld{"ulist { __typename ... on PA { a } ... on PB { b same } }", []string{"ulist"}} },
		func() fld { return fld{"exp", []string{"exp"}} },
	}
	n := 1 + r.Intn(5)
	perm := r.Perm(len(pool))
	var parts []string
	var cells []string
	for _, pi := range perm[:n] {
		f := pool[pi]()
		text := f.text
		if r.Intn(6) == 0 && !strings.Contains(strings.SplitN(text, " ", 2)[0], ":") {
			text = fmt.Sprintf("al%d: %s", len(parts), text)
		}
		parts = append(parts, text)
		cells = append(cells, f.cells...)
	}
	if o.Cost {
		parts = append(parts, "ci: items { id cost }", "cp: pick { id cost }", "cm: mu { ... on PA { a same } ... on KB { id b } }",
			"cu: pu { ... on PA { a } ... on PB { b same __typename } }", "ck: ku { ... on KA { a } ... on KB { id b __typename } }")
		cells = append(cells, "items", "pick", "mu", "pu", "ku")
		cells = append(cells, itemCells()...)
	}
	if o.Rich {
		p, c := g.richParts()
		parts = append(parts, p...)
		cells = append(cells, c...)
	}
	if o.Snap {
		p, c := g.snapParts()
		parts = append(parts, p...)
		cells = append(cells, c...)
	}
	if o.Timed {
		parts = append(parts, "timed")
		cells = append(cells, "clock")
	}
	if o.SlowAlways || (o.Slow && r.Intn(3) == 0) {
		parts = append(parts, fmt.Sprintf("slow(us: %d)", 50+r.Intn(600)))
		cells = append(cells, "slow")
	}
	if o.LQ {
		parts = append(parts, "lq")
		cells = append(cells, "lq", "boom")
	}
	if o.Boom {
		parts = append(parts, "boom")
		cells = append(cells, "boom")
	}
	if o.Res {
		parts = append(parts, "res")
		cells = append(cells, "r")
	}
	if r.Intn(4) == 0 {
		parts = append(parts, "tag")
	}
	r.Shuffle(len(parts), func(i, j int) { parts[i], parts[j] = parts[j], parts[i] })
	return fmt.Sprintf("{ root(tag: %q) { %s } }", tag, strings.Join(parts, " ")), cells
}
