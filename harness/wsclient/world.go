package wsclient

import (
	"context"
	"errors"
	"fmt"
	"sort"
	"sync"
	"sync/atomic"
	"time"

	"github.com/samsarahq/thunder/batch"
	"github.com/samsarahq/thunder/graphql"
	"github.com/samsarahq/thunder/graphql/schemabuilder"
	"github.com/samsarahq/thunder/reactive"
)

// Cell modes: how a writer tells the reactive graph about a change.
const (
	ModeReplace = iota // change value THEN Invalidate the old resource (a new one replaces it)
	ModeStrobe         // change value THEN Strobe the long-lived resource
	ModeFresh          // every read registers its own resource (as livesql does); a write invalidates all of them
)

// cell is one mutable datum. Readers: AddDependency(resource) THEN read value.
// Writers: change value THEN invalidate / strobe.
//
// A reactive.Resource is released (and thereby permanently invalidated) when
// its last dependant goes away, so a cell drops its resource from its Cleanup
// callback and the next reader makes a new one; otherwise the next reader
// would depend on a dead resource and re-run forever.
type cell struct {
	name string
	mode int
	// monotone: an int64 cell whose value never decreases (the logical clock)
	monotone bool

	mu   sync.Mutex
	val  interface{}
	res  *reactive.Resource              // ModeReplace, ModeStrobe
	live map[*reactive.Resource]struct{} // ModeFresh
}

func (c *cell) register(ctx context.Context) {
	if c.mode == ModeFresh {
		r := reactive.NewResource()
		r.Cleanup(func() {
			c.mu.Lock()
			delete(c.live, r)
			c.mu.Unlock()
		})
		c.mu.Lock()
		c.live[r] = struct{}{}
		c.mu.Unlock()
		reactive.AddDependency(ctx, r, nil)
		return
	}
	c.mu.Lock()
	res := c.res
	c.mu.Unlock()
	if res == nil {
		r := reactive.NewResource()
		r.Cleanup(func() {
			c.mu.Lock()
			if c.res == r {
				c.res = nil
			}
			c.mu.Unlock()
		})
		c.mu.Lock()
		if c.res == nil {
			c.res = r
		}
		res = c.res
		c.mu.Unlock()
	}
	reactive.AddDependency(ctx, res, nil)
}

func (c *cell) load() interface{} {
	c.mu.Lock()
	defer c.mu.Unlock()
	return c.val
}

// write changes the value (when set is true) and then notifies.
func (c *cell) write(set bool, v interface{}, logged func()) {
	c.mu.Lock()
	if set {
		// The logical clock only moves forward, whatever the order in which
		// the scenario's absolute write operations happen to be applied
		// (injected and mutation writes are not applied in generation order).
		if c.monotone {
			if old, ok := c.val.(int64); ok && v.(int64) < old {
				v = old
			}
		}
		c.val = v
	}
	var olds []*reactive.Resource
	switch c.mode {
	case ModeReplace:
		if c.res != nil {
			olds = append(olds, c.res)
			c.res = nil
		}
	case ModeStrobe:
		if c.res != nil {
			olds = append(olds, c.res)
		}
	case ModeFresh:
		for r := range c.live {
			olds = append(olds, r)
		}
	}
	c.mu.Unlock()
	if logged != nil {
		logged()
	}
	for _, r := range olds {
		if c.mode == ModeStrobe {
			r.Strobe()
		} else {
			r.Invalidate()
		}
	}
}

// Value types held in cells (immutable snapshots).
type ObjVal struct {
	A  int64
	B  string
	L  []int64
	In *int64
}
type ItemVal struct {
	Name string
	W    int64
}
type PlainVal struct {
	X int64
	Y *string
}
type UVal struct {
	Kind string // "A", "B" or "" (null)
	ID   int64
	A    int64
	B    string
}

// Op is an absolute write: set Cell to Val.
type Op struct {
	Cell string
	Val  interface{}
}

// GraphQL object types.
type View struct {
	w   *World
	tag string
}
type Inner struct{ C int64 }
type Obj struct {
	A  int64
	B  string
	L  []int64
	In *Inner
}
type Item struct {
	Id  int64 `graphql:"id,key"`
	w   *World
	tag string
}
type Plain struct {
	X int64
	Y *string
}

// Detail is the object value of Item's Expensive fields detail / scaled.
type Detail struct {
	Name string
	W    int64
}

// Team is a BY-VALUE object holding a slice: its Go source value is not
// comparable, so the executor cannot use it as part of a reactive cache key.
type Team struct {
	Id      int64 `graphql:"id,key"`
	Members []string
	w       *World
	tag     string
}
type KA struct {
	Id int64 `graphql:"id,key"`
	A  int64
}
type KB struct {
	Id int64 `graphql:"id,key"`
	B  string
}
type KU struct {
	schemabuilder.Union
	*KA
	*KB
}
type PA struct {
	A    int64
	Same int64
}
type PB struct {
	B    string
	Same int64
}
type PU struct {
	schemabuilder.Union
	*PA
	*PB
}

// MU is a union of a member WITHOUT a key (PA) and a member WITH one (KB): a
// switch between them changes whether the object carries __key.
type MU struct {
	schemabuilder.Union
	*PA
	*KB
}

type lqKey struct{ tag string }

type oracleKey struct{}

// OracleCtx marks an execution made by the harness itself (expected values):
// resolvers neither log, gate, sleep, nor touch reactive resources. Adding a
// dependency outside a rerunner would release (= permanently invalidate) a
// resource that has no other dependants.
func OracleCtx(ctx context.Context) context.Context {
	return context.WithValue(ctx, oracleKey{}, true)
}

func isOracle(ctx context.Context) bool { return ctx.Value(oracleKey{}) != nil }

const NumItems = 8

// ClockEpoch is the length of an epoch of the logical clock.
const ClockEpoch = 10

// BoomShapes is the number of error shapes of the failing field: 1 plain
// error, 2 safe error, 3 error wrapping context.Canceled of a resolver-owned
// context, 4 error wrapping context.DeadlineExceeded, 5 safe error wrapping a
// wrapped context.Canceled. (A BARE context.Canceled is not among them: thunder
// treats that as "this subscription was cancelled" and ends it silently.)
const BoomShapes = 5

// NumTeams is the number of team cells, NumVCells the number of cells
// selectable through the vcell(k:) argument.
const (
	NumTeams  = 4
	NumVCells = 3
)

// World is the mutable in-memory store plus the schema over it.
type World struct {
	Log    *Log
	Schema *graphql.Schema

	cells map[string]*cell // fixed key set after NewWorld
	names []string

	opsMu sync.Mutex
	ops   []Op

	resSeq int64

	// interned source objects: the reactive cache of Expensive fields is keyed
	// by (field, source, selection), so an object that leaves the result and
	// comes back must come back as the same source pointer
	internMu sync.Mutex
	views    map[string]*View
	items    map[string]*Item

	gmu     sync.Mutex
	gArmed  bool
	gPhase  int
	gCell   string
	gHit    chan struct{}
	gRel    chan struct{}
	gateHit int64
}

// NewWorld builds a world with the given initial values and cell modes.
// modes maps cell name -> mode; missing cells get defMode.
func NewWorld(log *Log, init map[string]interface{}, modes map[string]int, defMode int) *World {
	w := &World{Log: log, cells: map[string]*cell{}, views: map[string]*View{}, items: map[string]*Item{}}
	for name, v := range init {
		m, ok := modes[name]
		if !ok {
			m = defMode
		}
		w.cells[name] = &cell{name: name, mode: m, val: v, live: map[*reactive.Resource]struct{}{}, monotone: name == "clock"}
		w.names = append(w.names, name)
	}
	sort.Strings(w.names)
	w.Schema = w.buildSchema()
	return w
}

// Cells lists the cell names, sorted.
func (w *World) Cells() []string { return w.names }

// SetOps installs the scenario's write operations (indexable by mutations).
func (w *World) SetOps(ops []Op) {
	w.opsMu.Lock()
	w.ops = ops
	w.opsMu.Unlock()
}

func (w *World) op(i int) (Op, bool) {
	w.opsMu.Lock()
	defer w.opsMu.Unlock()
	if i < 0 || i >= len(w.ops) {
		return Op{}, false
	}
	return w.ops[i], true
}

// Apply performs write operation i: change the value, then notify.
func (w *World) Apply(i int, source string) bool {
	op, ok := w.op(i)
	if !ok {
		return false
	}
	c := w.cells[op.Cell]
	if c == nil {
		return false
	}
	c.write(true, op.Val, func() {
		w.Log.Add(Event{Kind: EvStoreWrite, Cell: op.Cell, N: i, Note: source})
	})
	return true
}

// Touch invalidates / strobes a cell without changing its value.
func (w *World) Touch(name, source string) {
	c := w.cells[name]
	if c == nil {
		return
	}
	c.write(false, nil, func() {
		w.Log.Add(Event{Kind: EvStoreWrite, Cell: name, N: -1, Note: source})
	})
}

// TouchAll invalidates every cell.
func (w *World) TouchAll(source string) {
	for _, n := range w.names {
		w.Touch(n, source)
	}
}

// Peek returns the current value of a cell (harness use only).
func (w *World) Peek(name string) interface{} { return w.cells[name].load() }

// ArmGate arms a one-shot gate: the next resolver (of a real subscription
// run) that reaches the given phase of reading cellName ("" = any cell) is
// held there. phase 0 = after AddDependency, before reading the value;
// phase 1 = after reading the value. hit is closed when a resolver is held;
// release lets it go (and disarms the gate if nobody was caught). A held
// resolver also continues when its context is cancelled, or after 250 ms.
func (w *World) ArmGate(phase int, cellName string) (hit <-chan struct{}, release func()) {
	h := make(chan struct{})
	r := make(chan struct{})
	w.gmu.Lock()
	w.gArmed, w.gPhase, w.gCell, w.gHit, w.gRel = true, phase, cellName, h, r
	w.gmu.Unlock()
	var once sync.Once
	return h, func() {
		once.Do(func() {
			w.gmu.Lock()
			if w.gRel == r {
				w.gArmed = false
			}
			w.gmu.Unlock()
			close(r)
		})
	}
}

// GateHits is the number of resolvers that were held at a gate.
func (w *World) GateHits() int64 { return atomic.LoadInt64(&w.gateHit) }

func (w *World) gateAt(ctx context.Context, tag, name string, phase int) {
	w.gmu.Lock()
	if !w.gArmed || w.gPhase != phase || (w.gCell != "" && w.gCell != name) {
		w.gmu.Unlock()
		return
	}
	w.gArmed = false
	h, r := w.gHit, w.gRel
	w.gmu.Unlock()
	atomic.AddInt64(&w.gateHit, 1)
	w.Log.Add(Event{Kind: EvGateHit, Tag: tag, Cell: name, N: phase})
	close(h)
	t := time.NewTimer(250 * time.Millisecond)
	select {
	case <-r:
	case <-ctx.Done():
	case <-t.C:
	}
	t.Stop()
	w.Log.Add(Event{Kind: EvGateRelease, Tag: tag, Cell: name})
}

// read is the resolver-side access to a cell: log, register, (gate), read.
func (w *World) read(ctx context.Context, tag, name string) interface{} {
	c := w.cells[name]
	if c == nil {
		panic("wsclient: unknown cell " + name)
	}
	if isOracle(ctx) {
		return c.load()
	}
	w.Log.Add(Event{Kind: EvResolve, Tag: tag, Cell: name})
	c.register(ctx)
	w.gateAt(ctx, tag, name, 0)
	v := c.load()
	w.gateAt(ctx, tag, name, 1)
	return v
}

func (w *World) view(tag string) *View {
	w.internMu.Lock()
	defer w.internMu.Unlock()
	v := w.views[tag]
	if v == nil {
		v = &View{w: w, tag: tag}
		w.views[tag] = v
	}
	return v
}

func (w *World) item(tag string, id int64) *Item {
	k := fmt.Sprintf("%s/%d", tag, id)
	w.internMu.Lock()
	defer w.internMu.Unlock()
	it := w.items[k]
	if it == nil {
		it = &Item{Id: id, w: w, tag: tag}
		w.items[k] = it
	}
	return it
}

func uvalKU(u UVal) *KU {
	switch u.Kind {
	case "A":
		return &KU{KA: &KA{Id: u.ID, A: u.A}}
	case "B":
		return &KU{KB: &KB{Id: u.ID, B: u.B}}
	}
	return nil
}

func uvalMU(u UVal) *MU {
	switch u.Kind {
	case "A":
		return &MU{PA: &PA{A: u.A, Same: u.ID}}
	case "B":
		return &MU{KB: &KB{Id: u.ID, B: u.B}}
	}
	return nil
}

func uvalPU(u UVal) *PU {
	switch u.Kind {
	case "A":
		return &PU{PA: &PA{A: u.A, Same: u.ID}}
	case "B":
		return &PU{PB: &PB{B: u.B, Same: u.ID}}
	}
	return nil
}

func (w *World) buildSchema() *graphql.Schema {
	sb := schemabuilder.NewSchema()
	q := sb.Query()
	q.FieldFunc("root", func(args struct{ Tag string }) *View {
		return w.view(args.Tag)
	})
	m := sb.Mutation()
	m.FieldFunc("apply", func(ctx context.Context, args struct{ Op int64 }) (int64, error) {
		if !w.Apply(int(args.Op), "mutation") {
			return 0, graphql.NewSafeError("no such op")
		}
		return args.Op, nil
	})
	// slowApply is a mutation that takes a while (it does not watch its context)
	m.FieldFunc("slowApply", func(ctx context.Context, args struct{ Op, Us int64 }) (int64, error) {
		if !isOracle(ctx) && args.Us > 0 {
			time.Sleep(time.Duration(args.Us) * time.Microsecond)
		}
		if !w.Apply(int(args.Op), "mutation") {
			return 0, graphql.NewSafeError("no such op")
		}
		return args.Op, nil
	})
	m.FieldFunc("fail", func(args struct{ Safe bool }) (int64, error) {
		if args.Safe {
			return 0, graphql.NewSafeError("mutation failed safely")
		}
		return 0, errors.New("mutation failed")
	})

	v := sb.Object("View", View{})
	v.FieldFunc("tag", func(v *View) string { return v.tag })
	v.FieldFunc("n", func(ctx context.Context, v *View) int64 {
		return w.read(ctx, v.tag, "n").(int64)
	})
	v.FieldFunc("s", func(ctx context.Context, v *View) *string {
		return w.read(ctx, v.tag, "s").(*string)
	})
	v.FieldFunc("obj", func(ctx context.Context, v *View) *Obj {
		o := w.read(ctx, v.tag, "obj").(*ObjVal)
		if o == nil {
			return nil
		}
		out := &Obj{A: o.A, B: o.B, L: o.L}
		if o.In != nil {
			out.In = &Inner{C: *o.In}
		}
		return out
	})
	v.FieldFunc("items", func(ctx context.Context, v *View) []*Item {
		ids := w.read(ctx, v.tag, "items").([]int64)
		out := make([]*Item, 0, len(ids))
		for _, id := range ids {
			out = append(out, w.item(v.tag, id))
		}
		return out
	})
	// pick: a nullable keyed object (one of the items, or null)
	v.FieldFunc("pick", func(ctx context.Context, v *View) *Item {
		id := w.read(ctx, v.tag, "pick").(int64)
		if id < 0 {
			return nil
		}
		return w.item(v.tag, id)
	})
	// teams: a list of by-value structs (non-comparable sources) with an
	// Expensive field whose result differs per element
	v.FieldFunc("teams", func(ctx context.Context, v *View) []Team {
		ids := w.read(ctx, v.tag, "teams").([]int64)
		out := make([]Team, 0, len(ids))
		for _, id := range ids {
			out = append(out, Team{Id: id, Members: []string{fmt.Sprintf("m%d", id), "x"}, w: w, tag: v.tag})
		}
		return out
	})
	// vcell: which cell is read depends on an argument (given by variable)
	v.FieldFunc("vcell", func(ctx context.Context, v *View, args struct{ K int64 }) int64 {
		k := args.K % NumVCells
		if k < 0 {
			k = -k
		}
		return w.read(ctx, v.tag, fmt.Sprintf("v:%d", k)).(int64)
	})
	v.FieldFunc("plain", func(ctx context.Context, v *View) []*Plain {
		ps := w.read(ctx, v.tag, "plain").([]PlainVal)
		out := make([]*Plain, 0, len(ps))
		for _, p := range ps {
			out = append(out, &Plain{X: p.X, Y: p.Y})
		}
		return out
	})
	v.FieldFunc("nums", func(ctx context.Context, v *View) []int64 {
		return w.read(ctx, v.tag, "nums").([]int64)
	})
	v.FieldFunc("grid", func(ctx context.Context, v *View) [][]int64 {
		return w.read(ctx, v.tag, "grid").([][]int64)
	})
	v.FieldFunc("ku", func(ctx context.Context, v *View) *KU {
		return uvalKU(w.read(ctx, v.tag, "ku").(UVal))
	})
	v.FieldFunc("mu", func(ctx context.Context, v *View) *MU {
		return uvalMU(w.read(ctx, v.tag, "mu").(UVal))
	})
	v.FieldFunc("mulist", func(ctx context.Context, v *View) []*MU {
		us := w.read(ctx, v.tag, "mulist").([]UVal)
		out := make([]*MU, 0, len(us))
		for _, u := range us {
			out = append(out, uvalMU(u))
		}
		return out
	})
	// lq follows the live-query pattern of livesql: inside the public
	// reactive.Cache, register a dependency (a Resource with a Cleanup) FIRST,
	// then "query" - which fails while the boom cell is non-zero.
	v.FieldFunc("lq", func(ctx context.Context, v *View) (int64, error) {
		if isOracle(ctx) {
			if b := w.cells["boom"].load().(int64); b != 0 {
				return 0, fmt.Errorf("live query failed %d", b)
			}
			return w.cells["lq"].load().(int64), nil
		}
		tag := v.tag
		val, err := reactive.Cache(ctx, lqKey{tag}, func(ctx context.Context) (interface{}, error) {
			n := int(atomic.AddInt64(&w.resSeq, 1))
			r := reactive.NewResource()
			w.Log.Add(Event{Kind: EvResNew, Tag: tag, N: n, Note: "lq"})
			r.Cleanup(func() {
				w.Log.Add(Event{Kind: EvResClean, Tag: tag, N: n})
			})
			reactive.AddDependency(ctx, r, nil)
			x := w.read(ctx, tag, "lq").(int64)
			if b := w.read(ctx, tag, "boom").(int64); b != 0 {
				return nil, fmt.Errorf("live query failed %d", b)
			}
			return x, nil
		})
		if err != nil {
			return 0, err
		}
		return val.(int64), nil
	})
	// timed is time-driven data on a LOGICAL clock (cell "clock", advanced only
	// by the harness): its value is the clock's epoch (clock/ClockEpoch) and
	// it changes when the clock passes the next epoch boundary - the deadline.
	// The resolver follows the README pattern: judge "not yet expired", then
	// register the deadline. The registration is a logical timer (the clock
	// cell's resource, invalidated when the harness advances the clock) - and
	// when the deadline turns out to have passed between the judgement and the
	// registration, reactive.InvalidateAt / InvalidateAfter with a moment that
	// is already over, which must re-run the computation at once.
	v.FieldFunc("timed", func(ctx context.Context, v *View) int64 {
		c := w.cells["clock"]
		l := c.load().(int64)
		if isOracle(ctx) {
			return l / ClockEpoch
		}
		w.Log.Add(Event{Kind: EvResolve, Tag: v.tag, Cell: "clock"})
		// (l is read before the registration on purpose - that is the
		// judge-then-register pattern; it is sound because the clock cell is
		// monotone: whatever happens in between either stays inside the epoch of
		// l or is at/after the deadline and is caught by the check below.)
		deadline := (l/ClockEpoch + 1) * ClockEpoch
		w.gateAt(ctx, v.tag, "clock", 0) // the harness may advance the clock here
		c.register(ctx)                  // logical timer for the deadline
		if l2 := c.load().(int64); l2 >= deadline {
			switch l2 % 3 {
			case 0:
				reactive.InvalidateAt(ctx, time.Now().Add(-time.Duration(l2-deadline+1)*time.Millisecond))
			case 1:
				reactive.InvalidateAfter(ctx, 0)
			default:
				reactive.InvalidateAfter(ctx, -time.Duration(l2-deadline+1)*time.Millisecond)
			}
		}
		return l / ClockEpoch
	})
	v.FieldFunc("pu", func(ctx context.Context, v *View) *PU {
		return uvalPU(w.read(ctx, v.tag, "pu").(UVal))
	})
	v.FieldFunc("kulist", func(ctx context.Context, v *View) []*KU {
		us := w.read(ctx, v.tag, "kulist").([]UVal)
		out := make([]*KU, 0, len(us))
		for _, u := range us {
			out = append(out, uvalKU(u))
		}
		return out
	})
	v.FieldFunc("ulist", func(ctx context.Context, v *View) []*PU {
		us := w.read(ctx, v.tag, "ulist").([]UVal)
		out := make([]*PU, 0, len(us))
		for _, u := range us {
			out = append(out, uvalPU(u))
		}
		return out
	})
	// slow behaves like a resolver that does I/O: it takes a while and gives
	// up with the context's error when the context is cancelled meanwhile.
	v.FieldFunc("slow", func(ctx context.Context, v *View, args struct{ Us int64 }) (int64, error) {
		c := w.cells["slow"]
		if isOracle(ctx) {
			return c.load().(int64), nil
		}
		w.Log.Add(Event{Kind: EvResolve, Tag: v.tag, Cell: "slow"})
		c.register(ctx)
		w.gateAt(ctx, v.tag, "slow", 0)
		if args.Us > 0 {
			t := time.NewTimer(time.Duration(args.Us) * time.Microsecond)
			select {
			case <-t.C:
			case <-ctx.Done():
			}
			t.Stop()
		}
		x := c.load().(int64)
		w.gateAt(ctx, v.tag, "slow", 1)
		if err := ctx.Err(); err != nil {
			return 0, err
		}
		return x, nil
	})
	v.FieldFunc("exp", func(ctx context.Context, v *View) int64 {
		return w.read(ctx, v.tag, "exp").(int64)
	}, schemabuilder.Expensive)
	// boom fails while the cell is non-zero; the value selects the error
	// shape (BoomShapes). Shapes 3-5 are what a resolver returns when a
	// downstream call was cancelled / timed out on a context the RESOLVER
	// owns: the error wraps context.Canceled / DeadlineExceeded although the
	// subscription's own context is alive.
	v.FieldFunc("boom", func(ctx context.Context, v *View) (int64, error) {
		switch b := w.read(ctx, v.tag, "boom").(int64); b {
		case 0:
			return 0, nil
		case 2:
			return 0, graphql.NewSafeError("safe boom")
		case 3:
			sub, cancel := context.WithCancel(context.Background())
			cancel()
			return 0, fmt.Errorf("downstream call: %w", sub.Err())
		case 4:
			sub, cancel := context.WithDeadline(context.Background(), time.Unix(0, 0))
			defer cancel()
			<-sub.Done()
			return 0, fmt.Errorf("downstream call: %w", sub.Err())
		case 5:
			sub, cancel := context.WithCancel(context.Background())
			cancel()
			return 0, graphql.WrapAsSafeError(fmt.Errorf("pool: %w", sub.Err()), "backend unavailable")
		default:
			return 0, fmt.Errorf("boom %d", b)
		}
	})
	v.FieldFunc("res", func(ctx context.Context, v *View) int64 {
		x := w.read(ctx, v.tag, "r").(int64)
		if isOracle(ctx) {
			return x
		}
		n := int(atomic.AddInt64(&w.resSeq, 1))
		tag := v.tag
		r := reactive.NewResource()
		w.Log.Add(Event{Kind: EvResNew, Tag: tag, N: n})
		r.Cleanup(func() {
			w.Log.Add(Event{Kind: EvResClean, Tag: tag, N: n})
		})
		reactive.AddDependency(ctx, r, nil)
		return x
	})

	it := sb.Object("Item", Item{})
	it.FieldFunc("name", func(ctx context.Context, i *Item) string {
		return i.w.read(ctx, i.tag, fmt.Sprintf("item:%d", i.Id)).(ItemVal).Name
	})
	it.FieldFunc("w", func(ctx context.Context, i *Item) int64 {
		return i.w.read(ctx, i.tag, fmt.Sprintf("item:%d", i.Id)).(ItemVal).W
	})
	it.FieldFunc("kids", func(ctx context.Context, i *Item) []*Item {
		ids := i.w.read(ctx, i.tag, fmt.Sprintf("kids:%d", i.Id%2)).([]int64)
		out := make([]*Item, 0, len(ids))
		for _, id := range ids {
			out = append(out, i.w.item(i.tag, id))
		}
		return out
	})
	// cost: an Expensive field on a list element / nullable object; it goes
	// through reactive.Cache, keyed by the (interned) item
	it.FieldFunc("cost", func(ctx context.Context, i *Item) int64 {
		return i.w.read(ctx, i.tag, fmt.Sprintf("item:%d", i.Id)).(ItemVal).W
	}, schemabuilder.Expensive)
	// detail / scaled: Expensive OBJECT-valued fields. Items are interned, so a
	// query reaches the same source pointer along several paths (items, pick,
	// kids, the same list under two aliases) and may select these fields there
	// under the same response key with different sub-selections or arguments.
	it.FieldFunc("detail", func(ctx context.Context, i *Item) *Detail {
		iv := i.w.read(ctx, i.tag, fmt.Sprintf("item:%d", i.Id)).(ItemVal)
		return &Detail{Name: iv.Name, W: iv.W}
	}, schemabuilder.Expensive)
	it.FieldFunc("scaled", func(ctx context.Context, i *Item, args struct{ By int64 }) *Detail {
		iv := i.w.read(ctx, i.tag, fmt.Sprintf("item:%d", i.Id)).(ItemVal)
		return &Detail{Name: iv.Name, W: iv.W * args.By}
	}, schemabuilder.Expensive)
	sb.Object("Detail", Detail{})
	tm := sb.Object("Team", Team{})
	tm.FieldFunc("size", func(ctx context.Context, t Team) int64 {
		return t.w.read(ctx, t.tag, fmt.Sprintf("team:%d", t.Id)).(int64)
	}, schemabuilder.Expensive)
	sb.Object("Obj", Obj{})
	sb.Object("Inner", Inner{})
	sb.Object("Plain", Plain{})
	sb.Object("KA", KA{})
	sb.Object("KB", KB{})
	sb.Object("PA", PA{})
	sb.Object("PB", PB{})
	w.extendSchema(sb) // rich.go: additive fields (rich unions, snapshot-style reads)
	return sb.MustBuild()
}

// Expected runs query against the current data with thunder's own executor,
// outside any rerunner, and returns the JSON form of the result.
func (w *World) Expected(query string, vars map[string]interface{}) (interface{}, error) {
	q, err := graphql.Parse(query, vars)
	if err != nil {
		return nil, err
	}
	if err := graphql.PrepareQuery(context.Background(), w.Schema.Query, q.SelectionSet); err != nil {
		return nil, err
	}
	ctx := batch.WithBatching(OracleCtx(context.Background()))
	e := graphql.NewExecutor(graphql.NewImmediateGoroutineScheduler())
	return e.Execute(ctx, w.Schema.Query, nil, q)
}

// SubLogger records SubscriptionLogger calls in the log.
type SubLogger struct{ Log *Log }

func (l *SubLogger) Subscribe(ctx context.Context, id string, tags map[string]string) {
	l.Log.Add(Event{Kind: EvLogSub, ID: id})
}
func (l *SubLogger) Unsubscribe(ctx context.Context, id string) {
	l.Log.Add(Event{Kind: EvLogUnsub, ID: id})
}

// ExecLogger records GraphqlLogger calls in the log.
type ExecLogger struct{ Log *Log }

func (l *ExecLogger) StartExecution(ctx context.Context, tags map[string]string, initial bool) {
	n := 0
	if initial {
		n = 1
	}
	l.Log.Add(Event{Kind: EvExecStart, ID: tags["id"], N: n, Note: tags["queryType"]})
}
func (l *ExecLogger) FinishExecution(ctx context.Context, tags map[string]string, delay time.Duration) {
	l.Log.Add(Event{Kind: EvExecFinish, ID: tags["id"], Note: tags["queryType"]})
}
func (l *ExecLogger) Error(ctx context.Context, err error, tags map[string]string) {
	l.Log.Add(Event{Kind: EvLogError, ID: tags["id"], Note: tags["retry"]})
}
