package wsclient

import (
	"fmt"
	"sort"
	"strconv"
	"strings"

	"github.com/samsarahq/thunder/merge"
	"github.com/samsarahq/thunder/verifharness/vlib"
)

// FoldResult is the state of a client that started from nothing and applied
// the given update messages in order, once with the port of
// client/src/merge.ts (the documented client) and once with merge.Merge.
type FoldResult struct {
	TS    interface{}
	TSErr error
	Go    interface{}
	GoErr error
	N     int
}

// Fold applies the update messages (JSON form) in order, starting from
// nothing (JavaScript undefined / Go nil).
func Fold(updates []interface{}) FoldResult {
	var fr FoldResult
	var ts interface{} = vlib.Undefined{}
	var gv interface{}
	for _, u := range updates {
		fr.N++
		if fr.TSErr == nil {
			var orig interface{} = ts
			if _, undef := ts.(vlib.Undefined); undef {
				orig = nil
			}
			v, err := vlib.MergeTS(orig, vlib.DeepCopyJSON(u))
			if err != nil {
				fr.TSErr = fmt.Errorf("update %d: %v", fr.N, err)
			} else {
				ts = v
			}
		}
		if fr.GoErr == nil {
			func() {
				defer func() {
					if p := recover(); p != nil {
						fr.GoErr = fmt.Errorf("update %d: merge.Merge panicked: %v", fr.N, p)
					}
				}()
				v, err := merge.Merge(gv, vlib.DeepCopyJSON(u))
				if err != nil {
					fr.GoErr = fmt.Errorf("update %d: %v", fr.N, err)
					return
				}
				gv = v
			}()
		}
	}
	fr.TS, fr.Go = ts, gv
	return fr
}

// IsFullUpdate reports whether an update message (JSON form) carries a full
// value, i.e. has the form diff.Diff(nil, x): a one-element array wrapping a
// complex value, or a bare scalar. An object is a field-by-field delta and
// an empty array is a removal marker; neither is a full value.
func IsFullUpdate(msg interface{}) bool {
	switch m := msg.(type) {
	case []interface{}:
		return len(m) == 1
	case map[string]interface{}:
		return false
	case nil:
		return false
	default:
		return true // string, float64, bool
	}
}

// DeltaFeatures records which structural features a non-initial delta has:
// "reorder" ($), "removal" ([]), "replace" ([x] of a complex value nested in
// the delta: an object / list appearing or a union member switching),
// "new_element" (-1 in $), "scalar".
func DeltaFeatures(d interface{}, feats map[string]bool) {
	switch d := d.(type) {
	case map[string]interface{}:
		for k, v := range d {
			if k == "$" {
				feats["reorder"] = true
				if arr, ok := v.([]interface{}); ok {
					for _, x := range arr {
						switch x := x.(type) {
						case []interface{}:
							feats["run"] = true
						case float64:
							if x < 0 {
								feats["new_element"] = true
							}
						}
					}
				}
				continue
			}
			DeltaFeatures(v, feats)
		}
	case []interface{}:
		if len(d) == 0 {
			feats["removal"] = true
		} else if len(d) == 1 {
			switch d[0].(type) {
			case map[string]interface{}:
				feats["replace_object"] = true
			case []interface{}:
				feats["replace_list"] = true
			case nil:
				feats["replace_null"] = true
			}
		}
	default:
		feats["scalar"] = true
	}
}

// Structural reports whether the feature set contains a structural delta
// (reorder / appear / disappear / switch).
func Structural(feats map[string]bool) bool {
	return feats["reorder"] || feats["removal"] || feats["replace_object"] || feats["replace_list"] || feats["replace_null"]
}

// DeltaShape abstracts a delta to its structure (scalars collapse to kinds,
// numeric keys to '#').
func DeltaShape(d interface{}) string {
	var sb strings.Builder
	deltaShape(d, &sb)
	return sb.String()
}

func deltaShape(d interface{}, sb *strings.Builder) {
	switch d := d.(type) {
	case map[string]interface{}:
		ks := make([]string, 0, len(d))
		for k := range d {
			ks = append(ks, k)
		}
		sort.Strings(ks)
		sb.WriteString("{")
		lastNum := false
		for _, k := range ks {
			if k == "$" {
				sb.WriteString("$")
				if arr, ok := d[k].([]interface{}); ok {
					for _, x := range arr {
						switch x := x.(type) {
						case []interface{}:
							sb.WriteString("R")
						case float64:
							if x < 0 {
								sb.WriteString("-")
							} else {
								sb.WriteString("i")
							}
						}
					}
				}
				sb.WriteString(";")
				continue
			}
			if _, err := strconv.Atoi(k); err == nil {
				if lastNum {
					continue // collapse runs of element deltas
				}
				lastNum = true
				sb.WriteString("#:")
			} else {
				lastNum = false
				sb.WriteString(k + ":")
			}
			deltaShape(d[k], sb)
		}
		sb.WriteString("}")
	case []interface{}:
		if len(d) == 0 {
			sb.WriteString("[]")
		} else {
			switch d[0].(type) {
			case map[string]interface{}:
				sb.WriteString("[o]")
			case []interface{}:
				sb.WriteString("[a]")
			case nil:
				sb.WriteString("[n]")
			default:
				sb.WriteString("[s]")
			}
		}
	default:
		sb.WriteString("s")
	}
}
