package wsclient

// Additive extensions of the World schema and of the data generator (used by
// C02 through QueryOpts.Rich / QueryOpts.Snap; nothing here is reached by a
// generator call that does not ask for it, and none of it draws from the
// generator's PRNG unless asked):
//
//   - "rich" unions: members that themselves hold nullable OBJECT-typed and
//     nullable UNION-typed fields, some shared by both members and some owned
//     by one member only, as a keyed union (ru), a key-less union (su) and
//     lists of both (rulist, sulist). A member switch that keeps the identity
//     (same __key / no key) is diffed field by field, and the fields of the
//     new member appear - as an object, as a union value, or as null.
//   - snapshot-style reads: a resolver takes (value, resource) atomically and
//     only then registers the resource (the contract of per-version resources
//     that are permanently invalidated by the next write - what
//     reactive.InvalidateAfter-style stores do). A write may land between the
//     snapshot and the registration (gate phase 2); the dependency is then
//     added to an already-invalidated resource and the computation must still
//     re-run. Such reads exist at the top level (nsnap), on list elements
//     (wsnap) and as field funcs of an object returned by an Expensive field
//     (info { w name }), whose resolvers run as separate work units after the
//     cached computation was handed to its parent.

import (
	"context"
	"fmt"
	"math/rand"
	"strings"

	"github.com/samsarahq/thunder/graphql/schemabuilder"
	"github.com/samsarahq/thunder/reactive"
)

// GatePreRegister is the gate phase "snapshot taken, dependency not yet
// registered" (only reached by snapshot-style reads of cells that do not
// notify by Strobe).
const GatePreRegister = 2

// RVal is the value of a rich union cell.
type RVal struct {
	Kind  string // "A", "B" or "" (null)
	ID    int64
	N     int64
	Owner *int64 // both members: nullable object
	Own   *int64 // member-specific nullable object (A: chief, B: boss)
	Peer  UVal   // member B only: nullable union (Kind "" = null)
}

type RA struct {
	Id    int64 `graphql:"id,key"`
	A     int64
	Owner *Inner
	Chief *Inner
}
type RB struct {
	Id    int64 `graphql:"id,key"`
	B     int64
	Owner *Inner
	Boss  *Inner
	Peer  *PU
}
type RU struct {
	schemabuilder.Union
	*RA
	*RB
}
type SA struct {
	A     int64
	Owner *Inner
	Chief *Inner
}
type SB struct {
	B     int64
	Owner *Inner
	Boss  *Inner
	Peer  *PU
}
type SU struct {
	schemabuilder.Union
	*SA
	*SB
}

// Info is the object value of Item's Expensive field info; its own fields are
// field funcs that read the item's cell snapshot-style.
type Info struct {
	Id int64
	it *Item
}

func innerOf(p *int64) *Inner {
	if p == nil {
		return nil
	}
	return &Inner{C: *p}
}

func rvalRU(u RVal) *RU {
	switch u.Kind {
	case "A":
		return &RU{RA: &RA{Id: u.ID, A: u.N, Owner: innerOf(u.Owner), Chief: innerOf(u.Own)}}
	case "B":
		return &RU{RB: &RB{Id: u.ID, B: u.N, Owner: innerOf(u.Owner), Boss: innerOf(u.Own), Peer: uvalPU(u.Peer)}}
	}
	return nil
}

func rvalSU(u RVal) *SU {
	switch u.Kind {
	case "A":
		return &SU{SA: &SA{A: u.N, Owner: innerOf(u.Owner), Chief: innerOf(u.Own)}}
	case "B":
		return &SU{SB: &SB{B: u.N, Owner: innerOf(u.Owner), Boss: innerOf(u.Own), Peer: uvalPU(u.Peer)}}
	}
	return nil
}

// snapshot returns the current value together with the resource that guards
// exactly this version of it, atomically; the caller registers the resource
// afterwards. Not for ModeStrobe cells (a strobe that fires before the
// registration is gone for good - that would be the harness losing the
// notification, not thunder).
func (c *cell) snapshot() (interface{}, *reactive.Resource) {
	c.mu.Lock()
	defer c.mu.Unlock()
	if c.mode == ModeFresh {
		r := reactive.NewResource()
		r.Cleanup(func() {
			c.mu.Lock()
			delete(c.live, r)
			c.mu.Unlock()
		})
		c.live[r] = struct{}{}
		return c.val, r
	}
	if c.res == nil {
		r := reactive.NewResource()
		r.Cleanup(func() {
			c.mu.Lock()
			if c.res == r {
				c.res = nil
			}
			c.mu.Unlock()
		})
		c.res = r
	}
	return c.val, c.res
}

// readSnap is the snapshot-style resolver-side access to a cell: log, take
// (value, resource), (gate), register.
func (w *World) readSnap(ctx context.Context, tag, name string) interface{} {
	c := w.cells[name]
	if c == nil {
		panic("wsclient: unknown cell " + name)
	}
	if isOracle(ctx) {
		return c.load()
	}
	if c.mode == ModeStrobe {
		return w.read(ctx, tag, name)
	}
	w.Log.Add(Event{Kind: EvResolve, Tag: tag, Cell: name})
	v, r := c.snapshot()
	w.gateAt(ctx, tag, name, GatePreRegister)
	reactive.AddDependency(ctx, r, nil)
	return v
}

// extendSchema adds the rich unions and the snapshot-style fields.
func (w *World) extendSchema(sb *schemabuilder.Schema) {
	v := sb.Object("View", View{})
	v.FieldFunc("ru", func(ctx context.Context, v *View) *RU {
		return rvalRU(w.read(ctx, v.tag, "ru").(RVal))
	})
	v.FieldFunc("su", func(ctx context.Context, v *View) *SU {
		return rvalSU(w.read(ctx, v.tag, "su").(RVal))
	})
	v.FieldFunc("rulist", func(ctx context.Context, v *View) []*RU {
		us := w.read(ctx, v.tag, "rulist").([]RVal)
		out := make([]*RU, 0, len(us))
		for _, u := range us {
			out = append(out, rvalRU(u))
		}
		return out
	})
	v.FieldFunc("sulist", func(ctx context.Context, v *View) []*SU {
		us := w.read(ctx, v.tag, "sulist").([]RVal)
		out := make([]*SU, 0, len(us))
		for _, u := range us {
			out = append(out, rvalSU(u))
		}
		return out
	})
	v.FieldFunc("nsnap", func(ctx context.Context, v *View) int64 {
		return w.readSnap(ctx, v.tag, "n").(int64)
	})
	sb.Object("RA", RA{})
	sb.Object("RB", RB{})
	sb.Object("SA", SA{})
	sb.Object("SB", SB{})

	it := sb.Object("Item", Item{})
	it.FieldFunc("wsnap", func(ctx context.Context, i *Item) int64 {
		return i.w.readSnap(ctx, i.tag, fmt.Sprintf("item:%d", i.Id)).(ItemVal).W
	})
	// info: an Expensive field that itself reads nothing; the fields of the
	// object it returns do (as separate work units, under the cached
	// computation's context)
	it.FieldFunc("info", func(ctx context.Context, i *Item) *Info {
		return &Info{Id: i.Id, it: i}
	}, schemabuilder.Expensive)
	info := sb.Object("Info", Info{})
	info.FieldFunc("w", func(ctx context.Context, n *Info) int64 {
		return n.it.w.readSnap(ctx, n.it.tag, fmt.Sprintf("item:%d", n.Id)).(ItemVal).W
	})
	info.FieldFunc("name", func(ctx context.Context, n *Info) string {
		return n.it.w.readSnap(ctx, n.it.tag, fmt.Sprintf("item:%d", n.Id)).(ItemVal).Name
	})
}

// ---- generator side

var richCells = []string{"ru", "su", "rulist", "sulist"}

func isRichCell(name string) bool {
	for _, c := range richCells {
		if c == name {
			return true
		}
	}
	return false
}

// richInit gives the rich cells their initial values. It must not draw from
// g.r (the streams of generators that never ask for rich data stay as they
// were): the values come from a PRNG seeded by data generated before.
func (g *Gen) richInit() {
	seed := int64(17)
	for _, k := range []string{"n", "lq", "clock", "slow", "exp", "pick"} {
		seed = seed*31 + g.state[k].(int64)
	}
	seed = seed*31 + int64(len(g.state["items"].([]int64)))*7 + int64(len(g.state["nums"].([]int64)))
	r := rand.New(rand.NewSource(seed))
	g.state["ru"] = richVal(r, 6)
	g.state["su"] = richVal(r, 3)
	g.state["rulist"] = richList(r, true)
	g.state["sulist"] = richList(r, false)
}

func optInt(r *rand.Rand) *int64 {
	if r.Intn(2) == 0 {
		return nil
	}
	x := int64(r.Intn(4))
	return &x
}

func richPeer(r *rand.Rand) UVal {
	switch r.Intn(4) {
	case 0, 1:
		return UVal{}
	case 2:
		return UVal{Kind: "A", ID: int64(r.Intn(3)), A: int64(r.Intn(4))}
	default:
		return UVal{Kind: "B", ID: int64(r.Intn(3)), B: words[r.Intn(len(words))]}
	}
}

func richMember(r *rand.Rand, kind string, id int64) RVal {
	u := RVal{Kind: kind, ID: id, N: int64(r.Intn(4)), Owner: optInt(r), Own: optInt(r)}
	if kind == "B" {
		u.Peer = richPeer(r)
	}
	return u
}

func richVal(r *rand.Rand, ids int) RVal {
	switch r.Intn(5) {
	case 0:
		return RVal{}
	case 1, 2:
		return richMember(r, "A", int64(r.Intn(ids)))
	default:
		return richMember(r, "B", int64(r.Intn(ids)))
	}
}

func richList(r *rand.Rand, keyed bool) []RVal {
	n := r.Intn(5)
	out := make([]RVal, 0, n)
	used := map[int64]bool{}
	for i := 0; i < n; i++ {
		u := richVal(r, 8)
		if keyed {
			if u.Kind == "" || used[u.ID] {
				continue // keyed lists hold distinct keys and no nulls
			}
			used[u.ID] = true
		}
		out = append(out, u)
	}
	return out
}

// richEditOne changes one non-null rich value in place: member switch keeping
// the identity, a nullable field of the member toggling between null and an
// object / union value, a nested union switching member, or a scalar change.
func richEditOne(r *rand.Rand, u RVal) RVal {
	switch r.Intn(6) {
	case 0, 1: // member switch, id kept: the new member's nullable fields are fresh (often null)
		k := "A"
		if u.Kind == "A" {
			k = "B"
		}
		nu := richMember(r, k, u.ID)
		if r.Intn(2) == 0 {
			nu.Owner = u.Owner // the shared field keeps its value
		}
		return nu
	case 2:
		if u.Owner == nil {
			x := int64(r.Intn(4))
			u.Owner = &x
		} else {
			u.Owner = nil
		}
	case 3:
		if u.Own == nil {
			x := int64(r.Intn(4))
			u.Own = &x
		} else {
			u.Own = nil
		}
	case 4:
		if u.Kind == "B" {
			switch u.Peer.Kind {
			case "":
				u.Peer = UVal{Kind: "A", ID: int64(r.Intn(3)), A: int64(r.Intn(4))}
			case "A":
				if r.Intn(2) == 0 {
					u.Peer = UVal{Kind: "B", ID: u.Peer.ID, B: words[r.Intn(len(words))]}
				} else {
					u.Peer = UVal{}
				}
			default:
				if r.Intn(2) == 0 {
					u.Peer = UVal{Kind: "A", ID: u.Peer.ID, A: int64(r.Intn(4))}
				} else {
					u.Peer = UVal{}
				}
			}
		} else {
			u.N++
		}
	default:
		u.N++
	}
	return u
}

// richEdit is OpOn for the rich cells.
func (g *Gen) richEdit(name string, old interface{}) interface{} {
	r := g.r
	switch name {
	case "ru", "su":
		ids := 6
		if name == "su" {
			ids = 3
		}
		u := old.(RVal)
		switch x := r.Intn(8); {
		case x == 0:
			return RVal{}
		case x == 1 || u.Kind == "":
			return richVal(r, ids)
		default:
			return richEditOne(r, u)
		}
	}
	keyed := name == "rulist"
	a := append([]RVal{}, old.([]RVal)...)
	switch r.Intn(8) {
	case 0: // insert
		u := richVal(r, 8)
		ok := true
		if keyed {
			if u.Kind == "" {
				ok = false
			}
			for _, x := range a {
				if x.ID == u.ID {
					ok = false
				}
			}
		}
		if ok {
			i := r.Intn(len(a) + 1)
			a = append(a[:i:i], append([]RVal{u}, a[i:]...)...)
		}
	case 1:
		if len(a) > 0 {
			i := r.Intn(len(a))
			a = append(a[:i:i], a[i+1:]...)
		}
	case 2, 3, 4: // one element changes in place
		if len(a) > 0 {
			i := r.Intn(len(a))
			if a[i].Kind != "" {
				a[i] = richEditOne(r, a[i])
			} else if !keyed {
				a[i] = richVal(r, 8)
			}
		}
	case 5:
		for i, j := 0, len(a)-1; i < j; i, j = i+1, j-1 {
			a[i], a[j] = a[j], a[i]
		}
	case 6:
		r.Shuffle(len(a), func(i, j int) { a[i], a[j] = a[j], a[i] })
	default:
		a = richList(r, keyed)
	}
	return a
}

// RichSwitch generates, for one of the two single rich unions, the writes
// "member X with every nullable field set -> other member, same identity,
// with its nullable fields null -> its fields appear one by one -> back".
func (g *Gen) RichSwitch() ([]int, string) {
	r := g.r
	name := []string{"ru", "su"}[r.Intn(2)]
	id := int64(r.Intn(3))
	one, two := int64(1), int64(2)
	first, second := "A", "B"
	if r.Intn(2) == 0 {
		first, second = "B", "A"
	}
	full := func(k string) RVal {
		u := RVal{Kind: k, ID: id, N: int64(r.Intn(4)), Owner: &one, Own: &two}
		if k == "B" {
			u.Peer = UVal{Kind: "A", ID: 1, A: 3}
		}
		return u
	}
	bare := func(k string) RVal { return RVal{Kind: k, ID: id, N: int64(r.Intn(4))} }
	ops := []int{
		g.AddOp(Op{Cell: name, Val: full(first)}),
		g.AddOp(Op{Cell: name, Val: bare(second)}),
	}
	if r.Intn(2) == 0 {
		u := bare(second)
		u.Own = &one
		ops = append(ops, g.AddOp(Op{Cell: name, Val: u}))
		if r.Intn(2) == 0 {
			ops = append(ops, g.AddOp(Op{Cell: name, Val: full(second)}), g.AddOp(Op{Cell: name, Val: bare(first)}))
		}
	}
	return ops, name
}

// SnapRace generates the writes for "the data of an item changes between a
// resolver's snapshot of it and the registration of the snapshot's resource":
// pre (make sure the item is an element of `items`), the cell, the trigger
// write and the write that lands in between.
func (g *Gen) SnapRace() (pre []int, cellName string, trigger, landing int) {
	ids := g.state["items"].([]int64)
	if len(ids) == 0 {
		ids = []int64{int64(g.r.Intn(NumItems))}
		pre = append(pre, g.AddOp(Op{Cell: "items", Val: ids}))
	}
	x := ids[g.r.Intn(len(ids))]
	cellName = fmt.Sprintf("item:%d", x)
	bump := func() int {
		iv := g.state[cellName].(ItemVal)
		iv.W += 100
		iv.Name = strings.TrimRight(iv.Name, "'") + "'"
		return g.AddOp(Op{Cell: cellName, Val: iv})
	}
	trigger = bump()
	landing = bump()
	return pre, cellName, trigger, landing
}

// richParts returns the selections added for QueryOpts.Rich.
func (g *Gen) richParts() ([]string, []string) {
	r := g.r
	peer := "peer { __typename ... on PA { a } ... on PB { b same } }"
	if r.Intn(2) == 0 {
		peer = "peer { ... on PA { a same } ... on PB { b } }"
	}
	member := func(a, b string) string {
		switch r.Intn(3) {
		case 0:
			return fmt.Sprintf("__typename ... on %s { a owner { c } chief { c } } ... on %s { b owner { c } boss { c } %s }", a, b, peer)
		case 1: // the member-specific fields only
			return fmt.Sprintf("... on %s { a chief { c } } ... on %s { boss { c } %s }", a, b, peer)
		default:
			return fmt.Sprintf("... on %s { owner { c } } ... on %s { b owner { c } boss { c } %s __typename }", a, b, peer)
		}
	}
	keyed := member("RA", "RB")
	if r.Intn(2) == 0 {
		keyed = strings.Replace(strings.Replace(keyed, "on RA {", "on RA { id", 1), "on RB {", "on RB { id", 1)
	}
	var parts, cells []string
	all := []struct{ text, cell string }{
		{"ru { " + keyed + " }", "ru"},
		{"su { " + member("SA", "SB") + " }", "su"},
		{"rulist { " + member("RA", "RB") + " }", "rulist"},
		{"sulist { " + member("SA", "SB") + " }", "sulist"},
	}
	first := r.Intn(len(all))
	for i, p := range all {
		if i == first || r.Intn(2) == 0 {
			parts = append(parts, p.text)
			cells = append(cells, p.cell)
		}
	}
	return parts, cells
}

// snapParts returns the selections added for QueryOpts.Snap.
func (g *Gen) snapParts() ([]string, []string) {
	r := g.r
	cells := []string{"items"}
	for i := 0; i < NumItems; i++ {
		cells = append(cells, fmt.Sprintf("item:%d", i))
	}
	var parts []string
	switch r.Intn(4) {
	case 0:
		parts = append(parts, "si: items { id info { w } }")
	case 1:
		parts = append(parts, "si: items { id info { id name w } }")
	case 2:
		parts = append(parts, "si: items { info { name } kids { id info { w } } }")
		cells = append(cells, "kids:0", "kids:1")
	default:
		parts = append(parts, "si: items { id wsnap info { w } }")
	}
	if r.Intn(3) == 0 {
		parts = append(parts, "sp: pick { id info { w name } }")
		cells = append(cells, "pick")
	}
	if r.Intn(3) == 0 {
		parts = append(parts, "nsnap")
		cells = append(cells, "n")
	}
	return parts, cells
}
