package wsclient

import (
	"encoding/json"
	"math/rand"
	"testing"
)

// TestWorldSchema: the schema builds, every generated query prepares and
// executes, and operations change the result.
func TestWorldSchema(t *testing.T) {
	for seed := int64(0); seed < 30; seed++ {
		r := rand.New(rand.NewSource(seed))
		g := NewGen(r)
		w := NewWorld(NewLog(), g.Init(), nil, int(seed%3))
		for i := 0; i < 20; i++ {
			g.NextOp(nil)
		}
		w.SetOps(g.Ops())
		q, _ := g.GenQuery("t1", QueryOpts{Boom: seed%2 == 0, Res: true, Slow: true})
		v, err := w.Expected(q, nil)
		if err != nil {
			t.Fatalf("seed %d query %s: %v", seed, q, err)
		}
		for i := range g.Ops() {
			w.Apply(i, "test")
			if _, err := w.Expected(q, nil); err != nil {
				t.Fatalf("seed %d query %s after op %d: %v", seed, q, i, err)
			}
		}
		vq, vars, _ := g.GenVarQuery("t2", QueryOpts{})
		if _, err := w.Expected(vq, vars); err != nil {
			t.Fatalf("seed %d var query %s %v: %v", seed, vq, vars, err)
		}
		if seed < 3 {
			b, _ := json.Marshal(v)
			t.Logf("%s -> %s", q, b)
		}
	}
}
