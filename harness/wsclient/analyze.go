package wsclient

import "fmt"

// Instance is one accepted subscription: a SubscriptionLogger.Subscribe call
// observed inside the handle window of a subscribe message.
type Instance struct {
	ID     string                 `json:"id"`
	Tag    string                 `json:"tag"`
	Query  string                 `json:"query"`
	Vars   map[string]interface{} `json:"vars,omitempty"`
	MsgK   int                    `json:"msgK"`
	SubSeq int                    `json:"subSeq"`

	EndSeq      int    `json:"endSeq"`  // -1: still live at the end of the log
	EndKind     string `json:"endKind"` // log-unsub | unsub-processed | serve-return
	EndCause    string `json:"endCause,omitempty"`
	UnsubLogSeq int    `json:"unsubLogSeq"` // seq of the logger Unsubscribe attributed to it, -1 if none
	UnsubLogs   int    `json:"unsubLogs"`

	Envelopes []int `json:"envelopes"` // seqs of write events with this id while it was live

	LiveAtReadError bool `json:"liveAtReadError,omitempty"`
	PriorSameID     bool `json:"priorSameId,omitempty"` // an earlier subscription or mutation used the same id
	CollidedBy      int  `json:"collidedBy,omitempty"`  // 1+k of a mutate message with the same id read while live
}

// Anomaly is a rule hit found while replaying the log. Which anomalies are
// violations is decided by the property monitors.
type Anomaly struct {
	Rule   string    `json:"rule"`
	Seq    int       `json:"seq"`
	ID     string    `json:"id,omitempty"`
	Tag    string    `json:"tag,omitempty"`
	Detail string    `json:"detail,omitempty"`
	Inst   *Instance `json:"instance,omitempty"`
}

type resInfo struct {
	Tag    string
	N      int
	NewSeq int
	Cleans []int
}

// Analysis is the replay of one merged log.
type Analysis struct {
	Events    []Event
	Meta      []MsgMeta
	Max       int
	Instances []*Instance
	Anomalies []Anomaly

	ReturnSeq    map[int]int // k -> seq of read-return(k)
	NextEnterSeq map[int]int // k -> seq of read-enter(k+1)

	ServeReturnSeq int
	ReadErrorSeq   int
	CtxCancelSeq   int
	MaxLive        int
	StrayMutUnsubs int
	LateUnsubLogs  int

	ResolveByTag map[string][]int
	Res          map[string]*resInfo // key tag/n
	ExecStarts   map[string][]int    // id -> seqs of exec-start
	ByTag        map[string]*Instance
	// MutCollision: ids for which a mutate message was read while a
	// subscription or another mutation with the same id was registered.
	MutCollision map[string]bool
}

func (a *Analysis) anomaly(rule string, seq int, id string, inst *Instance, detail string) {
	an := Anomaly{Rule: rule, Seq: seq, ID: id, Inst: inst, Detail: detail}
	if inst != nil {
		an.Tag = inst.Tag
	}
	a.Anomalies = append(a.Anomalies, an)
}

// Has reports whether an anomaly of the given rule was found.
func (a *Analysis) Has(rule string) bool {
	for _, x := range a.Anomalies {
		if x.Rule == rule {
			return true
		}
	}
	return false
}

// Analyze replays the log. max is the connection's subscription limit.
//
// Liveness of an id follows the server's own declarations at the API
// boundary: an instance starts at its logger Subscribe and ends at the first
// of: logger Unsubscribe(id); read-enter(k+1) for an unsubscribe message k
// with that id that was read while the instance was live (the server has
// processed the unsubscribe); ServeJSONSocket returned.
func Analyze(events []Event, meta []MsgMeta, max int) *Analysis {
	a := &Analysis{Events: events, Meta: meta, Max: max,
		ReturnSeq: map[int]int{}, NextEnterSeq: map[int]int{},
		ServeReturnSeq: -1, ReadErrorSeq: -1, CtxCancelSeq: -1,
		ResolveByTag: map[string][]int{}, Res: map[string]*resInfo{}, ExecStarts: map[string][]int{}, ByTag: map[string]*Instance{}, MutCollision: map[string]bool{}}
	live := map[string]*Instance{}
	openMut := map[string]int{}
	mutIDs := map[string]bool{}
	usedIDs := map[string]bool{}
	lastInst := map[string]*Instance{} // id -> most recent instance with that id
	// origin guesses which subscription an anomalous envelope for id comes
	// from: a subscription whose map entry was overwritten by a colliding
	// mutate (its rerunner is the one nobody can stop) if there is one, else
	// the one that ended last, else the most recent one.
	origin := func(id string, ended map[string]*Instance) *Instance {
		for _, inst := range a.Instances {
			if inst.ID == id && inst.CollidedBy != 0 {
				return inst
			}
		}
		if inst := ended[id]; inst != nil {
			return inst
		}
		return lastInst[id]
	}
	deadSince := map[string]int{}        // id -> seq of unsub-processed, until re-subscribed
	endedIDs := map[string]*Instance{}   // id -> instance that ended, until a message with that id is read
	pendingLog := map[string]*Instance{} // id -> ended instance that still lacks its logger Unsubscribe
	curK := -1
	var winDup *Instance
	winCnt, winErr, winUnsubs, winSubs := 0, 0, 0, 0
	served := false

	end := func(inst *Instance, seq int, kind, cause string) {
		inst.EndSeq, inst.EndKind, inst.EndCause = seq, kind, cause
		delete(live, inst.ID)
		endedIDs[inst.ID] = inst
	}
	metaOf := func(k int) MsgMeta {
		if k >= 0 && k < len(meta) {
			return meta[k]
		}
		return MsgMeta{K: k}
	}

	for i := range events {
		e := &events[i]
		switch e.Kind {
		case EvReadReturn:
			curK = e.K
			a.ReturnSeq[e.K] = e.Seq
			delete(endedIDs, e.ID)
			winDup, winCnt, winErr, winUnsubs, winSubs = nil, len(live), 0, 0, 0
			switch e.Type {
			case "mutate":
				if openMut[e.ID] > 0 || live[e.ID] != nil {
					a.MutCollision[e.ID] = true
				}
				mutIDs[e.ID] = true
				usedIDs[e.ID] = true
				openMut[e.ID]++
				if inst := live[e.ID]; inst != nil && inst.CollidedBy == 0 {
					inst.CollidedBy = 1 + e.K
				}
			case "subscribe":
				winDup = live[e.ID]
				delete(deadSince, e.ID)
			}
		case EvReadEnter:
			if e.K > 0 {
				prev := e.K - 1
				a.NextEnterSeq[prev] = e.Seq
				m := metaOf(prev)
				if _, ok := a.ReturnSeq[prev]; ok {
					switch m.Type {
					case "unsubscribe":
						if inst := live[m.ID]; inst != nil && inst.SubSeq < a.ReturnSeq[prev] {
							end(inst, e.Seq, "unsub-processed", "unsubscribe")
							pendingLog[m.ID] = inst
							a.anomaly("unsub-no-log", e.Seq, m.ID, inst, "unsubscribe processed, instance still live by the logger's account")
						}
						deadSince[m.ID] = e.Seq
					case "subscribe":
						if winDup != nil && live[m.ID] == winDup {
							if winErr == 0 {
								a.anomaly("duplicate-subscribe-no-error", e.Seq, m.ID, winDup, fmt.Sprintf("subscribe message %d reused a live id and got no error envelope", prev))
							}
						} else if winDup == nil && max > 0 && winCnt >= max && winUnsubs == 0 {
							if winSubs == 0 && winErr == 0 {
								a.anomaly("over-limit-no-error", e.Seq, m.ID, nil, fmt.Sprintf("subscribe message %d arrived with %d live subscriptions (max %d) and got neither Subscribe nor error", prev, winCnt, max))
							}
						}
					}
				}
			}
			curK = -1
		case EvReadError:
			a.ReadErrorSeq = e.Seq
			for _, inst := range live {
				inst.LiveAtReadError = true
			}
			curK = -1
		case EvCtxCancel:
			a.CtxCancelSeq = e.Seq
		case EvLogSub:
			m := metaOf(curK)
			inst := &Instance{ID: e.ID, MsgK: curK, SubSeq: e.Seq, EndSeq: -1, UnsubLogSeq: -1, PriorSameID: usedIDs[e.ID]}
			usedIDs[e.ID] = true
			if curK < 0 || m.Type != "subscribe" || m.ID != e.ID {
				a.anomaly("subscribe-log-outside-window", e.Seq, e.ID, nil, "logger Subscribe outside the handle window of a subscribe message with that id")
			} else {
				inst.Tag, inst.Query, inst.Vars = m.Tag, m.Query, m.Vars
			}
			if old := live[e.ID]; old != nil {
				a.anomaly("second-subscribe-live", e.Seq, e.ID, old, "logger Subscribe for an id that is live")
				end(old, e.Seq, "superseded", "")
			}
			live[e.ID] = inst
			lastInst[e.ID] = inst
			delete(endedIDs, e.ID)
			a.Instances = append(a.Instances, inst)
			if inst.Tag != "" {
				a.ByTag[inst.Tag] = inst
			}
			winSubs++
			if len(live) > a.MaxLive {
				a.MaxLive = len(live)
			}
			if max > 0 && len(live) > max {
				a.anomaly("limit-exceeded", e.Seq, e.ID, inst, fmt.Sprintf("%d live subscriptions, max %d", len(live), max))
			}
		case EvLogUnsub:
			winUnsubs++
			if inst := live[e.ID]; inst != nil {
				inst.UnsubLogSeq = e.Seq
				inst.UnsubLogs++
				m := metaOf(curK)
				cause := "unexplained"
				switch {
				case curK >= 0 && m.Type == "unsubscribe" && m.ID == e.ID:
					cause = "unsubscribe"
				case a.firstEnvelopeIsError(inst):
					cause = "own-failure"
				case inst.CollidedBy != 0:
					cause = "mutation-id-collision"
				case a.CtxCancelSeq >= 0:
					cause = "ctx-cancel"
				case a.ReadErrorSeq >= 0:
					cause = "closing"
				}
				end(inst, e.Seq, "log-unsub", cause)
			} else if inst := pendingLog[e.ID]; inst != nil {
				inst.UnsubLogSeq = e.Seq
				inst.UnsubLogs++
				delete(pendingLog, e.ID)
				a.LateUnsubLogs++
			} else if mutIDs[e.ID] {
				a.StrayMutUnsubs++
			} else {
				a.anomaly("unsubscribe-log-without-subscribe", e.Seq, e.ID, nil, "logger Unsubscribe for an id with no live subscription and no mutation")
			}
		case EvWrite:
			id := e.ID
			inst := live[id]
			m := metaOf(curK)
			// An envelope written by the goroutine that runs ServeJSONSocket
			// answers the message being handled; it does not belong to the
			// subscription that happens to own the same id.
			sync := e.Sync && curK >= 0
			if sync && e.Type == "error" {
				winErr++
			}
			if sync {
				inst = nil
			}
			if inst != nil {
				inst.Envelopes = append(inst.Envelopes, e.Seq)
			}
			if served {
				a.anomaly("write-after-serve-return", e.Seq, id, origin(id, endedIDs), e.Type)
			}
			if inst == nil {
				if ended := endedIDs[id]; ended != nil && !served && e.Type != "echo" && !(openMut[id] > 0 && e.Type != "update") && !(sync && e.Type == "error") {
					a.anomaly("envelope-after-end", e.Seq, id, origin(id, endedIDs), e.Type+" envelope for an id whose subscription ended at "+fmt.Sprint(ended.EndSeq))
				}
			}
			switch e.Type {
			case "update":
				if since, dead := deadSince[id]; dead {
					a.anomaly("update-after-unsub-processed", e.Seq, id, origin(id, endedIDs), fmt.Sprintf("update for %q after its unsubscribe was processed at %d", id, since))
				} else if inst == nil {
					a.anomaly("update-for-dead-id", e.Seq, id, origin(id, endedIDs), "update for an id with no live subscription")
				}
			case "result":
				if openMut[id] > 0 {
					openMut[id]--
				} else {
					a.anomaly("result-for-unknown-id", e.Seq, id, nil, "result envelope for an id with no mutation in flight")
				}
			case "error":
				if !(sync || inst != nil || openMut[id] > 0) {
					a.anomaly("error-for-unknown-id", e.Seq, id, nil, "error envelope for an id that is neither being handled, nor live, nor a mutation in flight")
				}
				if openMut[id] > 0 && !(sync && m.Type != "mutate") && (inst == nil || sync) {
					openMut[id]--
				}
			}
		case EvServeReturn:
			served = true
			a.ServeReturnSeq = e.Seq
			for _, inst := range a.Instances {
				if inst.EndSeq < 0 {
					end(inst, e.Seq, "serve-return", "closing")
					pendingLog[inst.ID] = inst
				}
			}
		case EvResolve:
			a.ResolveByTag[e.Tag] = append(a.ResolveByTag[e.Tag], e.Seq)
		case EvResNew:
			a.Res[fmt.Sprintf("%s/%d", e.Tag, e.N)] = &resInfo{Tag: e.Tag, N: e.N, NewSeq: e.Seq}
		case EvResClean:
			if ri := a.Res[fmt.Sprintf("%s/%d", e.Tag, e.N)]; ri != nil {
				ri.Cleans = append(ri.Cleans, e.Seq)
			}
		case EvExecStart:
			a.ExecStarts[e.ID] = append(a.ExecStarts[e.ID], e.Seq)
		}
	}
	return a
}

func (a *Analysis) firstEnvelopeIsError(inst *Instance) bool {
	if len(inst.Envelopes) == 0 {
		return false
	}
	return a.Events[inst.Envelopes[0]].Type == "error"
}

// Updates returns the update messages of an instance, in order (envelopes
// whose write failed are not received by the client).
func (a *Analysis) Updates(inst *Instance) []interface{} {
	var out []interface{}
	for _, s := range inst.Envelopes {
		e := a.Events[s]
		if e.Type == "update" && e.Note == "" {
			out = append(out, e.Msg)
		}
	}
	return out
}

// ClientLive returns the instances the client must still consider live: not
// ended, or ended by the server (logger Unsubscribe) for no reason visible to
// the client - no unsubscribe of its own, no error envelope, no close.
func (a *Analysis) ClientLive() []*Instance {
	var out []*Instance
	for _, inst := range a.Instances {
		if inst.EndSeq < 0 || (inst.EndKind == "log-unsub" && inst.EndCause == "unexplained") {
			out = append(out, inst)
		}
	}
	return out
}

// Live returns the instances that have not ended.
func (a *Analysis) Live() []*Instance {
	var out []*Instance
	for _, inst := range a.Instances {
		if inst.EndSeq < 0 {
			out = append(out, inst)
		}
	}
	return out
}
