// Package wsclient is the shared websocket client model of the harness: a
// scripted graphql.JSONSocket, one mutex-ordered event log shared by the
// socket, the store, the resolvers and the loggers, a client that folds
// `update` envelopes, and a mutable in-memory world (store + schema) whose
// cells follow the reactive dependency discipline.
package wsclient

import (
	"encoding/json"
	"fmt"
	"strings"
	"sync"
	"sync/atomic"
	"time"
)

// Event kinds. All events of one scenario live in ONE log, appended under one
// mutex, so the log order is a total order consistent with every
// happens-before edge between the logging goroutines.
const (
	EvReadEnter   = "read-enter"   // ReadJSON entered for message K (=> messages < K are processed)
	EvReadReturn  = "read-return"  // ReadJSON hands message K (ID, Type) to the server
	EvReadError   = "read-error"   // ReadJSON returns an error (socket closed)
	EvWrite       = "write"        // WriteJSON called with envelope (ID, Type, Msg)
	EvSockClose   = "sock-close"   // Close() called by the server
	EvLogSub      = "log-sub"      // SubscriptionLogger.Subscribe(ID)
	EvLogUnsub    = "log-unsub"    // SubscriptionLogger.Unsubscribe(ID)
	EvLogError    = "log-error"    // GraphqlLogger.Error
	EvExecStart   = "exec-start"   // GraphqlLogger.StartExecution (ID, Note=kind, N=1 if initial)
	EvExecFinish  = "exec-finish"  // GraphqlLogger.FinishExecution
	EvResolve     = "resolve"      // a resolver of subscription Tag starts (Cell)
	EvStoreWrite  = "store-write"  // a cell changed (Cell, N=op index, Note=source)
	EvResNew      = "res-new"      // resolver of Tag created resource N
	EvResClean    = "res-clean"    // Cleanup of resource N of Tag ran
	EvServeReturn = "serve-return" // ServeJSONSocket returned
	EvCtxCancel   = "ctx-cancel"   // the connection context was cancelled
	EvStep        = "step"         // driver marker (Note)
	EvGateHit     = "gate-hit"     // a resolver is held at the gate (Tag, Cell)
	EvGateRelease = "gate-release" // the held resolver continues
)

// Event is one entry of the merged log.
type Event struct {
	Seq  int         `json:"seq"`
	US   int64       `json:"us"` // microseconds since the log was created (information only, never used by an oracle)
	Kind string      `json:"kind"`
	K    int         `json:"k,omitempty"`
	ID   string      `json:"id,omitempty"`
	Type string      `json:"type,omitempty"`
	Msg  interface{} `json:"msg,omitempty"`
	Tag  string      `json:"tag,omitempty"`
	Cell string      `json:"cell,omitempty"`
	N    int         `json:"n,omitempty"`
	Note string      `json:"note,omitempty"`
	Sync bool        `json:"sync,omitempty"` // write: called by the goroutine that runs ServeJSONSocket
}

func (e Event) String() string {
	var sb strings.Builder
	fmt.Fprintf(&sb, "%d +%dus %s", e.Seq, e.US, e.Kind)
	switch e.Kind {
	case EvReadEnter, EvReadError:
		fmt.Fprintf(&sb, " k=%d", e.K)
	case EvReadReturn:
		fmt.Fprintf(&sb, " k=%d %s id=%q", e.K, e.Type, e.ID)
	case EvWrite:
		b, _ := json.Marshal(e.Msg)
		s := string(b)
		if len(s) > 160 {
			s = s[:160] + "..."
		}
		fmt.Fprintf(&sb, " %s id=%q %s", e.Type, e.ID, s)
		if e.Sync {
			sb.WriteString(" [sync]")
		}
	case EvStoreWrite:
		fmt.Fprintf(&sb, " %s op=%d", e.Cell, e.N)
	case EvResNew, EvResClean:
		fmt.Fprintf(&sb, " tag=%s res=%d", e.Tag, e.N)
	case EvExecStart:
		fmt.Fprintf(&sb, " id=%q initial=%d", e.ID, e.N)
	default:
		if e.ID != "" {
			fmt.Fprintf(&sb, " id=%q", e.ID)
		}
		if e.Tag != "" {
			fmt.Fprintf(&sb, " tag=%s", e.Tag)
		}
		if e.Cell != "" {
			fmt.Fprintf(&sb, " %s", e.Cell)
		}
	}
	if e.Note != "" {
		fmt.Fprintf(&sb, " (%s)", e.Note)
	}
	return sb.String()
}

// Log is the single, mutex-ordered event log of a scenario.
type Log struct {
	t0     time.Time
	mu     sync.Mutex
	events []Event
	n      int64
	// OnAdd, when set, is called under the log mutex for every event; it lets
	// a monitor keep derived state that is exactly consistent with log order.
	OnAdd func(e *Event)
}

func NewLog() *Log { return &Log{t0: time.Now()} }

// Add appends e and returns its sequence number.
func (l *Log) Add(e Event) int {
	l.mu.Lock()
	e.Seq = len(l.events)
	e.US = int64(time.Since(l.t0) / time.Microsecond)
	if l.OnAdd != nil {
		l.OnAdd(&e)
	}
	l.events = append(l.events, e)
	atomic.StoreInt64(&l.n, int64(len(l.events)))
	l.mu.Unlock()
	return e.Seq
}

// Len is the number of events so far (an activity counter).
func (l *Log) Len() int64 { return atomic.LoadInt64(&l.n) }

// Snapshot returns a copy of the events so far.
func (l *Log) Snapshot() []Event {
	l.mu.Lock()
	defer l.mu.Unlock()
	return append([]Event(nil), l.events...)
}

// Render prints events [from,to) one per line, skipping resolver noise when
// compact is set. Used for witnesses.
func Render(events []Event, compact bool, max int) []string {
	var out []string
	for _, e := range events {
		if compact && (e.Kind == EvExecFinish || e.Kind == EvGateRelease) {
			continue
		}
		out = append(out, e.String())
	}
	if max > 0 && len(out) > max {
		head := out[:max/4]
		tail := out[len(out)-(max-max/4):]
		out = append(append(append([]string{}, head...), fmt.Sprintf("... %d events omitted ...", len(out)-max)), tail...)
	}
	return out
}
