package wsclient

import (
	"encoding/json"
	"errors"
	"runtime"
	"strconv"
	"strings"
	"sync"
	"sync/atomic"
)

// ErrClosed is returned by the socket after it was closed.
var ErrClosed = errors.New("wsclient: use of closed connection")

type inbound struct {
	raw []byte
	err error
}

// MsgMeta describes one scripted inbound item (index K in send order).
type MsgMeta struct {
	K     int                    `json:"k"`
	Type  string                 `json:"type"` // envelope type; "" for a close / undecodable frame
	ID    string                 `json:"id"`
	Tag   string                 `json:"tag,omitempty"`   // subscribe: the unique tag argument of its query
	Query string                 `json:"query,omitempty"` // subscribe / mutate
	Vars  map[string]interface{} `json:"vars,omitempty"`
	Raw   string                 `json:"raw,omitempty"`
	Close bool                   `json:"close,omitempty"` // ReadJSON returns an error
}

// Socket is a graphql.JSONSocket whose ReadJSON plays the messages the
// scenario driver feeds it and whose WriteJSON appends every envelope
// (deep-copied through JSON, as a real socket serialises) to the shared log.
//
// ServeJSONSocket reads message k+1 only after handle(k) returned, so "the
// server has processed message k" is observed as the log event
// read-enter(k+1).
type Socket struct {
	log *Log
	in  chan inbound

	entered int64 // number of ReadJSON calls so far
	writes  int64
	reader  int64 // id of the goroutine that calls ReadJSON (the one running ServeJSONSocket)

	mu          sync.Mutex
	meta        []MsgMeta
	closed      bool
	closedCh    chan struct{}
	failWriteAt int64 // 1-based index of the WriteJSON call that fails; 0 = never
}

func NewSocket(log *Log) *Socket {
	return &Socket{log: log, in: make(chan inbound, 4096), closedCh: make(chan struct{})}
}

// SendRaw queues raw bytes as the next inbound frame and returns its index.
func (s *Socket) SendRaw(raw []byte, meta MsgMeta) int {
	s.mu.Lock()
	meta.K = len(s.meta)
	if meta.Raw == "" && meta.Query == "" {
		meta.Raw = string(raw)
	}
	s.meta = append(s.meta, meta)
	// queue under the lock: the index in meta must be the position in the
	// channel even when two goroutines (driver and an injected action) send
	s.in <- inbound{raw: raw}
	s.mu.Unlock()
	return meta.K
}

// Send queues an envelope {id,type,message}.
func (s *Socket) Send(id, typ string, message interface{}, meta MsgMeta) int {
	env := map[string]interface{}{"id": id, "type": typ}
	if message != nil {
		env["message"] = message
	}
	b, err := json.Marshal(env)
	if err != nil {
		panic(err)
	}
	meta.ID, meta.Type = id, typ
	return s.SendRaw(b, meta)
}

// Fail queues a read error: the ReadJSON call that reaches it returns err.
func (s *Socket) Fail(err error) int {
	s.mu.Lock()
	k := len(s.meta)
	s.meta = append(s.meta, MsgMeta{K: k, Close: true})
	s.in <- inbound{err: err}
	s.mu.Unlock()
	return k
}

// FailWriteAt makes the n-th (1-based, counted from now) WriteJSON call fail.
func (s *Socket) FailWriteAt(n int) {
	s.mu.Lock()
	s.failWriteAt = atomic.LoadInt64(&s.writes) + int64(n)
	s.mu.Unlock()
}

// Meta returns the scripted items so far.
func (s *Socket) Meta() []MsgMeta {
	s.mu.Lock()
	defer s.mu.Unlock()
	return append([]MsgMeta(nil), s.meta...)
}

// Sent is the number of items queued so far.
func (s *Socket) Sent() int {
	s.mu.Lock()
	defer s.mu.Unlock()
	return len(s.meta)
}

// Entered is the number of ReadJSON calls so far. Message k has been processed
// by the server iff Entered() >= k+2.
func (s *Socket) Entered() int { return int(atomic.LoadInt64(&s.entered)) }

// Processed reports whether the server has finished handling message k.
func (s *Socket) Processed(k int) bool { return s.Entered() >= k+2 }

// goid returns the id of the calling goroutine. It is used only to tell
// envelopes written by the goroutine that runs ServeJSONSocket (synchronous
// answers to the message being handled) from envelopes written by
// computations.
func goid() int64 {
	var buf [64]byte
	n := runtime.Stack(buf[:], false)
	f := strings.Fields(string(buf[:n]))
	if len(f) < 2 {
		return -1
	}
	id, err := strconv.ParseInt(f[1], 10, 64)
	if err != nil {
		return -1
	}
	return id
}

func (s *Socket) ReadJSON(v interface{}) error {
	atomic.StoreInt64(&s.reader, goid())
	k := int(atomic.LoadInt64(&s.entered))
	// the log entry comes first: the marker is on the conservative side
	// (everything logged after it really happened after handle(k-1) returned)
	s.log.Add(Event{Kind: EvReadEnter, K: k})
	atomic.AddInt64(&s.entered, 1)
	var m inbound
	select {
	case m = <-s.in:
	case <-s.closedCh:
		s.log.Add(Event{Kind: EvReadError, K: k, Note: "socket closed by server"})
		return ErrClosed
	}
	if m.err != nil {
		s.log.Add(Event{Kind: EvReadError, K: k, Note: m.err.Error()})
		return m.err
	}
	// decode first (into a scratch value of the same type is not possible
	// generically, so decode into v), then log read-return
	if err := json.Unmarshal(m.raw, v); err != nil {
		s.log.Add(Event{Kind: EvReadError, K: k, Note: "undecodable frame: " + err.Error()})
		return err
	}
	var env struct {
		ID   string `json:"id"`
		Type string `json:"type"`
	}
	_ = json.Unmarshal(m.raw, &env)
	s.log.Add(Event{Kind: EvReadReturn, K: k, ID: env.ID, Type: env.Type})
	return nil
}

func (s *Socket) WriteJSON(v interface{}) error {
	b, err := json.Marshal(v)
	if err != nil {
		s.log.Add(Event{Kind: EvWrite, Type: "?", Note: "unserialisable envelope: " + err.Error()})
		return err
	}
	var env map[string]interface{}
	if err := json.Unmarshal(b, &env); err != nil {
		s.log.Add(Event{Kind: EvWrite, Type: "?", Note: "envelope does not re-parse: " + err.Error()})
		return err
	}
	id, _ := env["id"].(string)
	typ, _ := env["type"].(string)
	n := atomic.AddInt64(&s.writes, 1)
	s.mu.Lock()
	closed := s.closed
	fail := s.failWriteAt != 0 && n == s.failWriteAt
	s.mu.Unlock()
	ev := Event{Kind: EvWrite, ID: id, Type: typ, Msg: env["message"], Sync: goid() == atomic.LoadInt64(&s.reader)}
	if _, ok := env["message"]; ok {
		ev.N = 1 // the envelope has a message member
	}
	if closed {
		ev.Note = "after-close"
	} else if fail {
		ev.Note = "failed"
	}
	s.log.Add(ev)
	if closed {
		return ErrClosed
	}
	if fail {
		return errors.New("wsclient: injected write failure")
	}
	return nil
}

func (s *Socket) Close() error {
	s.mu.Lock()
	was := s.closed
	s.closed = true
	s.mu.Unlock()
	if !was {
		s.log.Add(Event{Kind: EvSockClose})
		close(s.closedCh)
	}
	return nil
}

// MarkClosed makes later writes fail (the peer is gone) without waking a
// blocked reader; used together with Fail.
func (s *Socket) MarkClosed() {
	s.mu.Lock()
	s.closed = true
	s.mu.Unlock()
}
