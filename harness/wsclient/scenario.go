//go:build verif

package wsclient

import (
	"context"
	"encoding/json"
	"errors"
	"fmt"
	"runtime"
	"sync"
	"sync/atomic"
	"time"

	"github.com/samsarahq/thunder/graphql"
	"github.com/samsarahq/thunder/reactive"
	"github.com/samsarahq/thunder/verifharness/vlib"
)

func init() {
	// Rerunner.run sleeps this long under its lock before every re-run; the
	// harness wants logical, not wall-clock, pacing.
	reactive.WriteThenReadDelay = 0
}

// Step is one action of the scenario driver.
type Step struct {
	Kind string `json:"kind"` // sub unsub mutate echo url raw write touch gate sync cancel close failwrite pause

	ID    string                 `json:"id,omitempty"`
	Tag   string                 `json:"tag,omitempty"`
	Query string                 `json:"query,omitempty"`
	Vars  map[string]interface{} `json:"vars,omitempty"` // sub: variables of the document
	Raw   string                 `json:"raw,omitempty"`
	Op    int                    `json:"op,omitempty"`
	Cell  string                 `json:"cell,omitempty"` // touch: "" = all; gate: cell filter

	// gate: arm a gate (Phase, Cell), apply the trigger write Op, and while a
	// resolver is held apply Landing writes and play Then; release afterwards.
	Phase   int    `json:"phase,omitempty"`
	Landing []int  `json:"landing,omitempty"`
	Then    []Step `json:"then,omitempty"`
	Resub   bool   `json:"resub,omitempty"` // storm: every unsubscribe is followed at once by a subscribe of the same id to another query
	Hold    bool   `json:"hold,omitempty"`  // do not release explicitly: the held resolver continues on ctx cancellation / gate timeout

	N       int  `json:"n,omitempty"`       // failwrite: which write fails
	Wait    bool `json:"wait,omitempty"`    // wait until the server has processed the message
	PauseUS int  `json:"pauseUs,omitempty"` // pacing after the step
}

// InjSpec is a targeted injection: at the Visit-th visit of hook Point, play
// Steps (in another goroutine) while the visitor is held.
type InjSpec struct {
	Point     string `json:"point"`
	Visit     int    `json:"visit"`
	Steps     []Step `json:"steps"`
	TimeoutMS int    `json:"timeoutMs,omitempty"`
}

// Config describes one scenario environment.
type Config struct {
	Seed           int64 `json:"seed"`
	MaxSubs        int   `json:"maxSubs"`
	MinRerunUS     int   `json:"minRerunUs"`
	AlwaysSpawn    bool  `json:"alwaysSpawn"`
	YieldIntensity int   `json:"yield"`
	DefMode        int   `json:"defMode"`
	// WriteThenReadUS is reactive.WriteThenReadDelay for this scenario, in
	// microseconds (Rerunner.run sleeps that long before every RE-run). It is
	// a package variable: scenarios run one at a time in a process.
	WriteThenReadUS int            `json:"writeThenReadUs"`
	Modes           map[string]int `json:"modes,omitempty"`
	Injections      []InjSpec      `json:"injections,omitempty"`
	// Middlewares are registered with conn.Use, in order: pass-through
	// middlewares that call next(input), pausing PreUS before and PostUS after.
	Middlewares []MwSpec `json:"middlewares,omitempty"`
}

// MwSpec is one pass-through middleware.
type MwSpec struct {
	PreUS  int `json:"preUs,omitempty"`
	PostUS int `json:"postUs,omitempty"`
}

type server interface {
	ServeJSONSocket()
	Use(fn graphql.MiddlewareFunc)
}

// Session is one running connection with its world, socket, log and yielder.
type Session struct {
	Cfg   Config
	Log   *Log
	Sock  *Socket
	World *World
	Y     *vlib.Yielder

	cancel context.CancelFunc
	served chan struct{}
	flag   int32

	injMu sync.Mutex
	injs  []*vlib.Injection

	closeMu sync.Mutex
	closing bool
}

// StartSession builds the world from gen (initial values and the operations
// generated so far) and starts serving a scripted socket.
func StartSession(cfg Config, gen *Gen) *Session {
	s := &Session{Cfg: cfg, Log: NewLog(), served: make(chan struct{})}
	s.World = NewWorld(s.Log, gen.Init(), cfg.Modes, cfg.DefMode)
	s.Sock = NewSocket(s.Log)
	s.Y = vlib.NewYielder(cfg.Seed, cfg.YieldIntensity)
	for i := range cfg.Injections {
		in := cfg.Injections[i]
		to := time.Duration(in.TimeoutMS) * time.Millisecond
		if to == 0 {
			to = 5 * time.Millisecond
		}
		vi := &vlib.Injection{Point: in.Point, Visit: in.Visit, Timeout: to, Act: func() {
			s.Log.Add(Event{Kind: EvStep, Note: "injection at " + in.Point})
			s.Play(in.Steps)
		}}
		s.injs = append(s.injs, vi)
		s.Y.Inject(vi)
	}
	s.Y.Install()
	reactive.WriteThenReadDelay = time.Duration(cfg.WriteThenReadUS) * time.Microsecond
	ctx, cancel := context.WithCancel(context.Background())
	s.cancel = cancel
	rerun := time.Duration(cfg.MinRerunUS) * time.Microsecond
	if rerun <= 0 {
		rerun = time.Millisecond
	}
	conn := graphql.CreateConnection(ctx, s.Sock, s.World.Schema,
		graphql.WithMinRerunInterval(rerun),
		graphql.WithSubscriptionLogger(&SubLogger{Log: s.Log}),
		graphql.WithExecutionLogger(&ExecLogger{Log: s.Log}),
		graphql.WithMaxSubscriptions(cfg.MaxSubs),
		graphql.WithAlwaysSpawnGoroutineFunc(func(context.Context, *graphql.Query) bool { return cfg.AlwaysSpawn }),
	)
	var srv server = conn
	for i := range cfg.Middlewares {
		m := cfg.Middlewares[i]
		srv.Use(func(input *graphql.ComputationInput, next graphql.MiddlewareNextFunc) *graphql.ComputationOutput {
			if m.PreUS > 0 {
				time.Sleep(time.Duration(m.PreUS) * time.Microsecond)
			} else {
				runtime.Gosched()
			}
			out := next(input)
			if m.PostUS > 0 {
				time.Sleep(time.Duration(m.PostUS) * time.Microsecond)
			}
			return out
		})
	}
	go func() {
		srv.ServeJSONSocket()
		s.Log.Add(Event{Kind: EvServeReturn})
		atomic.StoreInt32(&s.flag, 1)
		close(s.served)
	}()
	return s
}

// SetOps publishes the operations (call after the generator made them all).
func (s *Session) SetOps(ops []Op) { s.World.SetOps(ops) }

// Served reports whether ServeJSONSocket has returned.
func (s *Session) Served() bool { return atomic.LoadInt32(&s.flag) != 0 }

// Activity is the monotone activity counter for the stuck-vs-slow classifier.
func (s *Session) Activity() int64 { return s.Log.Len() + s.Y.Events() }

// InjectionsFired counts injections whose point was reached.
func (s *Session) InjectionsFired() int {
	n := 0
	for _, in := range s.injs {
		if in.Fired() {
			n++
		}
	}
	return n
}

// WaitProcessed waits until message k is processed (or the connection ended).
func (s *Session) WaitProcessed(k int) vlib.Outcome {
	return vlib.WaitCond(func() bool { return s.Sock.Processed(k) || s.Served() }, s.Activity, 3*time.Second, 30*time.Second)
}

// WaitServed waits for ServeJSONSocket to return.
func (s *Session) WaitServed() vlib.Outcome {
	return vlib.WaitCond(s.Served, s.Activity, 3*time.Second, 30*time.Second)
}

// shortWait polls cond for at most d (pacing only; never a verdict).
func shortWait(cond func() bool, d time.Duration) bool {
	deadline := time.Now().Add(d)
	sleep := 20 * time.Microsecond
	for {
		if cond() {
			return true
		}
		if time.Now().After(deadline) {
			return false
		}
		time.Sleep(sleep)
		if sleep < time.Millisecond {
			sleep *= 2
		}
	}
}

// WaitQuiet waits until the activity counter has not moved for `samples`
// consecutive samples `gap` apart; false when that does not happen within max.
func (s *Session) WaitQuiet(gap time.Duration, samples int, max time.Duration) bool {
	deadline := time.Now().Add(max)
	for {
		a0 := s.Activity()
		ok := true
		for i := 0; i < samples; i++ {
			time.Sleep(gap)
			if s.Activity() != a0 {
				ok = false
				break
			}
		}
		if ok {
			return true
		}
		if time.Now().After(deadline) {
			return false
		}
	}
}

// ErrPeerGone is the read error used for a socket close.
var ErrPeerGone = errors.New("wsclient: peer closed the connection")

// Play executes steps in order. It returns an error only when the machinery
// could not proceed (a wait ended as Undecided / quiescent-false).
func (s *Session) Play(steps []Step) error {
	for i := range steps {
		if err := s.play(&steps[i]); err != nil {
			return err
		}
	}
	return nil
}

func (s *Session) afterSend(st *Step, k int) error {
	if st.Wait {
		if o := s.WaitProcessed(k); o != vlib.Reached {
			return fmt.Errorf("message %d not processed: %v", k, o)
		}
	}
	return nil
}

func (s *Session) play(st *Step) error {
	var err error
	switch st.Kind {
	case "sub":
		vars := st.Vars
		if vars == nil {
			vars = map[string]interface{}{}
		}
		k := s.Sock.Send(st.ID, "subscribe", map[string]interface{}{"query": st.Query, "variables": vars}, MsgMeta{Tag: st.Tag, Query: st.Query, Vars: st.Vars})
		err = s.afterSend(st, k)
	case "unsub":
		k := s.Sock.Send(st.ID, "unsubscribe", nil, MsgMeta{})
		err = s.afterSend(st, k)
	case "mutate":
		q := st.Query
		if q == "" {
			q = fmt.Sprintf("mutation { apply(op: %d) }", st.Op)
		}
		k := s.Sock.Send(st.ID, "mutate", map[string]interface{}{"query": q, "variables": map[string]interface{}{}}, MsgMeta{Query: q})
		err = s.afterSend(st, k)
	case "echo":
		k := s.Sock.Send(st.ID, "echo", nil, MsgMeta{})
		err = s.afterSend(st, k)
	case "url":
		k := s.Sock.Send(st.ID, "url", "http://example/"+st.ID, MsgMeta{})
		err = s.afterSend(st, k)
	case "raw":
		var env struct {
			ID   string `json:"id"`
			Type string `json:"type"`
		}
		_ = json.Unmarshal([]byte(st.Raw), &env)
		k := s.Sock.SendRaw([]byte(st.Raw), MsgMeta{ID: env.ID, Type: env.Type, Raw: st.Raw})
		err = s.afterSend(st, k)
	case "write":
		s.World.Apply(st.Op, "driver")
	case "touch":
		if st.Cell == "" {
			s.World.TouchAll("driver")
		} else {
			s.World.Touch(st.Cell, "driver")
		}
	case "gate":
		hit, release := s.World.ArmGate(st.Phase, st.Cell)
		s.World.Apply(st.Op, "driver-trigger")
		held := false
		select {
		case <-hit:
			held = true
		case <-time.After(25 * time.Millisecond):
		}
		if held {
			for _, op := range st.Landing {
				s.World.Apply(op, "driver-during-run")
			}
			err = s.Play(st.Then)
			if st.Hold {
				// leave the resolver to its context / the gate timeout
				break
			}
		} else {
			// nobody recomputed: the writes still happen, just not overlapped
			for _, op := range st.Landing {
				s.World.Apply(op, "driver")
			}
		}
		release()
	case "sync":
		n := s.Sock.Sent()
		if n > 0 {
			if o := s.WaitProcessed(n - 1); o != vlib.Reached {
				return fmt.Errorf("sync: message %d not processed: %v", n-1, o)
			}
		}
	case "cancel":
		s.Log.Add(Event{Kind: EvCtxCancel})
		s.cancel()
	case "close":
		s.closeMu.Lock()
		already := s.closing
		s.closing = true
		s.closeMu.Unlock()
		if !already {
			s.Sock.Fail(ErrPeerGone)
		}
		if st.Wait {
			if o := s.WaitServed(); o != vlib.Reached {
				return fmt.Errorf("close: ServeJSONSocket did not return: %v", o)
			}
		}
	case "failwrite":
		s.Sock.FailWriteAt(st.N)
	case "storm":
		err = s.storm(st)
	case "idle":
		// every live subscription has run at least once and its minimum
		// re-run interval has passed: the next invalidation re-runs at once
		s.syncInitials()
		time.Sleep(2*time.Duration(s.Cfg.MinRerunUS)*time.Microsecond + 200*time.Microsecond)
	case "boomcycle":
		// transient resolver failure: only once every accepted subscription
		// has received its initial envelope (so that the failure hits
		// re-runs, never an initial run), and with no subscribe in between.
		if !s.syncInitials() {
			s.Log.Add(Event{Kind: EvStep, Note: "boomcycle skipped"})
			break
		}
		s.World.Apply(st.Op, "driver")
		if st.PauseUS > 0 {
			time.Sleep(time.Duration(st.PauseUS) * time.Microsecond)
		}
		for _, op := range st.Landing {
			s.World.Apply(op, "driver")
		}
		s.World.Apply(st.N, "driver")
	case "pause":
	default:
		return fmt.Errorf("unknown step kind %q", st.Kind)
	}
	if st.PauseUS > 0 {
		time.Sleep(time.Duration(st.PauseUS) * time.Microsecond)
	}
	return err
}

// spin busy-waits for about ns nanoseconds (sub-scheduler-quantum pacing).
func spin(ns int) {
	t0 := time.Now()
	for time.Since(t0) < time.Duration(ns) {
	}
}

// storm is a stress step: st.N rounds of "subscribe up to four cheap
// subscriptions, invalidate all of them with one write, and at once pipeline a
// mutation (whose completion calls RerunImmediately on every rerunner) and the
// unsubscribes". Every round races Rerunner.Stop against the wake-up of a
// re-run (odd rounds: of the initial run) of each subscription, with the
// relative timing swept by a per-round jitter. st.Landing lists the write
// operations to cycle through.
func (s *Session) storm(st *Step) error {
	ids := []string{"a", "b", "c", "d"}
	if s.Cfg.MaxSubs < len(ids) {
		ids = ids[:s.Cfg.MaxSubs]
	}
	x := uint64(s.Cfg.Seed)*2654435761 + 12345
	next := func(n int) int {
		x = x*6364136223846793005 + 1442695040888963407
		return int((x >> 33) % uint64(n))
	}
	for round := 0; round < st.N && !s.Served(); round++ {
		last := 0
		for i, id := range ids {
			tag := fmt.Sprintf("s%d_%d", round, i)
			q := fmt.Sprintf("{ root(tag: %q) { n tag res } }", tag)
			last = s.Sock.Send(id, "subscribe", map[string]interface{}{"query": q, "variables": map[string]interface{}{}}, MsgMeta{Tag: tag, Query: q})
		}
		if round%2 == 0 {
			if o := s.WaitProcessed(last); o != vlib.Reached {
				return fmt.Errorf("storm: message %d not processed: %v", last, o)
			}
			// let the initial runs finish and the minimum re-run interval pass
			spin(1000*s.Cfg.MinRerunUS + 50000 + next(250000))
		}
		op := st.Landing[round%len(st.Landing)]
		mq := fmt.Sprintf("mutation { apply(op: %d) }", st.Landing[(round+1)%len(st.Landing)])
		mutate := func() int {
			return s.Sock.Send(fmt.Sprintf("sm%d", round), "mutate", map[string]interface{}{"query": mq, "variables": map[string]interface{}{}}, MsgMeta{Query: mq})
		}
		unsubs := func() {
			for i, id := range ids {
				last = s.Sock.Send(id, "unsubscribe", nil, MsgMeta{})
				if st.Resub {
					tag := fmt.Sprintf("s%d_%dr", round, i)
					q := fmt.Sprintf("{ root(tag: %q) { s nums tag } }", tag)
					last = s.Sock.Send(id, "subscribe", map[string]interface{}{"query": q, "variables": map[string]interface{}{}}, MsgMeta{Tag: tag, Query: q})
				}
				spin(next(40000))
			}
		}
		early := round%3 == 0
		if early {
			mutate() // its completion flushes every rerunner while they wake up
			spin(next(80000))
		}
		// the invalidation and the unsubscribes start within +-150 us of each
		// other; the subscriptions re-run one after the other in the
		// invalidating goroutine, so the four Stops meet different phases
		lead := next(190000) - 40000
		if lead >= 0 {
			s.World.Apply(op, "storm")
			spin(lead)
			unsubs()
		} else {
			done := make(chan struct{})
			go func() { spin(-lead); s.World.Apply(op, "storm"); close(done) }()
			unsubs()
			<-done
		}
		if !early {
			last = mutate()
		}
		if st.Resub { // end the re-subscriptions before the next round re-uses the ids
			spin(next(200000))
			for _, id := range ids {
				last = s.Sock.Send(id, "unsubscribe", nil, MsgMeta{})
			}
		}
		if o := s.WaitProcessed(last); o != vlib.Reached {
			return fmt.Errorf("storm: message %d not processed: %v", last, o)
		}
	}
	return nil
}

// syncInitials waits (pacing, bounded) until all queued messages are
// processed and every live subscription has at least one envelope.
func (s *Session) syncInitials() bool {
	n := s.Sock.Sent()
	return shortWait(func() bool {
		if n > 0 && !s.Sock.Processed(n-1) {
			return false
		}
		a := Analyze(s.Log.Snapshot(), s.Sock.Meta(), s.Cfg.MaxSubs)
		for _, inst := range a.Live() {
			if len(inst.Envelopes) == 0 {
				return false
			}
		}
		return true
	}, 2*time.Second)
}

// Closing reports whether a close was already queued.
func (s *Session) Closing() bool {
	s.closeMu.Lock()
	defer s.closeMu.Unlock()
	return s.closing
}

// End cancels the connection context (so nothing of this scenario survives
// into the next one) and removes the hook handler.
func (s *Session) End() {
	s.cancel()
	vlib.Uninstall()
}
