// Package c14 monitors property C14: the schema reported by introspection is
// truthful. Schemas are generated at run time (reflect.StructOf objects,
// reflect.MakeFunc field funcs, every registration option, plus a predeclared
// pool), the advertised type graph is read back from
// introspection.ComputeSchemaJSON, and queries generated from that graph are
// (a) damaged in exactly one way and must be rejected, (b) sent undamaged and
// must execute without error with a response that conforms to the advertised
// types.
package c14

import (
	"context"
	"encoding/json"
	"fmt"
	"runtime/debug"
	"sort"
	"strings"
	"testing"
	"time"

	"github.com/samsarahq/thunder/batch"
	"github.com/samsarahq/thunder/graphql"
	"github.com/samsarahq/thunder/graphql/introspection"
	"github.com/samsarahq/thunder/reactive"
	"github.com/samsarahq/thunder/verifharness/vlib"
)

// Classifier keys of genuine defects. Minimal inputs: repro_test.go
// (TestReproFindings); proposed repairs: fixes.diff (applies to /repo with
// `git apply`; thunder's graphql tests pass and this check is silent with it).
const (
	// `{ __typename }` at the query/mutation root passes PrepareQuery and fails
	// in Execute ("invalid top-level selection"). Predicate: Execute error, no
	// panic, root selects __typename, and the query without its root-level
	// __typename executes.
	classRootTypename = "root-typename-execute-fails"
	// A nil []byte under an advertised `bytes!` is emitted as null.
	classBytesNull = "nonnull-bytes-nil-slice-null"
	// `type TMInt int32` with MarshalText is advertised as int32 and emitted
	// as a JSON string (encoding/json uses MarshalText).
	classNamedScalarText = "named-scalar-textmarshaler-emits-string"
	// A BatchFieldFunc of (nullable) enum type that leaves an entry out makes
	// Execute fail with "enum is not valid".
	classBatchEnumNull = "batch-nullable-enum-missing-entry-fails"
	// A BatchFieldFunc of text-marshaler struct type that leaves an entry out
	// (or stores a nil pointer) panics in the scalar's Unwrapper on a scheduler
	// goroutine: the process dies.
	classBatchTMNull = "batch-textmarshaler-missing-entry-panics"
	// A union member registered under a name other than its Go type name
	// (schema.Object("Other", Member{})) makes resolveUnionBatch panic for every
	// non-nil value of the union: the process dies.
	classRenamedMember = "union-renamed-member-panics"
	// Repaired in /repo by 223dd35: a non-null union whose member has no
	// fragment in the query was emitted as null.
	classUnionUnmatched = "nonnull-union-unmatched-member-null"
	// Repaired in /repo by ab591bc: PrepareQuery appended a union-level
	// __typename to shared named fragments, so it showed up where the fragment
	// was spread elsewhere.
	classTypenameLeak = "union-typename-leaks-into-shared-fragment"
)

// recoveringScheduler delegates to thunder's own scheduler; it only adds a
// recover around each unit so that a panic inside the executor is observed
// instead of killing the process.
type recoveringScheduler struct {
	inner graphql.WorkScheduler
	st    *execState
}

func (s *recoveringScheduler) Run(resolver graphql.UnitResolver, units ...*graphql.WorkUnit) {
	s.inner.Run(func(u *graphql.WorkUnit) (out []*graphql.WorkUnit) {
		defer func() {
			if p := recover(); p != nil {
				s.st.mu.Lock()
				s.st.panics = append(s.st.panics, fmt.Sprintf("%v\n%s", p, vlib.Trunc(string(debug.Stack()), 1500)))
				s.st.mu.Unlock()
				out = nil
			}
		}()
		return resolver(u)
	}, units...)
}

type local struct {
	counts map[string]int
}

func (l *local) add(k string, n int) { l.counts[k] += n }

func TestCheck(t *testing.T) {
	run := vlib.Start(t, "C14", "exploration")
	defer run.Finish()
	run.Rule("case = one generated schema (0-4 reflect.StructOf objects with scalar/pointer/slice/enum/union/text-marshaler/object fields and key tags, a pool of predeclared named objects, unions, enums (one of them with alias names: two names for one value), named scalars, text marshalers, keyed and recursive objects; 4-9 root field funcs and 0-5 per object minted by reflect.MakeFunc over every signature form ctx?/source(value|pointer)?/args?/selectionSet? -> result?/error?, options NonNullable, ListEntryNonNullable, Expensive, NumParallelInvocationsFunc, Paginated, BatchFieldFunc, BatchFieldFuncWithFallback; StructOf arg structs incl. named input objects, enums, lists, optional/pointer args) " +
		"x N queries generated from the advertised graph (depth<=4, aliases, merged duplicates, inline and shared named fragments, union member subsets, __typename at any level, args from advertised arg types, query and mutation roots, fragments on the union type itself, the same composite field under two aliases with equal arguments and different sub-selections - every second time for Expensive fields); every query with such a pair and every fourth other accepted query is executed a second time inside a reactive.Rerunner with batch.WithBatching (as the HTTP handler does; only there the reactive result cache of Expensive fields is used) and checked by the same conformance oracle; each query is evaluated undamaged and with exactly one damage out of {unknown field, sub-selection on scalar/enum/__typename, missing sub-selection on object/union, unknown field inside an applicable fragment (incl. inside `... on U` under a U-typed field), each of these four also (2 in 5) with @skip/@include on the damaged node or on an inline fragment / named spread wrapped around it - excluding and including, literal, variable and defaulted-variable conditions: validation must reject whatever the directive says, one named fragment spread at two places whose second object type gives the same field name another kind or object type (thunder applies a fragment to any object it is spread in; both visiting orders), one well-formed named fragment spread at two places of one type with an ordinary damage next to one spread}. " +
		"Every third accepted query runs once more with one resolver invocation in eight failing with context.Canceled / context.DeadlineExceeded (bare, wrapped, from an own cancelled sub-context; request context alive) or an ordinary error: the query must fail or the response must conform. Result types also include less common slice shapes (named []byte, slices of named uint8 with value/pointer-receiver MarshalText or none, json.RawMessage, named slices with MarshalText / MarshalJSON). Resolver results are legal Go values of the declared types (valid enum members, one-hot unions, nil pointers only under nullable types, nil/empty slices, nil entries in pointer lists, missing batch entries only without NonNullable). " +
		"Non-trivial = the advertised schema has >= 3 of {union, enum, list of objects, nullable object, batch/expensive field, args}; distinct = hash(schema shape, query text, damage).")
	run.Assume("the reserved \"__key\" marker the executor adds to keyed objects (consumed by package diff) is not counted as a selected field")
	run.Assume("argument literals for advertised scalars: Time as RFC 3339 string, bytes as base64 string, unsigned ints as non-negative; pagination arguments other than a small `first` are not passed (their values carry cursor/sort semantics)")
	run.Assume("a by-construction-valid query uses unique response names except for identical (name,args) duplicates; fragments on object types always carry the enclosing type as type condition")
	reactive.WriteThenReadDelay = 0 // only delays re-runs; nothing here invalidates
	nq := run.N(40, 100)
	n := run.N(1000, 60000)
	run.Each(n, 8, func(i int) {
		fmt.Printf("CASE %d\n", i)
		l := &local{counts: map[string]int{}}
		func() {
			defer func() {
				if p := recover(); p != nil {
					run.Broken(fmt.Sprintf("case %d: harness panicked: %v\n%s", i, p, vlib.Trunc(string(debug.Stack()), 3000)))
				}
			}()
			runSchema(run, l, i, nq)
		}()
		for k, v := range l.counts {
			run.Count(k, v)
		}
	})
	if run.Counter("valid_sent") > 0 {
		acc := float64(run.Counter("valid_accepted")) / float64(run.Counter("valid_sent"))
		run.Set("valid_acceptance_rate", acc)
		if acc < 0.9 {
			run.Broken(fmt.Sprintf("only %.0f%% of the by-construction-valid queries were accepted", acc*100))
		}
	}
}

// tryBuild builds the schema twice, as a server does: once inside
// introspection.ComputeSchemaJSON (the advertised graph) and once for
// execution (with introspection added). berr: the builder refuses the schema;
// ierr: the builder accepts it but the introspection query fails.
func tryBuild(s *schemaInst) (js []byte, built *graphql.Schema, berr, ierr error) {
	func() {
		defer func() {
			if p := recover(); p != nil {
				berr = fmt.Errorf("panic: %v", p)
			}
		}()
		built, berr = s.sb.Build()
	}()
	if berr != nil {
		return nil, nil, berr, nil
	}
	func() {
		defer func() {
			if p := recover(); p != nil {
				ierr = fmt.Errorf("panic: %v", p)
			}
		}()
		js, ierr = introspection.ComputeSchemaJSON(*s.sb)
		introspection.AddIntrospectionToSchema(built)
	}()
	return js, built, nil, ierr
}

func runSchema(run *vlib.Run, l *local, i, nq int) {
	s := newSchemaInst(i, run.Rand("schema", i))
	js, built, err, ierr := tryBuild(s)
	if err != nil {
		if s.feats["renamed_union_member"] {
			// a builder that refuses this shape puts it outside the quantifier
			// ("all Go type shapes the builder accepts")
			l.add("schema_refused_by_builder:renamed_union_member", 1)
			return
		}
		run.Broken(fmt.Sprintf("case %d: generated schema does not build: %v\n%s", i, err, vlib.Trunc(s.shape, 2000)))
		return
	}
	if ierr != nil {
		run.Violation(i, "", map[string]interface{}{"what": "the builder accepts the schema but the introspection query (accepted by PrepareQuery) fails on it", "err": ierr.Error(), "schema": vlib.Trunc(s.shape, 3000)})
		return
	}
	adv, err := parseAdvert(js)
	if err != nil {
		run.Violation(i, "", map[string]interface{}{"what": "introspection JSON cannot be read as a type graph", "err": err.Error(), "schema": vlib.Trunc(s.shape, 3000)})
		return
	}
	af := adv.features()
	if s.hasBatchEx {
		af["batch_or_expensive"] = true
	}
	nontrivial := len(af) >= 3
	l.add("schemas", 1)
	if nontrivial {
		l.add("schemas_nontrivial", 1)
	}
	for f := range af {
		l.add("schema_feature:"+f, 1)
	}
	for f := range s.feats {
		l.add("schema_feature:"+f, 1)
	}
	if s.usesTMInt {
		l.add("schema_feature:named_int_textmarshaler", 1)
	}
	l.add("minted_objects", s.minted)
	for k, v := range s.sigHist {
		l.add("signature:"+k, v)
	}
	for k, v := range s.optHist {
		l.add("options:"+k, v)
	}
	for k, v := range s.retHist {
		l.add("result_type:"+k, v)
	}
	for _, t := range adv.Types {
		l.add("advertised_kind:"+t.Kind, 1)
	}

	for q := 0; q < nq; q++ {
		rq := run.Rand("query", i*1000+q)
		doc, qf, err := genQuery(rq, adv, s.paginated)
		if err != nil {
			run.Violation(i, "", map[string]interface{}{"what": "advertised graph is not self-consistent", "err": err.Error(), "schema": vlib.Trunc(s.shape, 3000)})
			return
		}
		for f := range qf {
			l.add("query_feature:"+f, 1)
		}
		s.salt.Store(rq.Int63())
		text := render(adv, doc, nil)
		run.Case(s.shape+"|"+text, nontrivial)
		accepted := evalValid(run, l, i, q, s, adv, built, doc, qf, text)
		if !accepted {
			continue
		}
		dmg := chooseDamage(rq, adv, doc)
		dtext := render(adv, doc, dmg)
		run.Case(s.shape+"|"+dtext, nontrivial)
		evalDamaged(run, l, i, q, s, adv, built, doc, dmg, dtext, text)
		if run.WantSample() && nontrivial && q == 3 {
			run.Sample(map[string]interface{}{"case": i, "valid": vlib.Trunc(text, 600), "damaged": vlib.Trunc(dtext, 600), "damage": dmg.desc})
		}
	}
}

func rootOf(built *graphql.Schema, adv *advSchema, doc *qDoc) (graphql.Type, string) {
	if doc.Kind == "mutation" {
		return built.Mutation, adv.Mutation
	}
	return built.Query, adv.Query
}

// prepare runs Parse and PrepareQuery; stage tells which one rejected.
func prepare(root graphql.Type, text string, vars map[string]interface{}) (q *graphql.Query, stage string, err error) {
	defer func() {
		if p := recover(); p != nil {
			stage, err = "panic", fmt.Errorf("panic: %v", p)
		}
	}()
	if vars == nil {
		vars = map[string]interface{}{}
	}
	q, err = graphql.Parse(text, vars)
	if err != nil {
		return nil, "parse", err
	}
	if err := graphql.PrepareQuery(context.Background(), root, q.SelectionSet); err != nil {
		return nil, "prepare", err
	}
	return q, "", nil
}

func execute(s *schemaInst, root graphql.Type, q *graphql.Query) (val interface{}, st *execState, err error) {
	st = &execState{}
	s.exec.Store(st)
	defer s.exec.Store(nil)
	defer func() {
		if p := recover(); p != nil {
			st.mu.Lock()
			st.panics = append(st.panics, fmt.Sprintf("%v\n%s", p, vlib.Trunc(string(debug.Stack()), 1500)))
			st.mu.Unlock()
		}
	}()
	e := graphql.NewExecutor(&recoveringScheduler{inner: graphql.NewImmediateGoroutineScheduler(), st: st})
	val, err = e.Execute(batch.WithBatching(context.Background()), root, nil, q)
	return val, st, err
}

// executeInRerunner executes q the way thunder's HTTP and websocket servers
// do: inside a reactive.Rerunner with batching, which is the only way the
// reactive result cache of Expensive fields is used.
func executeInRerunner(s *schemaInst, root graphql.Type, q *graphql.Query) (val interface{}, st *execState, err error, done bool) {
	st = &execState{}
	s.exec.Store(st)
	defer s.exec.Store(nil)
	type result struct {
		v   interface{}
		err error
	}
	ch := make(chan result, 1)
	e := graphql.NewExecutor(&recoveringScheduler{inner: graphql.NewImmediateGoroutineScheduler(), st: st})
	rr := reactive.NewRerunner(context.Background(), func(ctx context.Context) (interface{}, error) {
		var res result
		func() {
			defer func() {
				if p := recover(); p != nil {
					st.mu.Lock()
					st.panics = append(st.panics, fmt.Sprintf("%v\n%s", p, vlib.Trunc(string(debug.Stack()), 1500)))
					st.mu.Unlock()
				}
			}()
			res.v, res.err = e.Execute(batch.WithBatching(ctx), root, nil, q)
		}()
		select {
		case ch <- res:
		default:
		}
		return nil, res.err
	}, graphql.DefaultMinRerunInterval, false)
	defer rr.Stop()
	select {
	case r := <-ch:
		return r.v, st, r.err, true
	case <-time.After(60 * time.Second):
		// not a verdict: the run is reported as inconclusive
		return nil, st, nil, false
	}
}

func witness(i, q int, s *schemaInst, text string, extra map[string]interface{}) map[string]interface{} {
	w := map[string]interface{}{"schema_case": i, "query_index": q, "query": text, "schema": vlib.Trunc(s.shape, 2500)}
	for k, v := range extra {
		w[k] = v
	}
	return w
}

// stripRootTypename returns a copy of doc without __typename selections at the
// root level (every selection set whose scope is the root type: the root set
// and the fragments flattened into it; no field returns the root type, so no
// other set has that scope). Root is nil if nothing else is selected there.
func stripRootTypename(doc *qDoc, rootName string) *qDoc {
	memo := map[*qSelSet]*qSelSet{}
	done := map[*qSelSet]bool{}
	var clean func(s *qSelSet) *qSelSet
	clean = func(s *qSelSet) *qSelSet {
		if done[s] {
			return memo[s]
		}
		done[s] = true
		ns := &qSelSet{Scope: s.Scope}
		for _, f := range s.Fields {
			if f.Name != "__typename" {
				ns.Fields = append(ns.Fields, f)
			}
		}
		for _, fr := range s.Frags {
			if fr.Set.Scope != rootName {
				ns.Frags = append(ns.Frags, fr)
				continue
			}
			if c := clean(fr.Set); c != nil {
				ns.Frags = append(ns.Frags, &qFrag{On: fr.On, Named: fr.Named, Set: c})
			}
		}
		if len(ns.Fields)+len(ns.Frags) == 0 {
			ns = nil
		}
		memo[s] = ns
		return ns
	}
	nd := &qDoc{Kind: doc.Kind, Op: doc.Op, Root: clean(doc.Root)}
	for _, n := range doc.Named {
		if n.On != rootName {
			nd.Named = append(nd.Named, n)
		} else if c := clean(n.Set); c != nil {
			nd.Named = append(nd.Named, &qNamed{Name: n.Name, On: n.On, Set: c})
		}
	}
	return nd
}

func selectsUnion(doc *qDoc, names map[string]bool) bool {
	found := false
	var walk func(s *qSelSet)
	walk = func(s *qSelSet) {
		for _, f := range s.Fields {
			if f.Type != nil {
				if n := f.Type.named(); n != nil && n.Name != nil && names[*n.Name] {
					found = true
				}
			}
			if f.Sub != nil {
				walk(f.Sub)
			}
		}
		for _, fr := range s.Frags {
			if fr.Named == "" {
				walk(fr.Set)
			}
		}
	}
	walk(doc.Root)
	for _, n := range doc.Named {
		walk(n.Set)
	}
	return found
}

func evalValid(run *vlib.Run, l *local, i, qi int, s *schemaInst, adv *advSchema, built *graphql.Schema, doc *qDoc, qf map[string]bool, text string) bool {
	root, rootName := rootOf(built, adv, doc)
	l.add("valid_sent", 1)
	q, stage, err := prepare(root, text, nil)
	if err != nil {
		l.add("valid_rejected:"+stage, 1)
		switch stage {
		case "parse":
			run.Broken(fmt.Sprintf("case %d query %d: generator emitted a query thunder's parser refuses: %v\n%s", i, qi, err, text))
		default:
			run.Violation(i, "", witness(i, qi, s, text, map[string]interface{}{
				"what": "a query that selects only advertised fields (with sub-selections exactly where the advertised type is an object or union) is rejected by validation", "stage": stage, "err": err.Error()}))
		}
		return false
	}
	l.add("valid_accepted", 1)

	val, st, xerr := execute(s, root, q)
	usedDoc, usedText := doc, text
	if len(st.panics) > 0 {
		class := ""
		switch {
		case len(s.renamed) > 0 && selectsUnion(doc, s.renamed):
			class = classRenamedMember
		case st.tmOmitted.Load():
			class = classBatchTMNull
		}
		l.add("execute_panicked", 1)
		run.Violation(i, class, witness(i, qi, s, text, map[string]interface{}{
			"what": "executing a query that validation accepted panicked inside the executor (recovered by the harness scheduler wrapper; with thunder's scheduler alone the process dies)", "panic": st.panics[0]}))
		return true
	}
	if xerr != nil {
		rootHasTypename := false
		for _, g := range collect([]*qSelSet{doc.Root}, rootName) {
			if g.fields[0].Name == "__typename" {
				rootHasTypename = true
			}
		}
		class := ""
		firstErr := xerr
		if rootHasTypename {
			// classifier for the root __typename defect: the same query without the
			// root-level __typename selections executes
			nd := stripRootTypename(doc, rootName)
			if nd.Root == nil {
				class = classRootTypename
				run.Violation(i, class, witness(i, qi, s, text, map[string]interface{}{"what": "query accepted by PrepareQuery fails in Execute", "err": xerr.Error()}))
				l.add("execute_failed", 1)
				return true
			}
			ntext := render(adv, nd, nil)
			q2, stage2, err2 := prepare(root, ntext, nil)
			if err2 == nil {
				val2, st2, xerr2 := execute(s, root, q2)
				if xerr2 == nil && len(st2.panics) == 0 {
					run.Violation(i, classRootTypename, witness(i, qi, s, text, map[string]interface{}{
						"what": "query accepted by PrepareQuery fails in Execute; the same query without its root-level __typename executes", "err": xerr.Error(), "without_root_typename": ntext}))
					l.add("execute_failed", 1)
					val, st, xerr, usedDoc, usedText = val2, st2, nil, nd, ntext
				} else {
					st, xerr = st2, xerr2
					if xerr == nil {
						xerr = fmt.Errorf("panic in re-run: %v", st2.panics)
					}
				}
			} else {
				run.Broken(fmt.Sprintf("case %d query %d: query without root __typename was rejected at %s: %v\n%s", i, qi, stage2, err2, ntext))
			}
		}
		if xerr != nil {
			switch {
			case len(st.panics) > 0 && len(s.renamed) > 0 && selectsUnion(doc, s.renamed):
				class = classRenamedMember
			case len(st.panics) > 0 && st.tmOmitted.Load():
				class = classBatchTMNull
			case len(st.panics) == 0 && st.enumOmitted.Load():
				class = classBatchEnumNull
			}
			l.add("execute_failed", 1)
			run.Violation(i, class, witness(i, qi, s, text, map[string]interface{}{
				"what": "executing a query that validation accepted failed although no resolver returned an error", "err": xerr.Error(), "first_err": firstErr.Error()}))
			return true
		}
	}
	l.add("executed_ok", 1)
	l.add("resolver_invocations", int(st.resolved.Load()))

	b, err := json.Marshal(val)
	if err != nil {
		run.Violation(i, "", witness(i, qi, s, usedText, map[string]interface{}{"what": "response is not JSON-serialisable", "err": err.Error()}))
		return true
	}
	var resp interface{}
	if err := json.Unmarshal(b, &resp); err != nil {
		run.Violation(i, "", witness(i, qi, s, usedText, map[string]interface{}{"what": "response JSON does not re-parse", "err": err.Error()}))
		return true
	}
	chk := &checker{a: adv, doc: usedDoc, s: s, counts: map[string]int{}}
	chk.object(resp, rootName, []*qSelSet{usedDoc.Root}, "$")
	for k, v := range chk.counts {
		l.add("conform:"+k, v)
	}
	if len(chk.mism) > 0 {
		byClass := map[string][]mismatch{}
		for _, m := range chk.mism {
			byClass[m.Class] = append(byClass[m.Class], m)
		}
		var classes []string
		for c := range byClass {
			classes = append(classes, c)
		}
		sort.Strings(classes)
		for _, c := range classes {
			ms := byClass[c]
			if len(ms) > 8 {
				ms = ms[:8]
			}
			l.add("nonconforming:"+ms[0].Kind, 1)
			run.Violation(i, c, witness(i, qi, s, usedText, map[string]interface{}{
				"what": "response does not conform to the advertised types", "mismatches": ms, "response": vlib.Trunc(string(b), 2500)}))
		}
	} else {
		l.add("conforming_responses", 1)
	}

	if usedDoc == doc && qi%3 == 1 {
		errorLeg(run, l, i, qi, s, adv, root, rootName, doc, text)
	}

	// second leg: the same query inside a reactive.Rerunner (every query that
	// selects one field under two aliases, and a share of the others)
	if usedDoc != doc || !(qf["same_field_two_aliases"] || qi%4 == 0) {
		return true
	}
	q2, _, err := prepare(root, text, nil)
	if err != nil {
		run.Broken(fmt.Sprintf("case %d query %d: accepted query rejected when prepared again: %v", i, qi, err))
		return true
	}
	l.add("rerunner_leg", 1)
	if qf["expensive_field_two_aliases"] {
		l.add("rerunner_leg:expensive_field_two_aliases", 1)
	}
	val2, st2, xerr2, done := executeInRerunner(s, root, q2)
	if !done {
		run.Inconclusive(fmt.Sprintf("case %d query %d: no result from the Rerunner leg within 60 s", i, qi))
		return true
	}
	if len(st2.panics) > 0 || xerr2 != nil {
		w := witness(i, qi, s, text, map[string]interface{}{"leg": "inside reactive.Rerunner with batch.WithBatching (as the HTTP handler executes)",
			"what": "a query that executes bare fails inside a reactive.Rerunner"})
		if xerr2 != nil {
			w["err"] = xerr2.Error()
		}
		if len(st2.panics) > 0 {
			w["panic"] = st2.panics[0]
		}
		run.Violation(i, "", w)
		return true
	}
	b2, err := json.Marshal(val2)
	if err != nil {
		run.Violation(i, "", witness(i, qi, s, text, map[string]interface{}{"leg": "rerunner", "what": "response is not JSON-serialisable", "err": err.Error()}))
		return true
	}
	var resp2 interface{}
	if err := json.Unmarshal(b2, &resp2); err != nil {
		run.Violation(i, "", witness(i, qi, s, text, map[string]interface{}{"leg": "rerunner", "what": "response JSON does not re-parse", "err": err.Error()}))
		return true
	}
	chk2 := &checker{a: adv, doc: doc, s: s, counts: map[string]int{}}
	chk2.object(resp2, rootName, []*qSelSet{doc.Root}, "$")
	if len(chk2.mism) > 0 {
		ms := chk2.mism
		if len(ms) > 8 {
			ms = ms[:8]
		}
		l.add("rerunner_leg_nonconforming:"+ms[0].Kind, 1)
		run.Violation(i, "", witness(i, qi, s, text, map[string]interface{}{
			"leg":  "inside reactive.Rerunner with batch.WithBatching (as the HTTP handler executes); the bare Execute of the same query conformed",
			"what": "response does not conform to the advertised types", "mismatches": ms, "response": vlib.Trunc(string(b2), 2500)}))
	} else {
		l.add("rerunner_leg_conforming", 1)
	}
	return true
}

// errorLeg executes the query again while one resolver invocation in eight
// (of the field funcs that can return an error) fails with context.Canceled,
// context.DeadlineExceeded (bare or wrapped; the request context stays alive)
// or an ordinary error. Either the query fails, or the response conforms to
// the advertised types (null only where nullable).
func errorLeg(run *vlib.Run, l *local, i, qi int, s *schemaInst, adv *advSchema, root graphql.Type, rootName string, doc *qDoc, text string) {
	kind := 1 + (i+qi)%len(injectedErrors)
	name := injectedErrors[kind-1].name
	q, _, err := prepare(root, text, nil)
	if err != nil {
		run.Broken(fmt.Sprintf("case %d query %d: accepted query rejected when prepared again: %v", i, qi, err))
		return
	}
	s.errKind.Store(int32(kind))
	val, st, xerr := execute(s, root, q)
	s.errKind.Store(0)
	if st.errInjected.Load() == 0 {
		l.add("error_leg:no_failing_resolver_reached", 1)
		return
	}
	l.add("error_leg:"+name, 1)
	w := func(extra map[string]interface{}) map[string]interface{} {
		extra["failed_resolvers"] = st.failed
		extra["leg"] = fmt.Sprintf("%d resolver invocation(s) returned %q while the request context was alive", st.errInjected.Load(), name)
		return witness(i, qi, s, text, extra)
	}
	if len(st.panics) > 0 {
		run.Violation(i, "", w(map[string]interface{}{"what": "executor panicked when a resolver returned an error", "panic": st.panics[0]}))
		return
	}
	if xerr != nil {
		l.add("error_leg_query_failed", 1)
		return
	}
	l.add("error_leg_query_succeeded", 1)
	b, err := json.Marshal(val)
	if err != nil {
		run.Violation(i, "", w(map[string]interface{}{"what": "response is not JSON-serialisable", "err": err.Error()}))
		return
	}
	var resp interface{}
	if err := json.Unmarshal(b, &resp); err != nil {
		run.Violation(i, "", w(map[string]interface{}{"what": "response JSON does not re-parse", "err": err.Error()}))
		return
	}
	chk := &checker{a: adv, doc: doc, s: s, counts: map[string]int{}}
	chk.object(resp, rootName, []*qSelSet{doc.Root}, "$")
	if len(chk.mism) > 0 {
		ms := chk.mism
		if len(ms) > 8 {
			ms = ms[:8]
		}
		l.add("error_leg_nonconforming:"+ms[0].Kind, 1)
		run.Violation(i, "", w(map[string]interface{}{
			"what": "a resolver failed, Execute reported success, and the response does not conform to the advertised types", "mismatches": ms, "response": vlib.Trunc(string(b), 2500)}))
	}
}

func evalDamaged(run *vlib.Run, l *local, i, qi int, s *schemaInst, adv *advSchema, built *graphql.Schema, doc *qDoc, dmg *damage, dtext, text string) {
	root, _ := rootOf(built, adv, doc)
	name := dmgNames[dmg.kind]
	l.add("damaged_sent:"+name, 1)
	if dmg.note != "" {
		l.add("damaged_sent:"+name+":"+dmg.note, 1)
	}
	if dmg.note2 != "" {
		l.add("damaged_sent:"+dmg.note2, 1)
	}
	_, stage, err := prepare(root, dtext, dmg.vars)
	if err != nil && stage != "panic" {
		l.add("damaged_rejected:"+name+":"+stage, 1)
		return
	}
	w := witness(i, qi, s, dtext, map[string]interface{}{"damage": name, "damage_detail": dmg.desc, "undamaged_query": text})
	if stage == "panic" {
		w["what"] = "validation panicked on a damaged query instead of rejecting it"
		w["err"] = err.Error()
	} else {
		w["what"] = "validation accepted a query with " + strings.ReplaceAll(name, "_", " ") + " in a part applicable to the advertised type"
	}
	l.add("damaged_accepted:"+name, 1)
	run.Violation(i, "", w)
}
