package c14

// Run-time schema generator: reflect.StructOf objects and arg structs,
// reflect.MakeFunc field funcs in every signature form schemabuilder accepts,
// all registration options, plus the predeclared pool.

import (
	"context"
	"encoding/json"
	"errors"
	"fmt"
	"math/rand"
	"reflect"
	"sort"
	"strings"
	"sync"
	"sync/atomic"
	"time"

	"github.com/samsarahq/thunder/batch"
	"github.com/samsarahq/thunder/graphql"
	"github.com/samsarahq/thunder/graphql/schemabuilder"
)

var (
	tErr      = reflect.TypeOf((*error)(nil)).Elem()
	tCtx      = reflect.TypeOf((*context.Context)(nil)).Elem()
	tSelSet   = reflect.TypeOf(&graphql.SelectionSet{})
	tIndex    = reflect.TypeOf(batch.Index{})
	tTime     = reflect.TypeOf(time.Time{})
	tBytes    = reflect.TypeOf([]byte(nil))
	tUnionTag = reflect.TypeOf(schemabuilder.Union{})
	tEnumI    = reflect.TypeOf(EnumI(0))
	tEnumS    = reflect.TypeOf(EnumS(""))
	tEnumAl   = reflect.TypeOf(EnumAl(0))
	tTMInt    = reflect.TypeOf(TMInt(0))
	tKeyedK   = reflect.TypeOf(KeyedK{})
	tPoolB    = reflect.TypeOf(PoolB{})
)

var builtinScalars = []reflect.Type{
	reflect.TypeOf(false), reflect.TypeOf(int(0)), reflect.TypeOf(int8(0)), reflect.TypeOf(int16(0)),
	reflect.TypeOf(int32(0)), reflect.TypeOf(int64(0)), reflect.TypeOf(uint(0)), reflect.TypeOf(uint8(0)),
	reflect.TypeOf(uint16(0)), reflect.TypeOf(uint32(0)), reflect.TypeOf(uint64(0)), reflect.TypeOf(float32(0)),
	reflect.TypeOf(float64(0)), reflect.TypeOf(""), tTime, tBytes,
}

var namedScalars = []reflect.Type{
	reflect.TypeOf(NStr("")), reflect.TypeOf(NInt(0)), reflect.TypeOf(NBool(false)),
	reflect.TypeOf(NF32(0)), reflect.TypeOf(NU8(0)),
}

var tmTypes = []reflect.Type{
	reflect.TypeOf(TMStruct{}), reflect.TypeOf(&TMStruct{}), reflect.TypeOf(&TMPtrOnly{}),
	reflect.TypeOf(TMStr("")), reflect.TypeOf(TMStruct{}), reflect.TypeOf(&TMStruct{}),
	tTMInt, reflect.PtrTo(tTMInt),
}

// oddSlices: less common slice / element shapes (named byte slices, slices of
// named uint8 with and without text marshalers, json.RawMessage, named slices
// with their own marshalers).
var tRawMessage = reflect.TypeOf(json.RawMessage(nil))

var oddSlices = []reflect.Type{
	reflect.TypeOf(NBytes(nil)), reflect.TypeOf([]NU8(nil)), reflect.TypeOf([]TMU8(nil)), reflect.TypeOf([]TMU8P(nil)),
	tRawMessage, reflect.TypeOf(TMList(nil)), reflect.TypeOf(JSList(nil)), reflect.TypeOf([]NBytes(nil)),
	reflect.TypeOf([]json.RawMessage(nil)), reflect.TypeOf(TMU8(0)), reflect.TypeOf([]*TMU8(nil)),
}

var argFieldTypes = []reflect.Type{
	reflect.TypeOf(int64(0)), reflect.TypeOf(int32(0)), reflect.TypeOf(uint8(0)), reflect.TypeOf(float64(0)),
	reflect.TypeOf(false), reflect.TypeOf(""), reflect.TypeOf((*string)(nil)), reflect.TypeOf((*int64)(nil)),
	reflect.TypeOf([]int64(nil)), reflect.TypeOf([]string(nil)), tEnumI, reflect.PtrTo(tEnumS),
	reflect.SliceOf(tEnumI), tEnumAl, reflect.SliceOf(tEnumAl), reflect.TypeOf(InpA{}), reflect.TypeOf(&InpA{}), reflect.TypeOf([]InpB(nil)),
	tTime, tBytes, reflect.TypeOf(TUnm{}), reflect.TypeOf(&TUnm{}), reflect.TypeOf(NStr("")),
	reflect.TypeOf((*bool)(nil)), reflect.TypeOf(uint64(0)), reflect.TypeOf(float32(0)),
}

type objSpec struct {
	name    string
	goType  reflect.Type
	minted  bool
	keyName string // registered through Object.Key
	funcs   []*funcSpec
	root    bool
}

type funcSpec struct {
	name      string
	owner     *objSpec
	hasCtx    bool
	srcKind   int // 0 none, 1 value, 2 pointer
	argType   reflect.Type
	hasSel    bool
	hasRet    bool
	hasErr    bool
	retType   reflect.Type
	nonNull   bool
	listNN    bool
	expensive bool
	parallel  int // 0 = option absent, otherwise value+100 returned by NumParallelInvocationsFunc
	batch     bool
	fallback  bool
	useBatch  int // fallback flag: 0 false, 1 true, 2 by salt parity
	paginated bool
	hash      uint64
}

func (f *funcSpec) sig() string {
	var sb strings.Builder
	if f.batch {
		sb.WriteString("batch:")
		if f.fallback {
			sb.WriteString("fallback:")
		}
	}
	if f.hasCtx {
		sb.WriteString("ctx,")
	}
	switch f.srcKind {
	case 1:
		sb.WriteString("src,")
	case 2:
		sb.WriteString("*src,")
	}
	if f.argType != nil {
		sb.WriteString("args,")
	}
	if f.hasSel {
		sb.WriteString("sel,")
	}
	sb.WriteString("->")
	if f.hasRet {
		sb.WriteString("ret,")
	}
	if f.hasErr {
		sb.WriteString("err")
	}
	return sb.String()
}

func (f *funcSpec) opts() string {
	var o []string
	if f.nonNull {
		o = append(o, "NonNullable")
	}
	if f.listNN {
		o = append(o, "ListEntryNonNullable")
	}
	if f.expensive {
		o = append(o, "Expensive")
	}
	if f.parallel != 0 {
		o = append(o, "NumParallelInvocationsFunc")
	}
	if f.paginated {
		o = append(o, "Paginated")
	}
	return strings.Join(o, "+")
}

// execState is what the harness observes about one Execute call from the
// inside (set by resolvers / the recovering scheduler).
type execState struct {
	mu          sync.Mutex
	panics      []string
	failed      []string    // resolvers that returned an injected error
	enumOmitted atomic.Bool // a batch func left out an entry of enum type
	tmOmitted   atomic.Bool // a batch func left out an entry of a text-marshaler struct type
	resolved    atomic.Int64
	errInjected atomic.Int64 // resolvers that returned an injected error
}

type schemaInst struct {
	idx        int
	sb         *schemabuilder.Schema
	objs       []*objSpec
	salt       atomic.Int64
	errKind    atomic.Int32 // 0: resolvers never fail; otherwise index+1 into injectedErrors
	exec       atomic.Pointer[execState]
	enumVals   map[reflect.Type][]reflect.Value
	feats      map[string]bool
	renamed    map[string]bool // union names that have a member registered under another name
	paginated  map[string]bool // "Type.field"
	shape      string
	sigHist    map[string]int
	optHist    map[string]int
	retHist    map[string]int
	minted     int
	usesTMInt  bool
	hasBatchEx bool
}

type schemaGen struct {
	r      *rand.Rand
	s      *schemaInst
	objTs  []reflect.Type // struct types usable as object results
	unions []reflect.Type
	names  map[reflect.Type]string
}

func hash64(s string) uint64 {
	var h uint64 = 1469598103934665603
	for i := 0; i < len(s); i++ {
		h ^= uint64(s[i])
		h *= 1099511628211
	}
	return h
}

// sm64 is a small deterministic rand.Source64 (splitmix64).
type sm64 struct{ x uint64 }

func (s *sm64) Uint64() uint64 {
	s.x += 0x9e3779b97f4a7c15
	z := s.x
	z = (z ^ (z >> 30)) * 0xbf58476d1ce4e5b9
	z = (z ^ (z >> 27)) * 0x94d049bb133111eb
	return z ^ (z >> 31)
}
func (s *sm64) Int63() int64    { return int64(s.Uint64() >> 1) }
func (s *sm64) Seed(seed int64) { s.x = uint64(seed) }

func newRand(seed uint64) *rand.Rand { return rand.New(&sm64{x: seed}) }

func pick(r *rand.Rand, ts []reflect.Type) reflect.Type { return ts[r.Intn(len(ts))] }

// genType produces a Go result type schemabuilder accepts.
func (g *schemaGen) genType(depth int, objs []reflect.Type) reflect.Type {
	r := g.r
	for {
		switch k := r.Intn(100); {
		case k < 22:
			return pick(r, builtinScalars)
		case k < 27:
			return pick(r, namedScalars)
		case k < 35:
			t := pick(r, builtinScalars)
			if r.Intn(4) == 0 {
				t = pick(r, namedScalars)
			}
			return reflect.PtrTo(t)
		case k < 42:
			return []reflect.Type{tEnumI, tEnumS, tEnumAl}[r.Intn(3)]
		case k < 44:
			return reflect.PtrTo([]reflect.Type{tEnumI, tEnumAl}[r.Intn(2)])
		case k < 46:
			if depth < 2 {
				continue // not inside another slice: the introspection query reports 7 wrapper levels
			}
			g.s.feats["odd_slice_types"] = true
			return pick(r, oddSlices)
		case k < 50:
			t := pick(r, tmTypes)
			if t == tTMInt || t == reflect.PtrTo(tTMInt) {
				g.s.usesTMInt = true
			}
			return t
		case k < 60:
			if len(objs) > 0 {
				return pick(r, objs)
			}
		case k < 74:
			if len(objs) > 0 {
				return reflect.PtrTo(pick(r, objs))
			}
		case k < 78:
			if len(g.unions) > 0 {
				return pick(r, g.unions)
			}
		case k < 82:
			if len(g.unions) > 0 {
				return reflect.PtrTo(pick(r, g.unions))
			}
		default:
			if depth > 0 {
				return reflect.SliceOf(g.genType(depth-1, objs))
			}
		}
	}
}

func newSchemaInst(idx int, r *rand.Rand) *schemaInst {
	s := &schemaInst{
		idx:       idx,
		sb:        schemabuilder.NewSchema(),
		enumVals:  map[reflect.Type][]reflect.Value{},
		feats:     map[string]bool{},
		renamed:   map[string]bool{},
		paginated: map[string]bool{},
		sigHist:   map[string]int{},
		optHist:   map[string]int{},
		retHist:   map[string]int{},
	}
	s.sb.Enum(EnumI(0), enumIMap)
	s.sb.Enum(EnumS(""), enumSMap)
	s.sb.Enum(EnumAl(0), enumAlMap) // alias names: LOW/MINIMUM = 0, HIGH/MAXIMUM = 1
	for _, v := range []EnumAl{0, 1, 2} {
		s.enumVals[tEnumAl] = append(s.enumVals[tEnumAl], reflect.ValueOf(v))
	}
	for _, k := range []string{"ONE", "TWO", "THREE"} {
		s.enumVals[tEnumI] = append(s.enumVals[tEnumI], reflect.ValueOf(enumIMap[k]))
	}
	for _, k := range []string{"RED", "GREEN"} {
		s.enumVals[tEnumS] = append(s.enumVals[tEnumS], reflect.ValueOf(enumSMap[k]))
	}

	g := &schemaGen{r: r, s: s, names: map[reflect.Type]string{}}

	// pool objects: PoolA/PoolB/PoolC/KeyedK always available as Go types (unions
	// need them); each is a candidate result type with some probability.
	poolObjs := []reflect.Type{reflect.TypeOf(PoolA{}), tPoolB, reflect.TypeOf(PoolC{}), tKeyedK, reflect.TypeOf(PoolEmb{})}
	for _, t := range poolObjs {
		g.names[t] = t.Name()
		if r.Intn(3) != 0 {
			g.objTs = append(g.objTs, t)
		}
	}
	if r.Intn(4) != 0 {
		g.unions = append(g.unions, reflect.TypeOf(UnionAB{}))
	}
	if r.Intn(2) == 0 {
		g.unions = append(g.unions, reflect.TypeOf(UnionBCK{}))
	}
	// a union member registered under a name that differs from its Go type name
	if len(g.unions) > 0 && r.Intn(25) == 0 {
		g.names[tPoolB] = "PoolBRenamed"
		for _, u := range g.unions {
			s.renamed[u.Name()] = true
		}
		s.feats["renamed_union_member"] = true
	}

	// minted objects
	nm := r.Intn(5)
	s.minted = nm
	var minted []*objSpec
	for m := 0; m < nm; m++ {
		name := fmt.Sprintf("M%d", m)
		fields := []reflect.StructField{{Name: "Seed", Type: reflect.TypeOf(int64(0)), Tag: reflect.StructTag(fmt.Sprintf(`graphql:"-" uniq:"%s_%d"`, name, idx))}}
		nf := 1 + r.Intn(5)
		keyed := 0 // 0 none, 1 tag, 2 Object.Key
		if r.Intn(4) == 0 {
			keyed = 1 + r.Intn(2)
		}
		keyName := ""
		for f := 0; f < nf; f++ {
			ft := g.genType(2, g.objTs)
			tag := ""
			gname := fmt.Sprintf("f%d", f)
			switch r.Intn(8) {
			case 0:
				gname = fmt.Sprintf("custom_%d", f)
				tag = fmt.Sprintf(`graphql:"%s"`, gname)
			case 1:
				if f > 0 {
					tag = `graphql:"-"`
					gname = ""
				}
			}
			if f == 0 && keyed != 0 {
				ft = []reflect.Type{reflect.TypeOf(int64(0)), reflect.TypeOf(""), reflect.TypeOf(NInt(0))}[r.Intn(3)]
				gname = "f0"
				tag = ""
				if keyed == 1 {
					tag = `graphql:"f0,key"`
				} else {
					keyName = "f0"
				}
			}
			fields = append(fields, reflect.StructField{Name: fmt.Sprintf("F%d", f), Type: ft, Tag: reflect.StructTag(tag)})
			_ = gname
		}
		st := reflect.StructOf(fields)
		g.names[st] = name
		g.objTs = append(g.objTs, st)
		minted = append(minted, &objSpec{name: name, goType: st, minted: true, keyName: keyName})
		if keyed != 0 {
			s.feats["keyed_object"] = true
		}
	}

	// object specs for everything that may be reached
	var objs []*objSpec
	objs = append(objs, minted...)
	for _, t := range poolObjs {
		o := &objSpec{name: g.names[t], goType: t}
		if t == tKeyedK {
			o.keyName = "key"
		}
		objs = append(objs, o)
	}
	query := &objSpec{name: "Query", root: true}
	mutation := &objSpec{name: "Mutation", root: true}

	// field funcs
	nq := 4 + r.Intn(6)
	for i := 0; i < nq; i++ {
		g.addFunc(query, i < 3)
	}
	for i := r.Intn(3); i > 0; i-- {
		g.addFunc(mutation, false)
	}
	for _, o := range objs {
		n := r.Intn(4)
		if o.minted {
			n = r.Intn(6)
		}
		for i := 0; i < n; i++ {
			g.addFunc(o, false)
		}
	}
	s.objs = append(objs, query, mutation)

	// registration
	for _, o := range s.objs {
		var so *schemabuilder.Object
		switch {
		case o == query:
			so = s.sb.Query()
		case o == mutation:
			so = s.sb.Mutation()
		default:
			so = s.sb.Object(o.name, reflect.New(o.goType).Elem().Interface())
			if o.keyName != "" {
				so.Key(o.keyName)
			}
		}
		for _, f := range o.funcs {
			s.register(so, f)
		}
	}

	// shape
	var parts []string
	for _, o := range s.objs {
		var fs []string
		if o.goType != nil && o.minted {
			for i := 0; i < o.goType.NumField(); i++ {
				sf := o.goType.Field(i)
				fs = append(fs, sf.Type.String()+"`"+sf.Tag.Get("graphql")+"`")
			}
		}
		for _, f := range o.funcs {
			rt := "-"
			if f.hasRet {
				rt = f.retType.String()
			}
			at := ""
			if f.argType != nil {
				at = f.argType.String()
			}
			fs = append(fs, f.sig()+"|"+f.opts()+"|"+rt+"|"+at)
		}
		sort.Strings(fs)
		parts = append(parts, o.name+"{"+strings.Join(fs, ";")+"}")
	}
	sort.Strings(parts)
	rn := ""
	if len(s.renamed) > 0 {
		rn = "renamed"
	}
	s.shape = strings.Join(parts, "\n") + rn
	return s
}

// addFunc invents one field func on o.
func (g *schemaGen) addFunc(o *objSpec, wantComposite bool) {
	r := g.r
	// names are numbered per owner, so different objects have same-named fields
	// of different types (needed by the shared-fragment damage)
	f := &funcSpec{owner: o, name: fmt.Sprintf("fn%d", len(o.funcs))}
	f.hash = hash64(o.name + "." + f.name)
	f.hasCtx = r.Intn(3) == 0
	f.hasSel = r.Intn(6) == 0
	f.hasErr = r.Intn(2) == 0
	f.hasRet = r.Intn(12) != 0
	if !o.root {
		f.srcKind = r.Intn(3)
	}
	if r.Intn(3) == 0 {
		f.argType = g.genArgs()
	}
	if f.hasRet {
		f.retType = g.genType(2, g.objTs)
		if wantComposite && len(g.objTs) > 0 {
			t := pick(r, g.objTs)
			switch r.Intn(4) {
			case 0:
				f.retType = t
			case 1:
				f.retType = reflect.PtrTo(t)
			case 2:
				f.retType = reflect.SliceOf(reflect.PtrTo(t))
			default:
				f.retType = reflect.SliceOf(t)
			}
			if len(g.unions) > 0 && r.Intn(3) == 0 {
				u := pick(r, g.unions)
				if r.Intn(2) == 0 {
					f.retType = reflect.SliceOf(u)
				} else {
					f.retType = u
				}
			}
		}
		f.nonNull = r.Intn(5) == 0
		f.listNN = r.Intn(6) == 0
	}
	if r.Intn(8) == 0 {
		f.parallel = 100 + []int{-1, 0, 1, 2, 3, 7}[r.Intn(6)]
	}
	mode := r.Intn(100)
	if o.root && mode >= 12 && mode < 34 {
		mode = 99 // no batch funcs on the root objects (their source type is unexported)
	}
	switch {
	case mode < 12:
		f.expensive = true
	case mode < 26 && !o.root:
		f.batch = true
		if f.srcKind == 0 {
			f.srcKind = 1 + r.Intn(2)
		}
		f.expensive = r.Intn(5) == 0
	case mode < 34 && !o.root:
		// batch with fallback: graphql types of both must agree, which holds for
		// nullable Go types, lists, NonNullable fields and result-less funcs
		ok := !f.hasRet || f.nonNull || f.retType.Kind() == reflect.Ptr || (f.retType.Kind() == reflect.Slice && f.retType.Elem().Kind() != reflect.Uint8 && typeClass(f.retType)[:2] == "[]")
		if ok {
			f.batch, f.fallback = true, true
			if f.srcKind == 0 {
				f.srcKind = 1 + r.Intn(2)
			}
			f.useBatch = r.Intn(3)
		}
	case mode < 42:
		if g.hasObj(tKeyedK) {
			f.paginated = true
			f.hasRet = true
			f.nonNull, f.listNN = false, false
			f.retType = reflect.SliceOf(tKeyedK)
			if r.Intn(2) == 0 {
				f.retType = reflect.SliceOf(reflect.PtrTo(tKeyedK))
			}
			if f.argType != nil && r.Intn(2) == 0 {
				f.argType = nil
			}
		}
	}
	o.funcs = append(o.funcs, f)
}

func (g *schemaGen) hasObj(t reflect.Type) bool {
	for _, x := range g.objTs {
		if x == t {
			return true
		}
	}
	return false
}

func (g *schemaGen) genArgs() reflect.Type {
	r := g.r
	n := 1 + r.Intn(4)
	var fields []reflect.StructField
	for i := 0; i < n; i++ {
		tag := ""
		switch r.Intn(6) {
		case 0:
			tag = fmt.Sprintf(`graphql:"arg_%d"`, i)
		case 1:
			tag = `graphql:",optional"`
		}
		fields = append(fields, reflect.StructField{Name: fmt.Sprintf("A%d", i), Type: pick(r, argFieldTypes), Tag: reflect.StructTag(tag)})
	}
	return reflect.StructOf(fields)
}

// register builds the reflect.MakeFunc implementation(s) of f and registers
// them on so.
func (s *schemaInst) register(so *schemabuilder.Object, f *funcSpec) {
	var opts []schemabuilder.FieldFuncOption
	if f.nonNull {
		opts = append(opts, schemabuilder.NonNullable)
	}
	if f.listNN {
		opts = append(opts, schemabuilder.ListEntryNonNullable)
	}
	if f.expensive {
		opts = append(opts, schemabuilder.Expensive)
	}
	if f.parallel != 0 {
		n := f.parallel - 100
		opts = append(opts, schemabuilder.NumParallelInvocationsFunc(func(ctx context.Context, numNodes int) int { return n }))
	}
	s.sigHist[f.sig()]++
	if o := f.opts(); o != "" {
		s.optHist[o]++
	}
	if f.hasRet {
		s.retHist[typeClass(f.retType)]++
	}
	if f.argType != nil {
		s.feats["args"] = true
	}
	if f.batch || f.expensive {
		s.hasBatchEx = true
	}
	if f.expensive {
		s.paginated["expensive:"+f.owner.name+"."+f.name] = true // hint for the query generator
	}
	owner := f.owner.goType
	switch {
	case f.paginated:
		s.paginated[f.owner.name+"."+f.name] = true
		s.feats["paginated"] = true
		so.FieldFunc(f.name, s.plainFunc(f, owner).Interface(), append(opts, schemabuilder.Paginated)...)
	case f.batch && f.fallback:
		s.feats["batch_fallback"] = true
		mode := f.useBatch
		flag := func(ctx context.Context) bool {
			switch mode {
			case 0:
				return false
			case 1:
				return true
			}
			return s.salt.Load()%2 == 0
		}
		fb := *f
		fb.batch = false
		if fb.srcKind == 0 {
			fb.srcKind = 1
		}
		so.BatchFieldFuncWithFallback(f.name, s.batchFunc(f, owner).Interface(), s.plainFunc(&fb, owner).Interface(), flag, opts...)
	case f.batch:
		s.feats["batch"] = true
		so.BatchFieldFunc(f.name, s.batchFunc(f, owner).Interface(), opts...)
	default:
		so.FieldFunc(f.name, s.plainFunc(f, owner).Interface(), opts...)
	}
}

func typeClass(t reflect.Type) string {
	switch {
	case t == tBytes:
		return "bytes"
	case t == tTime:
		return "time"
	case t.Implements(reflect.TypeOf((*interface{ MarshalText() ([]byte, error) })(nil)).Elem()):
		return "textmarshaler:" + t.Kind().String()
	case t == tEnumI || t == tEnumS || t == tEnumAl:
		return "enum"
	case t.Kind() == reflect.Ptr:
		return "*" + typeClass(t.Elem())
	case t.Kind() == reflect.Slice:
		return "[]" + typeClass(t.Elem())
	case t.Kind() == reflect.Struct:
		if isUnion(t) {
			return "union"
		}
		return "object"
	case t.PkgPath() != "":
		return "named-" + t.Kind().String()
	}
	return "scalar"
}

func isUnion(t reflect.Type) bool {
	if t.Kind() != reflect.Struct {
		return false
	}
	for i := 0; i < t.NumField(); i++ {
		if sf := t.Field(i); sf.Anonymous && sf.Type == tUnionTag {
			return true
		}
	}
	return false
}

func (s *schemaInst) seedOf(src reflect.Value) uint64 {
	for src.Kind() == reflect.Ptr {
		if src.IsNil() {
			return 0
		}
		src = src.Elem()
	}
	if src.Kind() == reflect.Struct {
		if f := src.FieldByName("Seed"); f.IsValid() && f.Kind() == reflect.Int64 {
			return uint64(f.Int())
		}
	}
	return 0
}

// injectedErrors: what a resolver may fail with in the error leg. The request
// context is alive in all of them (the resolver's own sub-context gave up).
var injectedErrors = []struct {
	name string
	err  error
}{
	{"context.Canceled", context.Canceled},
	{"context.DeadlineExceeded", context.DeadlineExceeded},
	{"wrapped context.Canceled", fmt.Errorf("downstream call: %w", context.Canceled)},
	{"wrapped context.DeadlineExceeded", fmt.Errorf("downstream call: %w", context.DeadlineExceeded)},
	{"own sub-context cancelled", func() error {
		ctx, cancel := context.WithCancel(context.Background())
		cancel()
		return fmt.Errorf("fetch: %w", ctx.Err())
	}()},
	{"ordinary error", errors.New("resolver failed")},
}

// injected decides, deterministically from the resolver's seed, whether this
// invocation fails in the error leg.
func (s *schemaInst) injected(seed uint64, st *execState, f *funcSpec) error {
	k := s.errKind.Load()
	if k == 0 || (seed*0x9e3779b97f4a7c15)>>61 != 0 { // one invocation in eight
		return nil
	}
	if st != nil {
		st.errInjected.Add(1)
		st.mu.Lock()
		st.failed = append(st.failed, f.owner.name+"."+f.name+" "+f.sig()+" "+f.opts())
		st.mu.Unlock()
	}
	return injectedErrors[k-1].err
}

func (s *schemaInst) plainFunc(f *funcSpec, owner reflect.Type) reflect.Value {
	var in, out []reflect.Type
	if f.hasCtx {
		in = append(in, tCtx)
	}
	switch f.srcKind {
	case 1:
		in = append(in, owner)
	case 2:
		in = append(in, reflect.PtrTo(owner))
	}
	if f.argType != nil {
		in = append(in, f.argType)
	}
	if f.hasSel {
		in = append(in, tSelSet)
	}
	if f.hasRet {
		out = append(out, f.retType)
	}
	if f.hasErr {
		out = append(out, tErr)
	}
	ft := reflect.FuncOf(in, out, false)
	return reflect.MakeFunc(ft, func(args []reflect.Value) []reflect.Value {
		if st := s.exec.Load(); st != nil {
			st.resolved.Add(1)
		}
		seed := uint64(s.salt.Load()) * 0x9e3779b97f4a7c15
		idx := 0
		if f.hasCtx {
			idx++
		}
		if f.srcKind != 0 {
			seed ^= s.seedOf(args[idx])
		}
		var res []reflect.Value
		if f.hasErr {
			if e := s.injected(seed^f.hash, s.exec.Load(), f); e != nil {
				if f.hasRet {
					res = append(res, reflect.Zero(f.retType))
				}
				return append(res, reflect.ValueOf(e).Convert(tErr))
			}
		}
		if f.hasRet {
			vg := &valGen{s: s, r: newRand(seed ^ f.hash)}
			if f.paginated {
				res = append(res, vg.keyedList(f.retType))
			} else {
				res = append(res, vg.value(f.retType, 2, f.nonNull))
			}
		}
		if f.hasErr {
			res = append(res, reflect.Zero(tErr))
		}
		return res
	})
}

func (s *schemaInst) batchFunc(f *funcSpec, owner reflect.Type) reflect.Value {
	var in, out []reflect.Type
	if f.hasCtx {
		in = append(in, tCtx)
	}
	src := owner
	if f.srcKind == 2 {
		src = reflect.PtrTo(owner)
	}
	in = append(in, reflect.MapOf(tIndex, src))
	if f.argType != nil {
		in = append(in, f.argType)
	}
	if f.hasSel {
		in = append(in, tSelSet)
	}
	var outMap reflect.Type
	if f.hasRet {
		outMap = reflect.MapOf(tIndex, f.retType)
		out = append(out, outMap)
	}
	if f.hasErr {
		out = append(out, tErr)
	}
	isEnum := f.hasRet && (f.retType == tEnumI || f.retType == tEnumS || f.retType == tEnumAl)
	isTM := f.hasRet && (f.retType == reflect.TypeOf(TMStruct{}) || f.retType == reflect.TypeOf(&TMStruct{}) || f.retType == reflect.TypeOf(&TMPtrOnly{}))
	ft := reflect.FuncOf(in, out, false)
	return reflect.MakeFunc(ft, func(args []reflect.Value) []reflect.Value {
		st := s.exec.Load()
		if st != nil {
			st.resolved.Add(1)
		}
		salt := uint64(s.salt.Load()) * 0x9e3779b97f4a7c15
		idx := 0
		if f.hasCtx {
			idx++
		}
		var res []reflect.Value
		if f.hasErr && args[idx].Len() > 0 { // with no sources there is no field to fail
			if e := s.injected(salt^f.hash^uint64(args[idx].Len()), st, f); e != nil {
				if f.hasRet {
					res = append(res, reflect.MakeMap(outMap))
				}
				return append(res, reflect.ValueOf(e).Convert(tErr))
			}
		}
		if f.hasRet {
			m := reflect.MakeMapWithSize(outMap, args[idx].Len())
			it := args[idx].MapRange()
			for it.Next() {
				vg := &valGen{s: s, r: newRand(salt ^ s.seedOf(it.Value()) ^ f.hash)}
				var v reflect.Value
				if f.nonNull || vg.r.Intn(5) != 0 {
					v = vg.value(f.retType, 2, f.nonNull)
				}
				// a missing entry (or a nil pointer) is how a batch func answers "null"
				if !v.IsValid() || (v.Kind() == reflect.Ptr && v.IsNil()) {
					if isEnum && st != nil {
						st.enumOmitted.Store(true)
					}
					if isTM && st != nil {
						st.tmOmitted.Store(true)
					}
				}
				if v.IsValid() {
					m.SetMapIndex(it.Key(), v)
				}
			}
			res = append(res, m)
		}
		if f.hasErr {
			res = append(res, reflect.Zero(tErr))
		}
		return res
	})
}

// valGen produces values of a Go type that are legal for thunder: valid enum
// members, one-hot unions, finite floats; nil pointers, nil and empty slices
// and nil entries in pointer lists are all produced.
type valGen struct {
	s *schemaInst
	r *rand.Rand
}

var words = []string{"", "a", "thunder", "x y", "Ünï", "0", "null"}

func (g *valGen) value(t reflect.Type, depth int, nonNil bool) reflect.Value {
	r := g.r
	if vals, ok := g.s.enumVals[t]; ok {
		return vals[r.Intn(len(vals))]
	}
	switch t {
	case tTime:
		return reflect.ValueOf(time.Unix(1500000000+int64(r.Intn(1000000)), 0).UTC())
	case tRawMessage:
		// valid JSON that is not a JSON string
		return reflect.ValueOf(json.RawMessage([]string{`{"raw":1}`, `[1,2]`, `17`, `{"a":{"b":[true]}}`}[r.Intn(4)]))
	case tBytes:
		switch r.Intn(4) {
		case 0:
			return reflect.Zero(t)
		case 1:
			return reflect.ValueOf([]byte{})
		}
		return reflect.ValueOf([]byte{byte(r.Intn(256)), 2, 3})
	}
	v := reflect.New(t).Elem()
	switch t.Kind() {
	case reflect.Bool:
		v.SetBool(r.Intn(2) == 0)
	case reflect.Int, reflect.Int8, reflect.Int16, reflect.Int32, reflect.Int64:
		v.SetInt(int64(r.Intn(200) - 100))
	case reflect.Uint, reflect.Uint8, reflect.Uint16, reflect.Uint32, reflect.Uint64:
		v.SetUint(uint64(r.Intn(200)))
	case reflect.Float32, reflect.Float64:
		v.SetFloat(float64(r.Intn(4000)-2000) / 8)
	case reflect.String:
		v.SetString(words[r.Intn(len(words))])
	case reflect.Ptr:
		if !nonNil && (depth <= 0 && t.Elem().Kind() == reflect.Struct || r.Intn(4) == 0) {
			return v // nil
		}
		p := reflect.New(t.Elem())
		p.Elem().Set(g.value(t.Elem(), depth-1, false))
		return p
	case reflect.Slice:
		n := 0
		switch k := r.Intn(6); {
		case k == 0:
			return v // nil slice
		case k == 1:
			return reflect.MakeSlice(t, 0, 0)
		default:
			n = 1 + r.Intn(3)
		}
		if depth <= 0 && n > 1 {
			n = 1
		}
		sl := reflect.MakeSlice(t, n, n)
		for i := 0; i < n; i++ {
			sl.Index(i).Set(g.value(t.Elem(), depth-1, false))
		}
		return sl
	case reflect.Struct:
		if isUnion(t) {
			var members []int
			for i := 0; i < t.NumField(); i++ {
				if sf := t.Field(i); sf.Anonymous && sf.Type.Kind() == reflect.Ptr {
					members = append(members, i)
				}
			}
			i := members[r.Intn(len(members))]
			v.Field(i).Set(g.value(t.Field(i).Type, depth, true))
			return v
		}
		for i := 0; i < t.NumField(); i++ {
			fv := v.Field(i)
			if !fv.CanSet() {
				continue
			}
			if t.Field(i).Name == "Seed" && fv.Kind() == reflect.Int64 {
				fv.SetInt(r.Int63())
				continue
			}
			fv.Set(g.value(t.Field(i).Type, depth-1, false))
		}
	}
	return v
}

// keyedList returns 0..4 KeyedK (or *KeyedK) with distinct keys.
func (g *valGen) keyedList(t reflect.Type) reflect.Value {
	n := g.r.Intn(5)
	if g.r.Intn(8) == 0 {
		return reflect.Zero(t)
	}
	sl := reflect.MakeSlice(t, n, n)
	for i := 0; i < n; i++ {
		k := KeyedK{Seed: g.r.Int63(), Key: fmt.Sprintf("k%d", i), V: int32(g.r.Intn(50))}
		if t.Elem().Kind() == reflect.Ptr {
			sl.Index(i).Set(reflect.ValueOf(&k))
		} else {
			sl.Index(i).Set(reflect.ValueOf(k))
		}
	}
	return sl
}
