package c14

import (
	"context"
	"encoding/json"
	"fmt"
	"reflect"
	"testing"

	"github.com/samsarahq/thunder/batch"
	"github.com/samsarahq/thunder/graphql"
	"github.com/samsarahq/thunder/graphql/introspection"
	"github.com/samsarahq/thunder/graphql/schemabuilder"
)

type PEnum int32
type PTMInt int32

func (p PTMInt) MarshalText() ([]byte, error) { return []byte(fmt.Sprintf("tm%d", int32(p))), nil }

type PA struct{ X int64 }
type PB struct{ Y string }
type PU struct {
	schemabuilder.Union
	*PA
	*PB
}

func runQ(t *testing.T, s *graphql.Schema, q string) {
	pq, err := graphql.Parse(q, nil)
	if err != nil {
		t.Logf("%s\n  PARSE ERR %v", q, err)
		return
	}
	if err := graphql.PrepareQuery(context.Background(), s.Query, pq.SelectionSet); err != nil {
		t.Logf("%s\n  PREPARE ERR %v", q, err)
		return
	}
	e := graphql.NewExecutor(graphql.NewImmediateGoroutineScheduler())
	v, err := e.Execute(batch.WithBatching(context.Background()), s.Query, nil, pq)
	if err != nil {
		t.Logf("%s\n  EXEC ERR %v", q, err)
		return
	}
	b, err := json.Marshal(v)
	t.Logf("%s\n  OK %s %v", q, b, err)
}

func TestProbe(t *testing.T) {
	schema := schemabuilder.NewSchema()
	schema.Enum(PEnum(0), map[string]PEnum{"one": 1, "two": 2})
	st := reflect.StructOf([]reflect.StructField{
		{Name: "Id", Type: reflect.TypeOf(int64(0)), Tag: `graphql:"id" u:"Obj1"`},
		{Name: "Bs", Type: reflect.TypeOf([]byte(nil))},
		{Name: "Tm", Type: reflect.TypeOf(PTMInt(0))},
	})
	obj := schema.Object("Obj1", reflect.New(st).Elem().Interface())
	ft := reflect.FuncOf([]reflect.Type{reflect.PtrTo(st)}, []reflect.Type{reflect.TypeOf("")}, false)
	fn := reflect.MakeFunc(ft, func(in []reflect.Value) []reflect.Value { return []reflect.Value{reflect.ValueOf("hello")} })
	obj.FieldFunc("greet", fn.Interface())
	bt := reflect.FuncOf([]reflect.Type{reflect.MapOf(reflect.TypeOf(batch.Index{}), st)}, []reflect.Type{reflect.MapOf(reflect.TypeOf(batch.Index{}), reflect.TypeOf(PEnum(0)))}, false)
	bfn := reflect.MakeFunc(bt, func(in []reflect.Value) []reflect.Value {
		return []reflect.Value{reflect.MakeMap(bt.Out(0))}
	})
	obj.BatchFieldFunc("benum", bfn.Interface())

	q := schema.Query()
	qt := reflect.FuncOf(nil, []reflect.Type{reflect.SliceOf(reflect.PtrTo(st))}, false)
	q.FieldFunc("objs", reflect.MakeFunc(qt, func(in []reflect.Value) []reflect.Value {
		v := reflect.New(st)
		v.Elem().Field(0).SetInt(7)
		s := reflect.MakeSlice(qt.Out(0), 0, 2)
		s = reflect.Append(s, v, reflect.Zero(reflect.PtrTo(st)))
		return []reflect.Value{s}
	}).Interface())
	q.FieldFunc("u", func() PU { return PU{PA: &PA{X: 1}} })
	q.FieldFunc("pu", func() *PU { return &PU{PB: &PB{Y: "y"}} })

	js, err := introspection.ComputeSchemaJSON(*schema)
	if err != nil {
		t.Fatal(err)
	}
	t.Logf("introspection bytes %d", len(js))
	s := schema.MustBuild()
	introspection.AddIntrospectionToSchema(s)
	runQ(t, s, `{ __typename }`)
	runQ(t, s, `{ objs { id bs tm greet __typename } }`)
	runQ(t, s, `{ objs { benum } }`)
	runQ(t, s, `{ u { ... on PB { y } } }`)
	runQ(t, s, `{ u { __typename } }`)
	runQ(t, s, `{ u { __typename ... on PA { x } } pu { ...F } } fragment F on PB { y }`)
	runQ(t, s, `{ u { __typename ...F } pu { ...F } } fragment F on PB { y }`)
	runQ(t, s, `{ pu { __typename ...F } u { ...G } a: u { __typename ...G } } fragment F on PB { y } fragment G on PA { x }`)
	runQ(t, s, `{ u { ... on Nope { zzz } ... on PA { x } } }`)
	runQ(t, s, `{ objs { ... on Obj1 { id } } }`)
	runQ(t, s, `{ __type(name: "Obj1") { name fields { name type { kind name ofType { kind name } } } } }`)
}
