package c14

import (
	"testing"

	"github.com/samsarahq/thunder/graphql/introspection"
	"github.com/samsarahq/thunder/graphql/schemabuilder"
)

func TestProbeRenamed(t *testing.T) {
	schema := schemabuilder.NewSchema()
	schema.Object("Renamed", PA{})
	q := schema.Query()
	q.FieldFunc("u", func() PU { return PU{PA: &PA{X: 1}} })
	s := schema.MustBuild()
	introspection.AddIntrospectionToSchema(s)
	runQ(t, s, `{ __type(name: "PU") { possibleTypes { name } } }`)
	runQ(t, s, `{ u { ... on Renamed { x } } }`)
}
