package c14

// Query generation from the advertised graph, rendering, and the four kinds
// of single damage.

import (
	"fmt"
	"math/rand"
	"sort"
	"strings"
)

type qField struct {
	Alias string
	Name  string
	Args  string
	Sub   *qSelSet
	Type  *advRef // nil for __typename
}

func (f *qField) key() string {
	if f.Alias != "" {
		return f.Alias
	}
	return f.Name
}

type qFrag struct {
	On           string
	Named        string
	Set          *qSelSet
	Inapplicable bool
	UnionSelf    bool // type condition is the enclosing union itself: applies to every member
}

type qSelSet struct {
	Scope  string // composite type the set is evaluated against
	Fields []*qField
	Frags  []*qFrag
}

type qNamed struct {
	Name string
	On   string
	Set  *qSelSet
}

type qDoc struct {
	Kind  string
	Op    string
	Root  *qSelSet
	Named []*qNamed
}

type qGen struct {
	r       *rand.Rand
	a       *advSchema
	hints   map[string]bool // harness hints: "Type.field" = paginated, "expensive:Type.field" = Expensive field func
	doc     *qDoc
	nAlias  int
	byType  map[string][]*qNamed
	feats   map[string]bool
	objList []string
}

// scope records the response names used among sibling selections (a
// selection set plus the fragments that are flattened into it).
type scope struct {
	names map[string]string // response name -> name+args
	subs  map[string]*scope // response name -> scope of its (merged) sub-selections
}

func newScope() *scope { return &scope{names: map[string]string{}, subs: map[string]*scope{}} }

func (g *qGen) alias() string {
	g.nAlias++
	return fmt.Sprintf("a%d", g.nAlias)
}

var paginationArgs = map[string]bool{"first": true, "last": true, "after": true, "before": true, "filterText": true,
	"filterTextFields": true, "sortBy": true, "sortOrder": true, "filterType": true}

func genQuery(r *rand.Rand, a *advSchema, hints map[string]bool) (*qDoc, map[string]bool, error) {
	g := &qGen{r: r, a: a, hints: hints, byType: map[string][]*qNamed{}, feats: map[string]bool{}}
	for n, t := range a.Types {
		if t.Kind == "OBJECT" {
			g.objList = append(g.objList, n)
		}
	}
	sort.Strings(g.objList)
	doc := &qDoc{Kind: "query"}
	g.doc = doc
	root := a.Query
	if a.Mutation != "" && len(a.Types[a.Mutation].Fields) > 0 && r.Intn(10) == 0 {
		doc.Kind = "mutation"
		root = a.Mutation
		g.feats["mutation"] = true
	}
	switch r.Intn(4) {
	case 0:
		doc.Op = "Op"
	}
	var err error
	doc.Root, err = g.selSet(root, 1+r.Intn(4), newScope(), 2, true, false)
	return doc, g.feats, err
}

// selSet generates a selection set for the named composite type.
func (g *qGen) selSet(typeName string, depth int, sc *scope, fragBudget int, isRoot, allAliased bool) (*qSelSet, error) {
	t := g.a.Types[typeName]
	if t == nil {
		return nil, fmt.Errorf("advertised graph references unknown type %q", typeName)
	}
	r := g.r
	set := &qSelSet{Scope: typeName}
	switch t.Kind {
	case "OBJECT":
		n := 1 + r.Intn(4)
		for i := 0; i < n && len(t.Fields) > 0; i++ {
			fd := t.Fields[r.Intn(len(t.Fields))]
			comp, err := g.a.composite(fd.Type)
			if err != nil {
				return nil, fmt.Errorf("%s.%s: %v", typeName, fd.Name, err)
			}
			if comp && depth <= 0 {
				continue
			}
			f := &qField{Name: fd.Name, Type: fd.Type}
			f.Args, err = g.args(typeName, fd)
			if err != nil {
				return nil, err
			}
			sig := f.Name + f.Args
			if prev, used := sc.names[f.Name]; allAliased || (used && (prev != sig || r.Intn(2) == 0)) || r.Intn(5) == 0 {
				f.Alias = g.alias()
				g.feats["alias"] = true
			} else if used {
				g.feats["merged_duplicate"] = true
			}
			sc.names[f.key()] = sig
			if comp {
				sub := sc.subs[f.key()]
				if sub == nil {
					sub = newScope()
					sc.subs[f.key()] = sub
				}
				f.Sub, err = g.selSet(*fd.Type.named().Name, depth-1, sub, 2, false, false)
				if err != nil {
					return nil, err
				}
			}
			if len(f.Args) > 0 {
				g.feats["args"] = true
			}
			set.Fields = append(set.Fields, f)
		}
		// the same composite field twice under two aliases, with equal arguments
		// and different sub-selections (more often for Expensive fields, whose
		// executed sub-tree is cached per selection inside a reactive.Rerunner)
		for _, f := range append([]*qField(nil), set.Fields...) {
			if f.Sub == nil || f.Type == nil {
				continue
			}
			exp := g.hints["expensive:"+typeName+"."+f.Name]
			if (exp && r.Intn(2) != 0) || (!exp && r.Intn(8) != 0) {
				continue
			}
			dup := &qField{Name: f.Name, Args: f.Args, Type: f.Type, Alias: g.alias()}
			sc.names[dup.key()] = dup.Name + dup.Args
			sub, err := g.selSet(*f.Type.named().Name, depth-1, newScope(), 2, false, false)
			if err != nil {
				return nil, err
			}
			dup.Sub = sub
			set.Fields = append(set.Fields, dup)
			g.feats["same_field_two_aliases"] = true
			if exp {
				g.feats["expensive_field_two_aliases"] = true
			}
			break
		}
		pt := 7
		if isRoot || typeName == g.a.Query || typeName == g.a.Mutation {
			// kept rare at the root: it meets a known defect there
			pt = 40
		}
		if r.Intn(pt) == 0 {
			g.addTypename(set, sc, allAliased)
		}
		if fragBudget > 0 && r.Intn(4) == 0 {
			fr, err := g.fragment(typeName, depth, sc, fragBudget-1, allAliased)
			if err != nil {
				return nil, err
			}
			set.Frags = append(set.Frags, fr)
			g.feats["object_fragment"] = true
		}
		if len(set.Fields) == 0 && len(set.Frags) == 0 {
			g.addTypename(set, sc, allAliased)
		}
	case "UNION":
		g.feats["union_scope"] = true
		if r.Intn(2) == 0 {
			g.addTypename(set, sc, allAliased)
		}
		for _, m := range t.possible {
			if r.Intn(5) < 3 {
				fr, err := g.fragment(m, depth, sc, fragBudget-1, allAliased)
				if err != nil {
					return nil, err
				}
				set.Frags = append(set.Frags, fr)
			}
		}
		if fragBudget > 0 && r.Intn(4) == 0 {
			// a fragment on the union type itself applies to every member
			fr, err := g.fragment(typeName, depth, sc, fragBudget-1, allAliased)
			if err != nil {
				return nil, err
			}
			fr.UnionSelf = true
			set.Frags = append(set.Frags, fr)
			g.feats["union_self_fragment"] = true
		}
		if r.Intn(12) == 0 {
			set.Frags = append(set.Frags, g.inapplicable(t))
			g.feats["inapplicable_fragment"] = true
		}
		if len(set.Fields) == 0 && len(set.Frags) == 0 {
			g.addTypename(set, sc, allAliased)
		}
	default:
		return nil, fmt.Errorf("selSet on %s kind %s", typeName, t.Kind)
	}
	return set, nil
}

func (g *qGen) addTypename(set *qSelSet, sc *scope, allAliased bool) {
	f := &qField{Name: "__typename"}
	if g.r.Intn(3) == 0 {
		f.Alias = g.alias()
	}
	sc.names[f.key()] = "__typename"
	set.Fields = append(set.Fields, f)
	g.feats["__typename"] = true
}

// fragment returns an inline fragment or a named-fragment spread on typeName.
func (g *qGen) fragment(typeName string, depth int, sc *scope, fragBudget int, allAliased bool) (*qFrag, error) {
	r := g.r
	if r.Intn(2) == 0 {
		// named
		if have := g.byType[typeName]; len(have) > 0 && r.Intn(2) == 0 {
			n := have[r.Intn(len(have))]
			g.feats["named_fragment_reused"] = true
			return &qFrag{On: typeName, Named: n.Name, Set: n.Set}, nil
		}
		d := depth
		if d > 2 {
			d = 2
		}
		set, err := g.selSet(typeName, d, newScope(), fragBudget, false, true)
		if err != nil {
			return nil, err
		}
		n := &qNamed{Name: fmt.Sprintf("F%d", len(g.doc.Named)), On: typeName, Set: set}
		g.doc.Named = append(g.doc.Named, n)
		g.byType[typeName] = append(g.byType[typeName], n)
		g.feats["named_fragment"] = true
		return &qFrag{On: typeName, Named: n.Name, Set: set}, nil
	}
	set, err := g.selSet(typeName, depth, sc, fragBudget, false, allAliased)
	if err != nil {
		return nil, err
	}
	return &qFrag{On: typeName, Set: set}, nil
}

// inapplicable returns a fragment whose type condition is not a member of the
// union: thunder's validation does not look at it (the property only speaks
// about applicable parts), so it may contain anything.
func (g *qGen) inapplicable(u *advType) *qFrag {
	member := map[string]bool{}
	for _, m := range u.possible {
		member[m] = true
	}
	var others []string
	for _, n := range g.objList {
		if !member[n] && n != g.a.Query && n != g.a.Mutation {
			others = append(others, n)
		}
	}
	if len(others) > 0 && g.r.Intn(2) == 0 {
		on := others[g.r.Intn(len(others))]
		return &qFrag{On: on, Inapplicable: true, Set: &qSelSet{Fields: []*qField{{Name: "__typename", Alias: g.alias()}}}}
	}
	return &qFrag{On: "ZZNoSuchType", Inapplicable: true, Set: &qSelSet{Fields: []*qField{{Name: "zzNoSuchField", Alias: g.alias()}}}}
}

func (g *qGen) args(typeName string, fd *advField) (string, error) {
	if len(fd.Args) == 0 {
		return "", nil
	}
	pag := g.hints[typeName+"."+fd.Name]
	var parts []string
	for _, a := range fd.Args {
		if pag && paginationArgs[a.Name] {
			// values of pagination arguments carry semantics (cursors, sort keys);
			// only a small page size is passed
			if a.Name == "first" && g.r.Intn(2) == 0 {
				parts = append(parts, fmt.Sprintf("first: %d", 1+g.r.Intn(3)))
			}
			continue
		}
		if a.Type.Kind != "NON_NULL" && g.r.Intn(2) == 0 {
			continue
		}
		lit, err := g.literal(a.Type, 3)
		if err != nil {
			return "", fmt.Errorf("%s.%s(%s): %v", typeName, fd.Name, a.Name, err)
		}
		parts = append(parts, a.Name+": "+lit)
	}
	if len(parts) == 0 {
		return "", nil
	}
	return "(" + strings.Join(parts, ", ") + ")", nil
}

func (g *qGen) literal(t *advRef, depth int) (string, error) {
	r := g.r
	switch t.Kind {
	case "NON_NULL":
		return g.literal(t.OfType, depth)
	case "LIST":
		n := r.Intn(3)
		var xs []string
		for i := 0; i < n; i++ {
			x, err := g.literal(t.OfType, depth-1)
			if err != nil {
				return "", err
			}
			xs = append(xs, x)
		}
		return "[" + strings.Join(xs, ", ") + "]", nil
	case "SCALAR":
		switch name := *t.Name; name {
		case "bool":
			return []string{"true", "false"}[r.Intn(2)], nil
		case "int8", "uint", "uint8", "uint16", "uint32", "uint64":
			return fmt.Sprint(r.Intn(100)), nil
		case "int", "int16", "int32", "int64":
			return fmt.Sprint(r.Intn(100) - 50), nil
		case "float32", "float64":
			return []string{"1.5", "2", "-0.25"}[r.Intn(3)], nil
		case "string":
			return []string{`"s"`, `""`, `"x y"`}[r.Intn(3)], nil
		case "Time":
			return `"2020-01-02T03:04:05Z"`, nil
		case "bytes":
			return `"AQID"`, nil
		default:
			return "", fmt.Errorf("unknown input scalar %q", name)
		}
	case "ENUM":
		et := g.a.Types[*t.Name]
		if et == nil || len(et.EnumValues) == 0 {
			return "", fmt.Errorf("enum %q not advertised", *t.Name)
		}
		v := et.EnumValues[r.Intn(len(et.EnumValues))].Name
		if r.Intn(2) == 0 {
			return v, nil
		}
		return `"` + v + `"`, nil
	case "INPUT_OBJECT":
		it := g.a.Types[*t.Name]
		if it == nil {
			return "", fmt.Errorf("input object %q not advertised", *t.Name)
		}
		var parts []string
		for _, f := range it.InputFields {
			if f.Type.Kind != "NON_NULL" && (depth <= 0 || r.Intn(2) == 0) {
				continue
			}
			x, err := g.literal(f.Type, depth-1)
			if err != nil {
				return "", err
			}
			parts = append(parts, f.Name+": "+x)
		}
		return "{" + strings.Join(parts, ", ") + "}", nil
	}
	return "", fmt.Errorf("unexpected input kind %s", t.Kind)
}

// ---- rendering and damage ----

const (
	dmgNone = iota
	dmgUnknownField
	dmgSubOnLeaf
	dmgMissingSub
	dmgUnknownInFragment
	// one named fragment spread at two places: well-formed for the object type
	// of the first, ill-formed for the (different) object type of the second,
	// where the same field name has another kind or another object type.
	// thunder applies a fragment to whatever object it is spread in.
	dmgSharedCrossType
	// one well-formed named fragment spread at two places of the same object
	// type, one of which carries an ordinary damage next to the spread.
	dmgSharedSameType
)

var dmgNames = map[int]string{dmgUnknownField: "unknown_field", dmgSubOnLeaf: "subselection_on_leaf",
	dmgMissingSub: "missing_subselection", dmgUnknownInFragment: "unknown_field_in_fragment",
	dmgSharedCrossType: "shared_fragment_second_use_other_type", dmgSharedSameType: "shared_fragment_same_type_damaged_context"}

// damage names one place of the document (by identity) and what to do there.
type damage struct {
	kind    int
	apply   int      // primitive damage applied at set/field (dmgNone: only spreads/defs)
	set     *qSelSet // dmgUnknownField, dmgUnknownInFragment
	field   *qField  // dmgSubOnLeaf, dmgMissingSub
	variant int
	spreads map[*qSelSet]string // extra named-fragment spreads appended to these sets
	defs    string              // extra fragment definitions
	desc    string
	note    string // sub-kind for the evidence histogram
	note2   string // second histogram key

	// @skip/@include on the damaged node or around it: validation must reject
	// the damage whatever the directive says.
	dir      string                 // e.g. " @skip(if: true)"; "" = none
	dirWhere int                    // dirOnNode, dirInline, dirSpread
	varDecl  string                 // variable definitions for the operation, e.g. "($zzt: Boolean!, $zzf: Boolean!)"
	vars     map[string]interface{} // variables passed to Parse
}

const (
	dirNone   = iota
	dirOnNode // on the damaged field / the damaged fragment itself
	dirInline // on an inline fragment wrapped around the damaged node
	dirSpread // on the spread of a named fragment wrapped around the damaged node
)

// wrap renders node (a field or fragment, text starting with a space) inside
// an enclosing fragment on typ that carries the damage's directive.
func (rd *renderer) wrap(typ, node string) string {
	switch rd.dmg.dirWhere {
	case dirInline:
		return " ... on " + typ + rd.dmg.dir + " {" + node + " }"
	case dirSpread:
		rd.extraDef += " fragment ZZWrap on " + typ + " {" + node + " }"
		return " ...ZZWrap" + rd.dmg.dir
	}
	return node
}

// onNode is the directive text to put on the damaged node itself.
func (rd *renderer) onNode() string {
	if rd.dmg != nil && rd.dmg.dirWhere == dirOnNode {
		return rd.dmg.dir
	}
	return ""
}

// sites lists the places of a document where damage may be applied: every
// selection set, leaf and composite field outside inapplicable fragments.
type sites struct {
	sets      []*qSelSet
	leaves    []*qField
	comps     []*qField
	unionSelf []*qSelSet       // sets inside a fragment on the union type itself
	post      map[*qSelSet]int // position in thunder's validation walk (post-order: a spread appended to a set is visited after everything else in it)
}

func (doc *qDoc) named(name string) *qNamed {
	for _, n := range doc.Named {
		if n.Name == name {
			return n
		}
	}
	return nil
}

func (doc *qDoc) sites() *sites {
	st := &sites{post: map[*qSelSet]int{}}
	seen := map[*qSelSet]bool{}
	var walk func(s *qSelSet, applicable, inSelf bool)
	walk = func(s *qSelSet, applicable, inSelf bool) {
		if seen[s] {
			return
		}
		seen[s] = true
		if applicable {
			st.sets = append(st.sets, s)
			if inSelf {
				st.unionSelf = append(st.unionSelf, s)
			}
		}
		for _, f := range s.Fields {
			if f.Sub != nil {
				if applicable {
					st.comps = append(st.comps, f)
				}
				walk(f.Sub, applicable, false)
			} else if applicable {
				st.leaves = append(st.leaves, f)
			}
		}
		for _, fr := range s.Frags {
			// named fragment bodies are walked where they are first spread, as
			// thunder's validation does
			walk(fr.Set, applicable && !fr.Inapplicable, inSelf || fr.UnionSelf)
		}
		st.post[s] = len(st.post)
	}
	walk(doc.Root, true, false)
	return st
}

// reachable returns the named fragments spread (transitively) from the root
// when the sub-selection of skip (may be nil) is left out.
func (doc *qDoc) reachable(skip *qField) map[string]bool {
	seen := map[string]bool{}
	var walk func(s *qSelSet)
	walk = func(s *qSelSet) {
		for _, f := range s.Fields {
			if f.Sub != nil && f != skip {
				walk(f.Sub)
			}
		}
		for _, fr := range s.Frags {
			if fr.Named != "" {
				if !seen[fr.Named] {
					seen[fr.Named] = true
					walk(fr.Set)
				}
			} else {
				walk(fr.Set)
			}
		}
	}
	walk(doc.Root)
	return seen
}

type renderer struct {
	a        *advSchema
	sb       *strings.Builder
	dmg      *damage
	extraDef string
}

func (rd *renderer) set(s *qSelSet) {
	rd.sb.WriteString("{")
	for _, f := range s.Fields {
		damaged := rd.dmg != nil && rd.dmg.field == f && (rd.dmg.apply == dmgMissingSub || rd.dmg.apply == dmgSubOnLeaf)
		out := rd.sb
		if damaged && rd.dmg.dirWhere >= dirInline {
			rd.sb = &strings.Builder{} // the damaged field is moved into an enclosing fragment
		}
		rd.sb.WriteString(" ")
		if f.Alias != "" {
			rd.sb.WriteString(f.Alias + ": ")
		}
		rd.sb.WriteString(f.Name + f.Args)
		if damaged {
			rd.sb.WriteString(rd.onNode())
		}
		if f.Sub != nil {
			if damaged && rd.dmg.apply == dmgMissingSub {
				rd.dmg.desc += fmt.Sprintf("sub-selection of %s.%s (%s) removed", s.Scope, f.Name, f.Type)
			} else {
				rd.sb.WriteString(" ")
				rd.set(f.Sub)
			}
		} else if damaged && rd.dmg.apply == dmgSubOnLeaf {
			inner := []string{"{ __typename }", "{ zzNoSuchField }", "{ x: __typename }"}[rd.dmg.variant%3]
			rd.sb.WriteString(" " + inner)
			rd.dmg.desc += fmt.Sprintf("%s added under leaf %s.%s (%s)", inner, s.Scope, f.Name, f.Type)
		}
		if out != rd.sb {
			node := rd.sb.String()
			rd.sb = out
			rd.sb.WriteString(rd.wrap(s.Scope, node))
		}
	}
	for _, fr := range s.Frags {
		if fr.Named != "" {
			rd.sb.WriteString(" ..." + fr.Named)
			continue
		}
		rd.sb.WriteString(" ... on " + fr.On + " ")
		rd.set(fr.Set)
	}
	if rd.dmg != nil && rd.dmg.set == s {
		switch rd.dmg.apply {
		case dmgUnknownField:
			v := [][2]string{{"zzNoSuchField", ""}, {"zzNoSuchField", " { __typename }"}, {"zzNoSuchField(x: 1)", ""}, {"zq: zzNoSuchField", ""}}[rd.dmg.variant%4]
			txt := v[0] + rd.onNode() + v[1]
			on := s.Scope
			if t := rd.a.Types[s.Scope]; t != nil && t.Kind == "UNION" && len(t.possible) > 0 && rd.dmg.variant >= 6 {
				on = t.possible[rd.dmg.variant%len(t.possible)] // enclosing fragment on a member
			}
			rd.sb.WriteString(rd.wrap(on, " "+txt))
			rd.dmg.desc += fmt.Sprintf("%q added to selection set on %s", txt, s.Scope)
		case dmgUnknownInFragment:
			on := s.Scope
			if t := rd.a.Types[s.Scope]; t != nil && t.Kind == "UNION" && len(t.possible) > 0 {
				on = t.possible[(rd.dmg.variant/2)%len(t.possible)]
				if rd.dmg.variant >= 9 {
					on = s.Scope // fragment on the union type itself
				}
			}
			var node string
			if rd.dmg.variant%2 == 0 {
				node = " ... on " + on + rd.onNode() + " { zzNoSuchField }"
			} else {
				node = " ...ZZDamage" + rd.onNode()
				rd.extraDef += " fragment ZZDamage on " + on + " { zzNoSuchField }"
			}
			rd.sb.WriteString(rd.wrap(s.Scope, node))
			rd.dmg.desc += fmt.Sprintf("fragment on %s selecting zzNoSuchField added to selection set on %s", on, s.Scope)
		}
	}
	if rd.dmg != nil {
		if name, ok := rd.dmg.spreads[s]; ok {
			rd.sb.WriteString(" ..." + name)
		}
	}
	rd.sb.WriteString(" }")
}

// render writes the document (only the fragment definitions that are still
// spread somewhere); with dmg != nil exactly one damage is applied.
func render(a *advSchema, doc *qDoc, dmg *damage) string {
	rd := &renderer{a: a, dmg: dmg, sb: &strings.Builder{}}
	rd.sb.WriteString(doc.Kind + " ")
	if doc.Op != "" {
		rd.sb.WriteString(doc.Op + " ")
	}
	if dmg != nil && dmg.varDecl != "" {
		rd.sb.WriteString(dmg.varDecl + " ")
	}
	var skip *qField
	if dmg != nil && dmg.apply == dmgMissingSub {
		skip = dmg.field
	}
	reach := doc.reachable(skip)
	rd.set(doc.Root)
	for _, n := range doc.Named {
		if reach[n.Name] {
			rd.sb.WriteString(" fragment " + n.Name + " on " + n.On + " ")
			rd.set(n.Set)
		}
	}
	rd.sb.WriteString(rd.extraDef)
	if dmg != nil {
		rd.sb.WriteString(dmg.defs)
	}
	return rd.sb.String()
}

func noRequiredArgs(f *advField) bool {
	for _, a := range f.Args {
		if a.Type.Kind == "NON_NULL" {
			return false
		}
	}
	return true
}

// crossTypeBody looks for a selection that is well-formed on object type t1
// and ill-formed on object type t2 although t2 has a field of the same name.
func crossTypeBody(r *rand.Rand, a *advSchema, t1, t2 *advType) (body, how string) {
	type cand struct{ body, how string }
	var cs []cand
	for _, f1 := range t1.Fields {
		f2 := t2.fieldByName[f1.Name]
		if f2 == nil || !noRequiredArgs(f1) || !noRequiredArgs(f2) {
			continue
		}
		c1, err1 := a.composite(f1.Type)
		c2, err2 := a.composite(f2.Type)
		if err1 != nil || err2 != nil {
			continue
		}
		switch {
		case c1 && !c2:
			cs = append(cs, cand{f1.Name + " { __typename }", "subselection_on_leaf"})
		case !c1 && c2:
			cs = append(cs, cand{f1.Name, "missing_subselection"})
		case c1 && c2:
			n1, n2 := a.Types[*f1.Type.named().Name], a.Types[*f2.Type.named().Name]
			if n1 == nil || n2 == nil || n1 == n2 || n1.Kind != "OBJECT" {
				continue
			}
			for _, m := range n1.Fields {
				mc, err := a.composite(m.Type)
				if err != nil || mc || !noRequiredArgs(m) {
					continue
				}
				if n2.Kind == "UNION" || n2.fieldByName[m.Name] == nil {
					cs = append(cs, cand{f1.Name + " { " + m.Name + " }", "unknown_nested_field"})
					break
				}
			}
		}
	}
	if len(cs) == 0 {
		return "", ""
	}
	c := cs[r.Intn(len(cs))]
	return c.body, c.how
}

// sharedDamage tries to build one of the two shared-named-fragment damages.
func sharedDamage(r *rand.Rand, a *advSchema, st *sites, kind int) *damage {
	var objSets []*qSelSet
	for _, s := range st.sets {
		if t := a.Types[s.Scope]; t != nil && t.Kind == "OBJECT" {
			objSets = append(objSets, s)
		}
	}
	if len(objSets) < 2 {
		return nil
	}
	perm := r.Perm(len(objSets))
	tries := 0
	for _, i := range perm {
		for _, j := range perm {
			if i == j {
				continue
			}
			if tries++; tries > 60 {
				return nil
			}
			s1, s2 := objSets[i], objSets[j]
			t1, t2 := a.Types[s1.Scope], a.Types[s2.Scope]
			order := "damaged_use_visited_second"
			if st.post[s2] < st.post[s1] {
				order = "damaged_use_visited_first"
			}
			switch kind {
			case dmgSharedCrossType:
				if t1 == t2 {
					continue
				}
				body, how := crossTypeBody(r, a, t1, t2)
				if body == "" {
					continue
				}
				return &damage{kind: kind, apply: dmgNone,
					spreads: map[*qSelSet]string{s1: "ZZShared", s2: "ZZShared"},
					defs:    " fragment ZZShared on " + t1.Name + " { zzs: " + body + " }",
					note:    how + ":" + order,
					desc:    fmt.Sprintf("fragment ZZShared on %s { zzs: %s } (well-formed there) also spread in a selection set on %s, where it is a %s; %s", t1.Name, body, t2.Name, how, order)}
			case dmgSharedSameType:
				if t1 != t2 {
					continue
				}
				body := "zzs: __typename"
				for _, f := range t1.Fields {
					if c, err := a.composite(f.Type); err == nil && !c && noRequiredArgs(f) {
						body = "zzs: " + f.Name
						break
					}
				}
				d := &damage{kind: kind, set: s2, variant: r.Intn(12),
					spreads: map[*qSelSet]string{s1: "ZZShared", s2: "ZZShared"},
					defs:    " fragment ZZShared on " + t1.Name + " { " + body + " }",
					note:    order,
					desc:    fmt.Sprintf("well-formed fragment ZZShared on %s { %s } spread in two selection sets on %s; in one of them (%s): ", t1.Name, body, t1.Name, order)}
				d.apply = []int{dmgUnknownField, dmgUnknownInFragment}[r.Intn(2)]
				// or damage one of the damaged set's own fields
				if len(s2.Fields) > 0 && r.Intn(2) == 0 {
					f := s2.Fields[r.Intn(len(s2.Fields))]
					d.field, d.set = f, nil
					if f.Sub != nil {
						d.apply = dmgMissingSub
					} else {
						d.apply = dmgSubOnLeaf
					}
				}
				return d
			}
		}
	}
	return nil
}

func chooseDamage(r *rand.Rand, a *advSchema, doc *qDoc) *damage {
	st := doc.sites()
	kinds := []int{dmgUnknownField, dmgUnknownInFragment, dmgSharedCrossType, dmgSharedCrossType, dmgSharedSameType}
	if len(st.leaves) > 0 {
		kinds = append(kinds, dmgSubOnLeaf)
	}
	if len(st.comps) > 0 {
		kinds = append(kinds, dmgMissingSub)
	}
	kind := kinds[r.Intn(len(kinds))]
	if kind == dmgSharedCrossType || kind == dmgSharedSameType {
		if d := sharedDamage(r, a, st, kind); d != nil {
			return d
		}
		kind = []int{dmgUnknownField, dmgUnknownInFragment}[r.Intn(2)]
	}
	d := &damage{kind: kind, apply: kind, variant: r.Intn(12)}
	switch d.kind {
	case dmgUnknownField, dmgUnknownInFragment:
		d.set = st.sets[r.Intn(len(st.sets))]
		if len(st.unionSelf) > 0 && r.Intn(3) == 0 {
			// content of a fragment on the union type itself
			d.set = st.unionSelf[r.Intn(len(st.unionSelf))]
			d.note = "inside_union_self_fragment"
		}
	case dmgSubOnLeaf:
		d.field = st.leaves[r.Intn(len(st.leaves))]
	case dmgMissingSub:
		d.field = st.comps[r.Intn(len(st.comps))]
	}
	if r.Intn(5) < 2 {
		addDirective(r, d)
	}
	return d
}

// addDirective puts @skip/@include on the damaged node or on a fragment
// wrapped around it: excluding (2 of 3) or including, with literal or
// variable conditions (variables passed to Parse or defaulted).
func addDirective(r *rand.Rand, d *damage) {
	tv, fv := "true", "false"
	mode := "literal"
	switch r.Intn(3) {
	case 1:
		tv, fv, mode = "$zzt", "$zzf", "variable"
		d.varDecl = "($zzt: Boolean!, $zzf: Boolean!)"
		d.vars = map[string]interface{}{"zzt": true, "zzf": false}
	case 2:
		tv, fv, mode = "$zzt", "$zzf", "defaulted_variable"
		d.varDecl = "($zzt: Boolean = true, $zzf: Boolean = false)"
	}
	var what string
	if r.Intn(3) != 0 {
		what = "excluded"
		d.dir = []string{" @skip(if: " + tv + ")", " @include(if: " + fv + ")", " @skip(if: " + tv + ") @include(if: " + tv + ")",
			" @include(if: " + fv + ") @skip(if: " + fv + ")"}[r.Intn(4)]
	} else {
		what = "included"
		d.dir = []string{" @skip(if: " + fv + ")", " @include(if: " + tv + ")", " @include(if: " + tv + ") @skip(if: " + fv + ")"}[r.Intn(3)]
	}
	d.dirWhere = dirOnNode + r.Intn(3)
	where := []string{"", "on_node", "on_enclosing_inline_fragment", "on_enclosing_named_spread"}[d.dirWhere]
	if d.note != "" {
		d.note += ":"
	}
	d.note += "directive:" + what + ":" + where
	d.note2 = "directive_condition:" + mode
	d.desc = "with" + d.dir + " " + strings.ReplaceAll(where, "_", " ") + " (" + mode + "): "
}
