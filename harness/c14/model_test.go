package c14

// Unit tests of the harness' own models (advert parser, generator, renderer,
// conformance oracle). Not run by the driver.

import (
	"encoding/json"
	"math/rand"
	"strings"
	"testing"
)

func str(s string) *string { return &s }

func nn(r *advRef) *advRef   { return &advRef{Kind: "NON_NULL", OfType: r} }
func list(r *advRef) *advRef { return &advRef{Kind: "LIST", OfType: r} }
func named(kind, name string) *advRef {
	return &advRef{Kind: kind, Name: str(name)}
}

func toyAdvert() *advSchema {
	mk := func(t *advType) *advType {
		t.fieldByName = map[string]*advField{}
		for _, f := range t.Fields {
			t.fieldByName[f.Name] = f
		}
		t.enumSet = map[string]bool{}
		for _, e := range t.EnumValues {
			t.enumSet[e.Name] = true
		}
		return t
	}
	a := &advSchema{Query: "Query", Types: map[string]*advType{}}
	a.Types["Query"] = mk(&advType{Kind: "OBJECT", Name: "Query", Fields: []*advField{
		{Name: "a", Type: named("OBJECT", "A")},
		{Name: "u", Type: nn(named("UNION", "U"))},
		{Name: "n", Type: nn(named("SCALAR", "int64"))},
	}})
	a.Types["A"] = mk(&advType{Kind: "OBJECT", Name: "A", Fields: []*advField{
		{Name: "id", Type: nn(named("SCALAR", "int64"))},
		{Name: "tags", Type: nn(list(nn(named("SCALAR", "string"))))},
		{Name: "e", Type: nn(named("ENUM", "E"))},
		{Name: "next", Type: named("OBJECT", "A")},
	}})
	a.Types["B"] = mk(&advType{Kind: "OBJECT", Name: "B", Fields: []*advField{
		{Name: "title", Type: nn(named("SCALAR", "string"))},
	}})
	a.Types["U"] = mk(&advType{Kind: "UNION", Name: "U", possible: []string{"A", "B"}})
	a.Types["E"] = mk(&advType{Kind: "ENUM", Name: "E", EnumValues: []struct{ Name string }{{"X"}, {"Y"}}})
	return a
}

func leaf(name, alias string, t *advRef) *qField { return &qField{Name: name, Alias: alias, Type: t} }

func TestOracle(t *testing.T) {
	a := toyAdvert()
	A := a.Types["A"]
	sub := &qSelSet{Scope: "A", Fields: []*qField{
		leaf("id", "", A.fieldByName["id"].Type), leaf("tags", "t", A.fieldByName["tags"].Type),
		leaf("e", "", A.fieldByName["e"].Type), leaf("__typename", "", nil)}}
	uset := &qSelSet{Scope: "U", Fields: []*qField{leaf("__typename", "tn", nil)}, Frags: []*qFrag{
		{On: "A", Set: &qSelSet{Scope: "A", Fields: []*qField{leaf("id", "", A.fieldByName["id"].Type)}}},
		{On: "ZZ", Inapplicable: true, Set: &qSelSet{Fields: []*qField{leaf("zz", "", nil)}}}}}
	root := &qSelSet{Scope: "Query", Fields: []*qField{
		{Name: "a", Type: a.Types["Query"].fieldByName["a"].Type, Sub: sub},
		{Name: "u", Type: a.Types["Query"].fieldByName["u"].Type, Sub: uset}}}
	doc := &qDoc{Kind: "query", Root: root}

	cases := []struct {
		resp string
		want string // "" = conforms, otherwise kind of the first mismatch
	}{
		{`{"a":{"id":1,"t":["x"],"e":"X","__typename":"A"},"u":{"tn":"A","id":2}}`, ""},
		{`{"a":null,"u":{"tn":"B"}}`, ""},
		{`{"a":{"id":1,"t":[],"e":"Y","__typename":"A","__key":1},"u":{"tn":"B"}}`, ""},
		{`{"a":{"id":1,"t":[null],"e":"Y","__typename":"A"},"u":{"tn":"B"}}`, ""}, // list entries excepted
		{`{"a":{"id":1,"t":["x"],"e":"X","__typename":"A"},"u":null}`, "null-under-non-null"},
		{`{"a":{"id":"1","t":["x"],"e":"X","__typename":"A"},"u":{"tn":"B"}}`, "scalar-kind"},
		{`{"a":{"id":1,"t":"x","e":"X","__typename":"A"},"u":{"tn":"B"}}`, "not-a-list"},
		{`{"a":{"id":1,"t":[1],"e":"X","__typename":"A"},"u":{"tn":"B"}}`, "scalar-kind"},
		{`{"a":{"id":1,"t":[],"e":"Z","__typename":"A"},"u":{"tn":"B"}}`, "enum-value"},
		{`{"a":{"id":1,"t":[],"e":"X","__typename":"B"},"u":{"tn":"B"}}`, "typename"},
		{`{"a":{"id":1,"t":[],"e":"X"},"u":{"tn":"B"}}`, "alias-set"},
		{`{"a":{"id":1,"t":[],"e":"X","__typename":"A","x":1},"u":{"tn":"B"}}`, "alias-set"},
		{`{"a":{"id":null,"t":[],"e":"X","__typename":"A"},"u":{"tn":"B"}}`, "null-under-non-null"},
		{`{"a":[],"u":{"tn":"B"}}`, "not-an-object"},
		{`{"a":null,"u":{"tn":"B","id":2}}`, "*"}, // conforms as neither member (B has no fragment: only tn)
		{`{"a":null,"u":{"tn":"C"}}`, "typename"},
		{`{"a":null}`, "alias-set"},
	}
	for _, c := range cases {
		var v interface{}
		if err := json.Unmarshal([]byte(c.resp), &v); err != nil {
			t.Fatal(err)
		}
		chk := &checker{a: a, doc: doc, counts: map[string]int{}}
		chk.object(v, "Query", []*qSelSet{root}, "$")
		got := ""
		if len(chk.mism) > 0 {
			got = chk.mism[0].Kind
		}
		if c.want == "*" && got != "" {
			continue
		}
		if got != c.want {
			t.Errorf("%s: got %q (%v) want %q", c.resp, got, chk.mism, c.want)
		}
	}
	// unmatched member of a non-null union is the classified witness
	var v interface{}
	json.Unmarshal([]byte(`{"a":null,"u":null}`), &v)
	chk := &checker{a: a, doc: doc, counts: map[string]int{}}
	chk.object(v, "Query", []*qSelSet{root}, "$")
	if len(chk.mism) != 1 || chk.mism[0].Class != classUnionUnmatched {
		t.Errorf("unmatched union member: %v", chk.mism)
	}
}

func TestRenderDamageAndStrip(t *testing.T) {
	a := toyAdvert()
	for seed := int64(0); seed < 300; seed++ {
		r := rand.New(rand.NewSource(seed))
		doc, _, err := genQuery(r, a, nil)
		if err != nil {
			t.Fatal(err)
		}
		text := render(a, doc, nil)
		if strings.Contains(text, "zzNoSuchField") && !strings.Contains(text, "ZZNoSuchType") {
			t.Fatalf("undamaged query mentions the damage marker: %s", text)
		}
		for _, n := range doc.Named {
			if !strings.Contains(text, "..."+n.Name) || !strings.Contains(text, "fragment "+n.Name+" on") {
				t.Fatalf("named fragment %s not both defined and spread: %s", n.Name, text)
			}
		}
		d := chooseDamage(r, a, doc)
		dt := render(a, doc, d)
		if dt == text || d.desc == "" {
			t.Fatalf("damage %d not applied: %s", d.kind, dt)
		}
		// exactly one damage: removing it gives the original back for the additive kinds
		if d.apply != dmgMissingSub && len(dt) <= len(text) {
			t.Fatalf("additive damage did not grow the query: %s -> %s", text, dt)
		}
		if d.apply == dmgMissingSub {
			// every fragment definition that remains is still spread somewhere
			for _, n := range doc.Named {
				def := strings.Contains(dt, "fragment "+n.Name+" on")
				use := strings.Contains(dt, "..."+n.Name+" ") || strings.Contains(dt, "..."+n.Name+"}")
				if def && !use {
					t.Fatalf("definition of unused fragment %s kept: %s", n.Name, dt)
				}
			}
		}
		nd := stripRootTypename(doc, "Query")
		if nd.Root != nil {
			st := render(a, nd, nil)
			for _, g := range collect([]*qSelSet{nd.Root}, "Query") {
				if g.fields[0].Name == "__typename" {
					t.Fatalf("root __typename survived stripping: %s", st)
				}
			}
		}
	}
}
