package c14

import (
	"encoding/json"
	"fmt"
	"os"
	"strings"
	"testing"

	"github.com/samsarahq/thunder/verifharness/vlib"
)

func TestDebugUnion(t *testing.T) {
	if os.Getenv("C14_DEBUG") == "" {
		t.Skip()
	}
	run := vlib.Start(t, "C14", "exploration")
	shown := 0
	for i := 0; i < 40 && shown < 6; i++ {
		s := newSchemaInst(i, run.Rand("schema", i))
		js, built, err := tryBuild(s)
		if err != nil {
			t.Fatal(err)
		}
		adv, _ := parseAdvert(js)
		for q := 0; q < 40 && shown < 6; q++ {
			rq := run.Rand("query", i*1000+q)
			doc, qf, _ := genQuery(rq, adv, s.paginated)
			if !qf["union_scope"] {
				continue
			}
			text := render(adv, doc, nil)
			if strings.Contains(text, "query { __typename") || doc.Kind != "query" {
				continue
			}
			root, _ := rootOf(built, adv, doc)
			pq, _, err := prepare(root, text)
			if err != nil {
				continue
			}
			val, st, xerr := execute(s, root, pq)
			b, _ := json.Marshal(val)
			fmt.Println("Q:", text)
			fmt.Println("R:", string(b), xerr, len(st.panics))
			shown++
		}
	}
}
