package c14

// Predeclared pool: Go type shapes that reflection cannot mint at run time
// (named scalars, enums, unions, text marshalers, named input objects, keyed
// and recursive objects). Every object carries a hidden Seed so field funcs
// can derive their result deterministically from their source.

import (
	"fmt"
	"time"

	"github.com/samsarahq/thunder/graphql/schemabuilder"
)

// enums
type EnumI int32
type EnumS string

// EnumAl gives two names to one value (alias names).
type EnumAl int32

var enumAlMap = map[string]EnumAl{"LOW": 0, "MINIMUM": 0, "HIGH": 1, "MAXIMUM": 1, "MID": 2}

var enumIMap = map[string]EnumI{"ONE": 1, "TWO": 2, "THREE": 3}
var enumSMap = map[string]EnumS{"RED": "r", "GREEN": "g"}

// named scalars
type NStr string
type NInt int64
type NBool bool
type NF32 float32
type NU8 uint8

// text marshalers
type TMStruct struct{ A, B int }

func (t TMStruct) MarshalText() ([]byte, error) { return []byte(fmt.Sprintf("%d-%d", t.A, t.B)), nil }

type TMPtrOnly struct{ V int }

func (t *TMPtrOnly) MarshalText() ([]byte, error) { return []byte(fmt.Sprintf("p%d", t.V)), nil }

// TMInt is a named integer that implements encoding.TextMarshaler.
type TMInt int32

func (t TMInt) MarshalText() ([]byte, error) { return []byte(fmt.Sprintf("tm%d", int32(t))), nil }

// TMStr is a named string that implements encoding.TextMarshaler.
type TMStr string

func (t TMStr) MarshalText() ([]byte, error) { return []byte("tm:" + string(t)), nil }

// less common element / slice shapes
type NBytes []byte // named byte slice

// TMU8 is a named uint8 with a value-receiver MarshalText.
type TMU8 uint8

func (t TMU8) MarshalText() ([]byte, error) { return []byte(fmt.Sprintf("c%d", uint8(t))), nil }

// TMU8P is a named uint8 whose MarshalText has a pointer receiver.
type TMU8P uint8

func (t *TMU8P) MarshalText() ([]byte, error) { return []byte(fmt.Sprintf("p%d", uint8(*t))), nil }

// TMList is a named slice that marshals itself as text.
type TMList []int32

func (t TMList) MarshalText() ([]byte, error) { return []byte(fmt.Sprintf("list-of-%d", len(t))), nil }

// JSList is a named slice with its own MarshalJSON.
type JSList []string

func (t JSList) MarshalJSON() ([]byte, error) { return []byte(fmt.Sprintf(`{"n":%d}`, len(t))), nil }

// text unmarshaler (args only)
type TUnm struct{ S string }

func (t *TUnm) UnmarshalText(b []byte) error { t.S = string(b); return nil }

// named input objects
type InpB struct {
	Z bool
	E EnumI
}
type InpA struct {
	X    int64
	Y    *string
	Sub  *InpB
	Subs []InpB
}

// objects
type PoolA struct {
	Seed       int64 `graphql:"-"`
	Name       string
	N          int64
	Flag       *bool
	E          EnumI
	unexported int
}

type PoolB struct {
	Seed  int64 `graphql:"-"`
	Title NStr
	Vals  []float64
	A     *PoolA
	When  time.Time `graphql:"whenAt"`
	Raw   []byte
}

// PoolC is recursive and keyed through a struct tag.
type PoolC struct {
	Seed int64 `graphql:"-"`
	Id   int64 `graphql:"id,key"`
	Tags []string
	Next *PoolC
	Kids []*PoolC
}

// KeyedK is keyed through Object.Key (usable with Paginated).
type KeyedK struct {
	Seed int64 `graphql:"-"`
	Key  string
	V    int32
	Opt  *EnumS `graphql:"-"`
}

// PoolEmb has an embedded struct and a nested value struct.
type PoolEmb struct {
	Seed int64 `graphql:"-"`
	PoolA
	Inner PoolB
	Color EnumS
	Level EnumAl
}

// unions
type UnionAB struct {
	schemabuilder.Union
	*PoolA
	*PoolB
}

type UnionBCK struct {
	schemabuilder.Union
	*PoolB
	*PoolC
	*KeyedK
}

var _ = PoolA{}.unexported
