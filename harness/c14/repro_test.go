package c14

// Minimal inputs for the findings in FINDINGS.md, run against the real code.
// Not part of the check (the driver runs ^TestCheck only); it only logs what
// thunder answers:
//   go test -tags verif -run TestReproFindings -v ./c14/

import (
	"context"
	"encoding/json"
	"fmt"
	"testing"

	"github.com/samsarahq/thunder/batch"
	"github.com/samsarahq/thunder/graphql"
	"github.com/samsarahq/thunder/graphql/introspection"
	"github.com/samsarahq/thunder/graphql/schemabuilder"
)

type ReproObj struct {
	Raw   []byte
	Color TMInt
}

func reproRun(t *testing.T, s *graphql.Schema, q string) {
	pq, err := graphql.Parse(q, nil)
	if err != nil {
		t.Logf("%s\n    Parse: %v", q, err)
		return
	}
	if err := graphql.PrepareQuery(context.Background(), s.Query, pq.SelectionSet); err != nil {
		t.Logf("%s\n    PrepareQuery: %v", q, err)
		return
	}
	st := &execState{}
	e := graphql.NewExecutor(&recoveringScheduler{inner: graphql.NewImmediateGoroutineScheduler(), st: st})
	v, err := e.Execute(batch.WithBatching(context.Background()), s.Query, nil, pq)
	if len(st.panics) > 0 {
		t.Logf("%s\n    PrepareQuery ok; Execute PANICS: %.80s", q, st.panics[0])
		return
	}
	if err != nil {
		t.Logf("%s\n    PrepareQuery ok; Execute error: %v", q, err)
		return
	}
	b, _ := json.Marshal(v)
	t.Logf("%s\n    PrepareQuery ok; Execute ok: %s", q, b)
}

func TestReproFindings(t *testing.T) {
	build := func(renamed bool) *graphql.Schema {
		schema := schemabuilder.NewSchema()
		schema.Enum(EnumI(0), enumIMap)
		if renamed {
			schema.Object("PoolBRenamed", PoolB{})
		}
		obj := schema.Object("ReproObj", ReproObj{})
		obj.BatchFieldFunc("benum", func(in map[batch.Index]ReproObj) map[batch.Index]EnumI {
			return map[batch.Index]EnumI{} // "null" for every source
		})
		obj.BatchFieldFunc("btm", func(in map[batch.Index]ReproObj) map[batch.Index]*TMStruct {
			return map[batch.Index]*TMStruct{}
		})
		q := schema.Query()
		q.FieldFunc("obj", func() ReproObj { return ReproObj{Color: 3} })
		q.FieldFunc("u", func() UnionAB { return UnionAB{PoolA: &PoolA{Name: "a", E: 1}} })
		s, err := schema.Build()
		if err != nil {
			t.Logf("builder refuses the schema (renamed=%v): %v", renamed, err)
			return nil
		}
		introspection.AddIntrospectionToSchema(s)
		return s
	}
	s := build(false)
	reproRun(t, s, `{ __type(name: "ReproObj") { fields { name type { kind name ofType { kind name } } } } }`)
	fmt.Println()
	reproRun(t, s, `{ __typename }`)
	reproRun(t, s, `{ obj { raw } }`)
	reproRun(t, s, `{ obj { color } }`)
	reproRun(t, s, `{ obj { benum } }`)
	reproRun(t, s, `{ obj { btm } }`)
	reproRun(t, s, `{ u { ... on PoolB { title } } }`)
	reproRun(t, s, `{ a: u { __typename ...F } b: u { ...F } } fragment F on PoolA { name }`)
	if rs := build(true); rs != nil {
		reproRun(t, rs, `{ u { __typename } }`)
	}
}
