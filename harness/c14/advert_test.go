package c14

// The advertised type graph: what introspection.ComputeSchemaJSON says.

import (
	"encoding/json"
	"fmt"
	"sort"
)

type advRef struct {
	Kind   string  `json:"kind"`
	Name   *string `json:"name"`
	OfType *advRef `json:"ofType"`
}

type advInput struct {
	Name string  `json:"name"`
	Type *advRef `json:"type"`
}

type advField struct {
	Name string      `json:"name"`
	Args []*advInput `json:"args"`
	Type *advRef     `json:"type"`
}

type advType struct {
	Kind          string                  `json:"kind"`
	Name          string                  `json:"name"`
	Fields        []*advField             `json:"fields"`
	InputFields   []*advInput             `json:"inputFields"`
	EnumValues    []struct{ Name string } `json:"enumValues"`
	PossibleTypes []*advRef               `json:"possibleTypes"`

	fieldByName map[string]*advField
	enumSet     map[string]bool
	possible    []string
}

type advSchema struct {
	Types    map[string]*advType
	Query    string
	Mutation string
}

func parseAdvert(js []byte) (*advSchema, error) {
	var doc struct {
		Schema struct {
			QueryType    *struct{ Name string } `json:"queryType"`
			MutationType *struct{ Name string } `json:"mutationType"`
			Types        []*advType             `json:"types"`
		} `json:"__schema"`
	}
	if err := json.Unmarshal(js, &doc); err != nil {
		return nil, err
	}
	a := &advSchema{Types: map[string]*advType{}}
	if doc.Schema.QueryType == nil {
		return nil, fmt.Errorf("introspection has no queryType")
	}
	a.Query = doc.Schema.QueryType.Name
	if doc.Schema.MutationType != nil {
		a.Mutation = doc.Schema.MutationType.Name
	}
	for _, t := range doc.Schema.Types {
		if _, dup := a.Types[t.Name]; dup {
			return nil, fmt.Errorf("introspection lists type %q twice", t.Name)
		}
		t.fieldByName = map[string]*advField{}
		for _, f := range t.Fields {
			t.fieldByName[f.Name] = f
		}
		sort.Slice(t.Fields, func(i, j int) bool { return t.Fields[i].Name < t.Fields[j].Name })
		t.enumSet = map[string]bool{}
		for _, e := range t.EnumValues {
			t.enumSet[e.Name] = true
		}
		for _, p := range t.PossibleTypes {
			if p.Name != nil {
				t.possible = append(t.possible, *p.Name)
			}
		}
		sort.Strings(t.possible)
		a.Types[t.Name] = t
	}
	return a, nil
}

// named strips wrappers and returns the named type reference.
func (r *advRef) named() *advRef {
	for r != nil && (r.Kind == "NON_NULL" || r.Kind == "LIST") {
		r = r.OfType
	}
	return r
}

func (r *advRef) String() string {
	if r == nil {
		return "?"
	}
	switch r.Kind {
	case "NON_NULL":
		return r.OfType.String() + "!"
	case "LIST":
		return "[" + r.OfType.String() + "]"
	}
	if r.Name == nil {
		return r.Kind
	}
	return *r.Name
}

func (r *advRef) hasList() bool {
	for x := r; x != nil; x = x.OfType {
		if x.Kind == "LIST" {
			return true
		}
	}
	return false
}

// composite reports whether a selection of this type needs sub-selections.
func (a *advSchema) composite(r *advRef) (bool, error) {
	n := r.named()
	if n == nil || n.Name == nil {
		return false, fmt.Errorf("type reference %s does not end in a named type (wrapper nesting deeper than the introspection query reports?)", r)
	}
	switch n.Kind {
	case "OBJECT", "UNION":
		return true, nil
	case "SCALAR", "ENUM":
		return false, nil
	}
	return false, fmt.Errorf("unexpected output kind %s", n.Kind)
}

// scalarKind maps thunder's scalar names to the JSON kind they must have.
func scalarKind(name string) string {
	switch name {
	case "bool":
		return "bool"
	case "int", "int8", "int16", "int32", "int64", "uint", "uint8", "uint16", "uint32", "uint64", "float32", "float64":
		return "number"
	case "string", "Time", "bytes":
		return "string"
	}
	return ""
}

// features of the advertised graph used by the non-triviality rule.
func (a *advSchema) features() map[string]bool {
	f := map[string]bool{}
	for _, t := range a.Types {
		if t.Kind != "OBJECT" {
			continue
		}
		for _, fd := range t.Fields {
			if len(fd.Args) > 0 {
				f["args"] = true
			}
			n := fd.Type.named()
			if n == nil {
				continue
			}
			switch n.Kind {
			case "UNION":
				f["union"] = true
			case "ENUM":
				f["enum"] = true
			}
			if (n.Kind == "OBJECT" || n.Kind == "UNION") && fd.Type.hasList() {
				f["list_of_objects"] = true
			}
			if fd.Type.Kind == "OBJECT" {
				f["nullable_object"] = true
			}
		}
	}
	return f
}
