package c14

// Conformance of a JSON response to the advertised types, for the selection
// tree that was sent.

import (
	"fmt"
	"sort"
	"strings"
)

type mismatch struct {
	Path   string `json:"path"`
	Kind   string `json:"kind"`
	Detail string `json:"detail"`
	Class  string `json:"class"`
}

type checker struct {
	a      *advSchema
	doc    *qDoc
	s      *schemaInst
	mism   []mismatch
	counts map[string]int
	trial  bool
}

func (c *checker) fail(path, kind, class, format string, args ...interface{}) {
	c.mism = append(c.mism, mismatch{Path: path, Kind: kind, Class: class, Detail: fmt.Sprintf(format, args...)})
}

func (c *checker) count(k string) {
	if !c.trial {
		c.counts[k]++
	}
}

type group struct {
	key    string
	fields []*qField
}

// collect flattens the selection sets for an object of concrete type T: the
// fields of the sets and of every fragment whose type condition is T.
func collect(sets []*qSelSet, T string) []*group {
	var order []*group
	idx := map[string]*group{}
	var walk func(s *qSelSet)
	walk = func(s *qSelSet) {
		for _, f := range s.Fields {
			g := idx[f.key()]
			if g == nil {
				g = &group{key: f.key()}
				idx[f.key()] = g
				order = append(order, g)
			}
			g.fields = append(g.fields, f)
		}
		for _, fr := range s.Frags {
			if !fr.Inapplicable && (fr.On == T || fr.UnionSelf) {
				walk(fr.Set)
			}
		}
	}
	for _, s := range sets {
		walk(s)
	}
	return order
}

func jsonKind(v interface{}) string {
	switch v.(type) {
	case nil:
		return "null"
	case bool:
		return "bool"
	case float64:
		return "number"
	case string:
		return "string"
	case []interface{}:
		return "array"
	case map[string]interface{}:
		return "object"
	}
	return fmt.Sprintf("%T", v)
}

// covered reports whether every member of union u has an applicable fragment.
func (c *checker) uncoveredMember(u *advType, sets []*qSelSet) string {
	var has func(s *qSelSet, m string) bool
	has = func(s *qSelSet, m string) bool {
		for _, fr := range s.Frags {
			if fr.Inapplicable {
				continue
			}
			if fr.On == m || (fr.UnionSelf && has(fr.Set, m)) {
				return true
			}
		}
		return false
	}
	for _, m := range u.possible {
		found := false
		for _, s := range sets {
			if has(s, m) {
				found = true
			}
		}
		if !found {
			return m
		}
	}
	return ""
}

func (c *checker) value(v interface{}, t *advRef, sets []*qSelSet, path string) {
	switch t.Kind {
	case "NON_NULL":
		if v == nil {
			class := ""
			n := t.named()
			switch {
			case t.OfType.Kind == "SCALAR" && *t.OfType.Name == "bytes":
				class = classBytesNull
			case t.OfType.Kind == "UNION":
				if m := c.uncoveredMember(c.a.Types[*n.Name], sets); m != "" {
					class = classUnionUnmatched
				}
			}
			c.fail(path, "null-under-non-null", class, "null where %s is advertised", t)
			return
		}
		c.value(v, t.OfType, sets, path)
		return
	}
	if v == nil {
		c.count("null_under_nullable:" + t.Kind)
		return
	}
	switch t.Kind {
	case "LIST":
		arr, ok := v.([]interface{})
		if !ok {
			c.fail(path, "not-a-list", "", "%s where %s is advertised", jsonKind(v), t)
			return
		}
		c.count("list")
		if len(arr) == 0 {
			c.count("list_empty")
		}
		for i, e := range arr {
			if e == nil {
				// list entries are excepted by the property
				c.count("null_list_entry")
				continue
			}
			c.value(e, t.OfType, sets, fmt.Sprintf("%s[%d]", path, i))
		}
	case "SCALAR":
		want := scalarKind(*t.Name)
		if want == "" {
			c.fail(path, "unknown-scalar", "", "scalar %q has no known JSON kind", *t.Name)
			return
		}
		c.count("scalar:" + *t.Name)
		if got := jsonKind(v); got != want {
			class := ""
			if got == "string" && want == "number" && c.s != nil && c.s.usesTMInt && *t.Name == "int32" {
				class = classNamedScalarText
			}
			c.fail(path, "scalar-kind", class, "JSON %s (%v) where scalar %s is advertised", got, v, *t.Name)
		}
	case "ENUM":
		et := c.a.Types[*t.Name]
		s, ok := v.(string)
		if !ok || et == nil || !et.enumSet[s] {
			c.fail(path, "enum-value", "", "%v is not among the advertised values of %s", v, *t.Name)
			return
		}
		c.count("enum")
	case "OBJECT":
		c.object(v, *t.Name, sets, path)
	case "UNION":
		c.union(v, *t.Name, sets, path)
	default:
		c.fail(path, "unexpected-kind", "", "advertised output kind %s", t.Kind)
	}
}

func (c *checker) object(v interface{}, T string, sets []*qSelSet, path string) {
	m, ok := v.(map[string]interface{})
	if !ok {
		c.fail(path, "not-an-object", "", "%s where object %s is advertised", jsonKind(v), T)
		return
	}
	at := c.a.Types[T]
	if at == nil {
		c.fail(path, "unknown-type", "", "type %s is not advertised", T)
		return
	}
	c.count("object")
	groups := collect(sets, T)
	want := map[string]*group{}
	for _, g := range groups {
		want[g.key] = g
	}
	var missing, extra []string
	for k := range want {
		if _, ok := m[k]; !ok {
			missing = append(missing, k)
		}
	}
	for k := range m {
		if _, ok := want[k]; !ok {
			if k == "__key" {
				// reserved marker the executor adds for keyed objects (consumed by
				// package diff); not a selected field
				c.count("__key_marker")
				continue
			}
			extra = append(extra, k)
		}
	}
	if len(missing)+len(extra) > 0 {
		sort.Strings(missing)
		sort.Strings(extra)
		class := ""
		if len(missing) == 0 && c.leakExplains(m, extra, T) {
			class = classTypenameLeak
		}
		c.fail(path, "alias-set", class, "object %s has fields missing=%v extra=%v (selected %d)", T, missing, extra, len(want))
	}
	for _, g := range groups {
		fv, ok := m[g.key]
		if !ok {
			continue
		}
		f := g.fields[0]
		p := path + "." + g.key
		if f.Name == "__typename" {
			c.count("__typename")
			if s, ok := fv.(string); !ok || s != T {
				c.fail(p, "typename", "", "__typename %v on an object advertised as %s", fv, T)
			}
			continue
		}
		fd := at.fieldByName[f.Name]
		if fd == nil {
			c.fail(p, "harness", "", "selected field %s.%s is not advertised", T, f.Name)
			continue
		}
		var subs []*qSelSet
		for _, x := range g.fields {
			if x.Sub != nil {
				subs = append(subs, x.Sub)
			}
		}
		if len(g.fields) > 1 {
			c.count("merged_alias")
		}
		c.value(fv, fd.Type, subs, p)
	}
}

func (c *checker) union(v interface{}, U string, sets []*qSelSet, path string) {
	ut := c.a.Types[U]
	if ut == nil {
		c.fail(path, "unknown-type", "", "union %s is not advertised", U)
		return
	}
	if _, ok := v.(map[string]interface{}); !ok {
		c.fail(path, "not-an-object", "", "%s where union %s is advertised", jsonKind(v), U)
		return
	}
	c.count("union")
	// The concrete member is not part of the response (unless __typename was
	// selected), so the value must conform as some advertised member. When it
	// conforms as none, the mismatches of the member whose own field set fits
	// best are reported.
	var best []mismatch
	bestRank := -1
	for _, m := range ut.possible {
		p := path + "<" + m + ">"
		t := &checker{a: c.a, doc: c.doc, s: c.s, counts: c.counts, trial: true}
		t.object(v, m, sets, p)
		if len(t.mism) == 0 {
			// conforms as member m; count for real
			c.object(v, m, sets, p)
			return
		}
		rank := len(t.mism)
		for _, x := range t.mism {
			if x.Path == p || (x.Kind == "typename" && strings.Count(x.Path[len(p):], ".") == 1) {
				rank += 1000
			}
		}
		if bestRank < 0 || rank < bestRank {
			best, bestRank = t.mism, rank
		}
	}
	if len(ut.possible) == 0 {
		c.fail(path, "union-no-members", "", "union %s advertises no possible types", U)
		return
	}
	c.mism = append(c.mism, best...)
}

// leakExplains recognises the "__typename pushed into a shared fragment"
// witness: every extra key is the response name of a union-level __typename
// selection, carries this object's type name, and the document spreads some
// named fragment both under such a union selection and elsewhere.
func (c *checker) leakExplains(m map[string]interface{}, extra []string, T string) bool {
	if c.doc == nil {
		return false
	}
	unionTypenameKeys := map[string]bool{}
	uses := map[string]int{}
	underUnionTypename := map[string]bool{}
	var walk func(s *qSelSet)
	walk = func(s *qSelSet) {
		isUnion := false
		if t := c.a.Types[s.Scope]; t != nil && t.Kind == "UNION" {
			isUnion = true
		}
		hasTN := false
		for _, f := range s.Fields {
			if isUnion && f.Name == "__typename" {
				hasTN = true
				unionTypenameKeys[f.key()] = true
			}
			if f.Sub != nil {
				walk(f.Sub)
			}
		}
		for _, fr := range s.Frags {
			if fr.Named != "" {
				uses[fr.Named]++
				if isUnion && hasTN {
					underUnionTypename[fr.Named] = true
				}
			} else {
				walk(fr.Set)
			}
		}
	}
	walk(c.doc.Root)
	for _, n := range c.doc.Named {
		walk(n.Set)
	}
	shared := false
	for n := range underUnionTypename {
		if uses[n] >= 2 {
			shared = true
		}
	}
	if !shared {
		return false
	}
	for _, k := range extra {
		if !unionTypenameKeys[k] {
			return false
		}
		if s, ok := m[k].(string); !ok || s != T {
			return false
		}
	}
	return true
}

func describe(ms []mismatch) string {
	var parts []string
	for _, m := range ms {
		parts = append(parts, m.Path+": "+m.Detail)
	}
	return strings.Join(parts, "; ")
}
