//go:build verif

// Package c08 monitors property C08: reactive.Cache never serves superseded
// values once changes stop, and every resource a computation registered has
// its Cleanup callback run exactly once, not before the last computation
// depending on it is superseded, failed or stopped.
package c08

import (
	"fmt"
	"strings"
	"testing"

	"github.com/samsarahq/thunder/verifharness/reactx"
	"github.com/samsarahq/thunder/verifharness/vlib"
)

var points = []string{
	"cache.locked", "cache.hit", "cache.miss", "cache.set",
	"reactive.release.flagged", "reactive.release.edge", "rerunner.run.cleaned",
}

var actions = []string{reactx.WInvalidate, "invalidate-child-leaf", "stop", "purge"}

// owned lists the finding kinds that are verdicts of C08. (Overlap and
// run-after-stop belong to C04, which runs the same machinery.)
var owned = map[string]bool{
	reactx.KStale: true, reactx.KLivelock: true,
	reactx.KDouble: true, reactx.KLeak: true, reactx.KEarly: true,
}

func TestCheck(t *testing.T) {
	run := vlib.Start(t, "C08", "fault_enumeration")
	defer run.Finish()
	run.Rule("Two drivers over the real reactive package (reactive.WriteThenReadDelay seeded per scenario: 0 in ~40%, else 0.3-2 ms; minRerunInterval 200-1000us). " +
		"Cached children can hang off a 'switch' cell (used only while its version is odd), so cache keys drop out of a computation - the child is released while possibly still cached - and come back; the matrix base workload switches two such children off, changes their leaves and switches them on again. " +
		"Non-reactive readers (reactive.AddDependency with a context without rerunner) read shared cells concurrently with the rerunners, and some compute functions spawn a goroutine that outlives its run and calls AddDependency with the old context after the computation was superseded, failed or stopped (both are already-released dependants; before such a call the monitor notes whether the resource has a zero-holder moment, in which case thunder may legitimately release it). " +
		"Some optional cached children are requested, in early runs, through reactive.Cache with a derived context that is already cancelled or is cancelled a few microseconds into the call; the error is tolerated and later runs use the live context again. " +
		"Expirations of different lengths in one run: the root registers a short reactive.InvalidateAfter first and a cached child a longer one; that child also reads a cell without registering it (a value with a time-to-live), which must be refreshed after the child's own deadline (judged by the <=50-runs-after-the-last-write bound, never by wall time). " +
		"When the delay is non-zero, Stops are aimed at the write-then-read delay of a re-run (write to a cell the rerunner reads, sleep part of the delay, Stop). " +
		"TARGETED: the complete matrix {cache.locked, cache.hit, cache.miss, cache.set, reactive.release.flagged, reactive.release.edge, rerunner.run.cleaned} x " +
		"{invalidate a direct leaf, invalidate a cached child's other leaf, Stop, PurgeCache} x {visit 1..3} x {alwaysSpawnGoroutine false,true}; base workload = 3 rerunners over 5 cells, cached children a(c2,c3), b(c3)->g(c2), g also used by the root (key shared by siblings), " +
		"conditional leaf (resource released while the rerunner lives), one planned retry (cache purged by thunder), PurgeCache between runs, InvalidateAfter / timer resources 1.5-5 ms, paced writes of both styles, Stop half-way; unfired cells are retried with up to 2 more schedules. " +
		"RANDOM: 1-4 rerunners x 1-5 shared cells, plans with cached children depth<=2 drawn from pools (same key twice under one parent, grandchild key also used by the root), concurrent children, conditional leaves, reactive.InvalidateAfter 1-5 ms, timer resources built like InvalidateAfter but with a tracked Cleanup, " +
		"PurgeCache inside runs (before/after children) and from writer goroutines, <=3 planned retries and at most one fatal error per rerunner (also inside cached children), Stops at seeded moments, yield intensity 30-60%. " +
		"About a quarter of the cells of random/matrix scenarios follow the fetch-then-register discipline instead: the reader fetches (version, resource) as one pair and registers the fetched resource afterwards; writes to such cells always replace the resource and Invalidate the old one. " +
		"STORM leg (fetch-then-register window, also for cached children): 4-12 rerunners reading cell 0 directly and through 0-10 concurrently evaluated cached children; in a chain of 8-16 storm writes the readers that already fetched the current (version, resource) park at a harness gate in front of AddDependency, the write installs the next version, calls Invalidate on the fetched resource - which often has no registered dependant yet - and opens the gate. " +
		"Oracles: (i) at quiescence after the last write (<=50 runs per rerunner) the final output of every live rerunner embeds only current versions, directly and through cached children; " +
		"(ii) after all rerunners are stopped and the system is quiescent every resource ever passed to AddDependency had its Cleanup callback run exactly once (second call recorded with both stacks; zero = leak); " +
		"(iii) no Cleanup while the monitor's conservative reference model still has a live holder: a computation that registered the resource (directly, or a cached child adopted before it could have been released) and has not been superseded, failed or stopped, with no zero-holder moment since the first registration. " +
		"Non-trivial = injection fired (targeted) or a cached value was reused across runs and a write landed while a compute function ran (random); distinct = scenario shape + hook-visit trace hash.")
	run.Assume("harness cells follow the documented discipline: readers AddDependency and then read the version; writers bump the version and then Invalidate (replacing the resource) or Strobe")
	run.Assume("Cleanup is only asserted for resources that were passed to AddDependency at least once (Resource.Cleanup doc)")
	run.Assume("the resource created inside reactive.InvalidateAfter is not reachable through the API; its timer/cleanup path is monitored on a twin built from the same four public calls (NewResource, time.AfterFunc(d, Invalidate), Cleanup(timer.Stop), AddDependency)")
	run.Assume("monitor lifetimes are contained in real lifetimes: a holder is recorded after AddDependency/Cache returned and dropped before thunder can release the computation (at compute exit / before Stop is called); a fatally failed rerunner's holds are dropped at the failure")
	run.Assume("quiescence = no hook visit, compute entry, write, stop or cleanup during 3 samples 150 ms apart (vlib.WaitCond); still busy at the 6 s hard deadline = inconclusive")

	reactx.SetDelays(0)
	matrix := reactx.Matrix(points, actions)
	M := len(matrix)
	variants := run.N(4, 250)
	nRandom := run.N(700, 120000)
	nStorm := run.N(150, 8000)
	total := M*variants + nRandom + nStorm
	agg := vlib.NewHitAgg()
	pf := reactx.Profile{Cache: true}
	opt := reactx.Options{CheckCleanup: true}
	fired := map[string]int64{}
	unfired := map[string]int64{}
	for _, p := range points {
		fired[p] = 0
	}

	reached := map[string]int64{} // 1 = this shard visited the point at least once (summed over shards by the driver)
	for _, p := range reactx.Points {
		reached[p] = 0
	}
	report := func(i int, sc *reactx.Scenario, res *reactx.Result) {
		for p, n := range res.Hits {
			if n > 0 {
				reached[p] = 1
			}
		}
		for _, f := range res.Findings {
			if strings.HasPrefix(f.Kind, reactx.KUndecided) {
				run.Inconclusive(fmt.Sprintf("case %d: %s: %s", i, f.Kind, f.What))
				continue
			}
			if !owned[f.Kind] {
				run.Count("other_property_finding:"+f.Kind, 1)
				continue
			}
			run.Violation(i, "", map[string]interface{}{
				"kind": f.Kind, "what": f.What, "scenario": sc, "detail": f.Detail,
				"expected": "C08: final output embeds only current versions; Cleanup of every registered resource exactly once and not while a live computation holds it",
			})
		}
		run.Count("runs_ok", res.OKRuns)
		run.Count("writes_while_running", res.WritesWhile)
		run.Count("resources_created", res.Resources)
		run.Count("resources_registered", res.Added)
		run.Count("resources_cleaned", res.Cleaned)
		for k, v := range res.Stats {
			run.Count("stat:"+k, v)
		}
	}

	run.Each(total, 1, func(i int) {
		if _, replay := run.Only(); !replay && run.Violations() >= 6 {
			// a broken tree costs ~2 s of quiescence classification per
			// violating scenario; six witnesses per shard are enough
			run.Count("cases_skipped_after_6_violations", 1)
			return
		}
		if i < M*variants {
			cell := matrix[i%M]
			variant := i / M
			ok := false
			for attempt := 0; attempt < 3 && !ok; attempt++ {
				r := run.Rand(fmt.Sprintf("matrix.%d.%d", variant, attempt), i%M)
				sc := reactx.GenMatrix(r, cell, pf)
				fmt.Printf("CASE %d matrix %s variant=%d attempt=%d\n", i, cell, variant, attempt)
				res := reactx.Run(sc, opt, agg)
				ok = res.InjFired
				run.Case(fmt.Sprintf("%s|%x", sc.Shape(), res.Trace), res.InjFired)
				report(i, sc, res)
				if run.WantSample() && res.InjFired && i%53 == 0 {
					run.Sample(map[string]interface{}{"case": i, "scenario": sc, "runs": res.Runs, "resources": res.Resources, "registered": res.Added, "cleaned": res.Cleaned, "wall_ms": res.WallMS})
				}
			}
			if ok {
				fired[cell.Point]++
				run.Count("matrix_cells_fired", 1)
			} else {
				unfired[cell.String()]++
				run.Count("matrix_cells_never_fired", 1)
			}
			return
		}
		j := i - M*variants
		if j >= nRandom {
			j -= nRandom
			sc := reactx.GenStorm(run.Rand("storm", j))
			fmt.Printf("CASE %d storm %d\n", i, j)
			res := reactx.Run(sc, opt, agg)
			run.Case(fmt.Sprintf("%s|%x", sc.Shape(), res.Trace), res.Stats["registrations_released_with_an_invalidate"] > 0)
			report(i, sc, res)
			return
		}
		r := run.Rand("random", j)
		sc := reactx.GenRandom(r, pf)
		fmt.Printf("CASE %d random %d\n", i, j)
		res := reactx.Run(sc, opt, agg)
		run.Case(fmt.Sprintf("%s|%x", sc.Shape(), res.Trace), res.WritesWhile > 0 && res.Stats["cache_reuse_across_runs"] > 0)
		report(i, sc, res)
		if run.WantSample() && j%41 == 0 {
			run.Sample(map[string]interface{}{"case": i, "scenario": sc, "runs": res.Runs, "resources": res.Resources, "registered": res.Added, "cleaned": res.Cleaned, "wall_ms": res.WallMS})
		}
	})
	agg.Report(run)
	run.Set("matrix_size", fmt.Sprint(M))
	run.Set("hook_points_reached_in_n_shards", reached)
	run.Set("matrix_fired_by_point", fired)
	run.Set("matrix_cells_never_fired", unfired)
}
