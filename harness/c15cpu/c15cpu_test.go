// Package c15cpu is monitor 2 of property C15: parsing, validation,
// execution and gateway planning take CPU time bounded by a small polynomial
// in the input size. It climbs ladders of fragment-spread bombs, alias bombs
// and deep nestings (every input < 4 kB) and looks at how the CPU time of
// each stage grows. Built without -race.
package c15cpu

import (
	"context"
	"errors"
	"fmt"
	"io"
	"log"
	"math/rand"
	"runtime"
	"runtime/debug"
	"strings"
	"sync/atomic"
	"syscall"
	"testing"
	"time"
	"unsafe"

	"github.com/samsarahq/thunder/batch"
	"github.com/samsarahq/thunder/federation"
	"github.com/samsarahq/thunder/graphql"
	"github.com/samsarahq/thunder/graphql/schemabuilder"
	"github.com/samsarahq/thunder/verifharness/vlib"
)

// ---------------------------------------------------------------------------
// clocks

const clockThreadCPUTimeID = 3 // CLOCK_THREAD_CPUTIME_ID

func threadCPU() time.Duration {
	var ts syscall.Timespec
	if _, _, e := syscall.Syscall(syscall.SYS_CLOCK_GETTIME, clockThreadCPUTimeID, uintptr(unsafe.Pointer(&ts)), 0); e != 0 {
		panic("clock_gettime: " + e.Error())
	}
	return time.Duration(ts.Sec)*time.Second + time.Duration(ts.Nsec)
}

func processCPU() time.Duration {
	var ru syscall.Rusage
	if err := syscall.Getrusage(syscall.RUSAGE_SELF, &ru); err != nil {
		panic("getrusage: " + err.Error())
	}
	return time.Duration(ru.Utime.Nano() + ru.Stime.Nano())
}

// measure runs f on a locked OS thread and returns the CPU time that thread
// spent and the CPU time the whole process spent meanwhile.
func measure(f func()) (thread, process time.Duration) {
	done := make(chan struct{})
	go func() {
		defer close(done)
		runtime.LockOSThread()
		defer runtime.UnlockOSThread()
		t0, p0 := threadCPU(), processCPU()
		f()
		thread, process = threadCPU()-t0, processCPU()-p0
	}()
	<-done
	return
}

// ---------------------------------------------------------------------------
// schema: a recursive object, a union whose members lead back to the union,
// leaves. Results stay tiny whatever the query (next is always null).

type Node struct {
	Id int64
}

type A struct{ X int64 }
type B struct{ X int64 }

type U struct {
	schemabuilder.Union
	*A
	*B
}

func buildSchema(name string) *schemabuilder.Schema {
	s := schemabuilder.NewSchemaWithName(name)
	q := s.Query()
	q.FieldFunc("kind", func() string { return "k" })
	q.FieldFunc("node", func() *Node { return &Node{Id: 1} })
	q.FieldFunc("u", func() *U { return &U{A: &A{X: 1}} })
	n := s.Object("Node", Node{})
	n.FieldFunc("next", func(n *Node) *Node { return nil })
	n.FieldFunc("self", func(n *Node) *Node { return n })
	n.FieldFunc("echo", func(n *Node, args struct{ L *[]int64 }) int64 { return 0 })
	a := s.Object("A", A{})
	a.FieldFunc("u", func(a *A) *U { return nil })
	b := s.Object("B", B{})
	b.FieldFunc("u", func(b *B) *U { return nil })
	s.Mutation().FieldFunc("noop", func() bool { return true })
	return s
}

type stubClient struct {
	inner federation.ExecutorClient
	stub  *int32
}

func (c *stubClient) Execute(ctx context.Context, req *federation.QueryRequest) (*federation.QueryResponse, error) {
	if atomic.LoadInt32(c.stub) == 1 {
		return nil, errors.New("stub: planning only")
	}
	return c.inner.Execute(ctx, req)
}

type env struct {
	schema *graphql.Schema
	gw     *federation.Executor
	stub   int32
	cancel context.CancelFunc
}

func newEnv() (*env, error) {
	e := &env{schema: buildSchema("mono").MustBuild()}
	other := schemabuilder.NewSchemaWithName("s2")
	other.Query().FieldFunc("s2root", func() string { return "r" })
	other.Mutation().FieldFunc("s2noop", func() bool { return true })
	clients := map[string]federation.ExecutorClient{}
	for name, sb := range map[string]*schemabuilder.Schema{"s1": buildSchema("s1"), "s2": other} {
		srv, err := federation.NewServer(sb.MustBuild())
		if err != nil {
			return nil, err
		}
		clients[name] = &stubClient{inner: &federation.DirectExecutorClient{Client: srv}, stub: &e.stub}
	}
	ctx, cancel := context.WithCancel(context.Background())
	e.cancel = cancel
	gw, err := federation.NewExecutor(ctx, clients, &federation.SchemaSyncerConfig{SchemaSyncer: federation.NewIntrospectionSchemaSyncer(ctx, clients, nil)})
	if err != nil {
		cancel()
		return nil, err
	}
	e.gw = gw
	return e, nil
}

// ---------------------------------------------------------------------------
// input families

type family struct {
	Name string
	Kind string // fragment_bomb | fragment_bomb_tree | union_nest | linear
	//  fragment_bomb: the same fragment is reached several times for one
	//    object (spread twice at a level, merged under one alias, through
	//    inline fragments): visiting it once is enough.
	//  fragment_bomb_tree: the fragment is spread under differently aliased
	//    fields, so a normal form without sharing is a tree of 2^n nodes.
	Params []int
	Gen    func(n int) string
}

func fragChain(n int, root string, body func(i int) string, leaf string) string {
	var sb strings.Builder
	sb.WriteString(root)
	for i := 0; i < n; i++ {
		fmt.Fprintf(&sb, " fragment F%d on %s", i, body(i))
	}
	fmt.Fprintf(&sb, " fragment F%d on %s", n, leaf)
	return sb.String()
}

func rangeInts(from, to, step int) []int {
	var out []int
	for n := from; n <= to; n += step {
		out = append(out, n)
	}
	return out
}

func fixedFamilies() []family {
	spread := func(i, times int) string { return strings.TrimSpace(strings.Repeat(fmt.Sprintf("...F%d ", i), times)) }
	return []family{
		{Name: "frag_same_level_fan2", Kind: "fragment_bomb", Params: rangeInts(4, 60, 2), Gen: func(n int) string {
			return fragChain(n, "{ ...F0 }", func(i int) string { return "Query { " + spread(i+1, 2) + " }" }, "Query { kind }")
		}},
		{Name: "frag_same_level_fan3", Kind: "fragment_bomb", Params: rangeInts(4, 60, 2), Gen: func(n int) string {
			return fragChain(n, "{ ...F0 }", func(i int) string { return "Query { " + spread(i+1, 3) + " }" }, "Query { kind }")
		}},
		{Name: "frag_nested_alias_fan2", Kind: "fragment_bomb_tree", Params: rangeInts(4, 60, 2), Gen: func(n int) string {
			return fragChain(n, "{ node { ...F0 } }", func(i int) string {
				return fmt.Sprintf("Node { a: next { ...F%d } b: next { ...F%d } }", i+1, i+1)
			}, "Node { id }")
		}},
		{Name: "frag_same_alias_merge_fan2", Kind: "fragment_bomb", Params: rangeInts(4, 60, 2), Gen: func(n int) string {
			return fragChain(n, "{ node { ...F0 } }", func(i int) string {
				return fmt.Sprintf("Node { next { ...F%d } next { ...F%d } }", i+1, i+1)
			}, "Node { id }")
		}},
		{Name: "frag_inline_mix_fan2", Kind: "fragment_bomb", Params: rangeInts(4, 60, 2), Gen: func(n int) string {
			return fragChain(n, "{ ...F0 }", func(i int) string {
				return fmt.Sprintf("Query { ...F%d ... on Query { ...F%d } }", i+1, i+1)
			}, "Query { kind }")
		}},
		{Name: "union_fragment_nest", Kind: "union_nest", Params: rangeInts(4, 60, 2), Gen: func(n int) string {
			return "{ u " + strings.Repeat("{ ... on U { u ", n) + "{ __typename }" + strings.Repeat(" } }", n) + " }"
		}},
		// fragments whose type condition is the union itself: they apply to every
		// member, and validation / execution / planning recurse union -> union
		{Name: "union_self_named_fan2", Kind: "union_self_bomb", Params: rangeInts(4, 60, 2), Gen: func(n int) string {
			return fragChain(n, "{ u { ...F0 } }", func(i int) string { return "U { " + spread(i+1, 2) + " }" }, "U { __typename ... on A { x } }")
		}},
		{Name: "union_self_named_fan3", Kind: "union_self_bomb", Params: rangeInts(4, 60, 2), Gen: func(n int) string {
			return fragChain(n, "{ u { ...F0 } }", func(i int) string { return "U { " + spread(i+1, 3) + " }" }, "U { __typename ... on B { x } }")
		}},
		{Name: "union_self_inline_fan2", Kind: "union_self_bomb", Params: rangeInts(4, 60, 2), Gen: func(n int) string {
			return fragChain(n, "{ u { ... on U { ...F0 } } }", func(i int) string {
				return fmt.Sprintf("U { ... on U { ...F%d } ... on U { ... on U { ...F%d } } }", i+1, i+1)
			}, "U { __typename ... on A { x } }")
		}},
		{Name: "union_self_member_mix_fan2", Kind: "union_self_bomb", Params: rangeInts(4, 60, 2), Gen: func(n int) string {
			return fragChain(n, "{ u { ...F0 ... on A { x } } }", func(i int) string {
				return fmt.Sprintf("U { ...F%d ... on A { x } ... on U { ...F%d ... on B { x } } }", i+1, i+1)
			}, "U { __typename ... on A { x } ... on B { x } }")
		}},
		{Name: "union_self_below_member_fan2", Kind: "union_self_bomb", Params: rangeInts(4, 60, 2), Gen: func(n int) string {
			// the union is reached again through a member's field: u { ... on A { u { ...F } } }
			return fragChain(n, "{ u { ... on A { u { ...F0 } } } }", func(i int) string { return "U { " + spread(i+1, 2) + " }" }, "U { __typename }")
		}},
		{Name: "union_self_inline_nest", Kind: "linear", Params: rangeInts(20, 200, 20), Gen: func(n int) string {
			return "{ u { " + strings.Repeat("... on U { ", n) + "__typename ... on A { x }" + strings.Repeat(" }", n) + " } }"
		}},
		{Name: "union_member_nest", Kind: "linear", Params: rangeInts(20, 160, 20), Gen: func(n int) string {
			return "{ u " + strings.Repeat("{ ... on A { u ", n) + "{ __typename }" + strings.Repeat(" } }", n) + " }"
		}},
		{Name: "inline_fragment_nest", Kind: "linear", Params: rangeInts(20, 200, 20), Gen: func(n int) string {
			return "{ " + strings.Repeat("... on Query { ", n) + "kind" + strings.Repeat(" }", n) + " }"
		}},
		{Name: "deep_selection", Kind: "linear", Params: rangeInts(50, 450, 50), Gen: func(n int) string {
			return "{ node " + strings.Repeat("{ self ", n) + "{ id }" + strings.Repeat(" }", n) + " }"
		}},
		{Name: "alias_wide_scalar", Kind: "linear", Params: rangeInts(50, 400, 50), Gen: func(n int) string {
			var sb strings.Builder
			sb.WriteString("{")
			for i := 0; i < n; i++ {
				fmt.Fprintf(&sb, " a%d:kind", i)
			}
			return sb.String() + " }"
		}},
		{Name: "alias_wide_object", Kind: "linear", Params: rangeInts(25, 200, 25), Gen: func(n int) string {
			var sb strings.Builder
			sb.WriteString("{")
			for i := 0; i < n; i++ {
				fmt.Fprintf(&sb, " a%d:node{id}", i)
			}
			return sb.String() + " }"
		}},
		{Name: "same_alias_repeated", Kind: "linear", Params: rangeInts(25, 250, 25), Gen: func(n int) string {
			return "{" + strings.Repeat(" node{id self{id}}", n) + " }"
		}},
		{Name: "directives_many", Kind: "linear", Params: rangeInts(20, 200, 20), Gen: func(n int) string {
			return "{ kind" + strings.Repeat(" @skip(if:false)", n) + " }"
		}},
		{Name: "list_literal_wide", Kind: "linear", Params: rangeInts(100, 1500, 200), Gen: func(n int) string {
			return "{ node { echo(l: [" + strings.TrimSuffix(strings.Repeat("1,", n), ",") + "]) } }"
		}},
	}
}

// randomBomb is a seeded variation of the fragment bombs (thorough tier):
// fan-out 2..3, spreads at the same level / under aliased fields / inside
// inline fragments, shuffled definition order.
func randomBomb(r *rand.Rand, idx int) family {
	fan := 2 + r.Intn(2)
	style := r.Intn(3)
	onNode := r.Intn(2) == 0
	shuffle := r.Intn(2) == 0
	seed := r.Int63()
	name := fmt.Sprintf("frag_random_%d_fan%d_style%d_node%v", idx, fan, style, onNode)
	kind := "fragment_bomb"
	if style == 1 && onNode {
		kind = "fragment_bomb_tree"
	}
	return family{Name: name, Kind: kind, Params: rangeInts(4, 40, 2), Gen: func(n int) string {
		typ, root, leaf := "Query", "{ ...F0 }", "Query { kind }"
		if onNode {
			typ, root, leaf = "Node", "{ node { ...F0 } }", "Node { id }"
		}
		defs := []string{}
		for i := 0; i < n; i++ {
			var parts []string
			for k := 0; k < fan; k++ {
				sp := fmt.Sprintf("...F%d", i+1)
				switch {
				case style == 1 && onNode:
					sp = fmt.Sprintf("x%d: next { %s }", k, sp)
				case style == 2:
					sp = fmt.Sprintf("... on %s { %s }", typ, sp)
				}
				parts = append(parts, sp)
			}
			defs = append(defs, fmt.Sprintf("fragment F%d on %s { %s }", i, typ, strings.Join(parts, " ")))
		}
		defs = append(defs, fmt.Sprintf("fragment F%d on %s", n, leaf))
		if shuffle {
			rr := rand.New(rand.NewSource(seed))
			rr.Shuffle(len(defs), func(i, j int) { defs[i], defs[j] = defs[j], defs[i] })
		}
		return root + " " + strings.Join(defs, " ")
	}}
}

// ---------------------------------------------------------------------------
// ladders

var stages = []string{"Parse", "PrepareQuery", "Execute", "GatewayPlan"}

type step struct {
	N     int     `json:"n"`
	Bytes int     `json:"bytes"`
	CPUms float64 `json:"cpu_ms"`
	Prems float64 `json:"prerequisite_ms,omitempty"`
	Err   string  `json:"err,omitempty"`
}

const (
	maxBytes      = 4000
	heldBelow     = 50 * time.Millisecond
	violatedAbove = 500 * time.Millisecond
	stepGuard     = 2 * time.Second
	predictGuard  = 10 * time.Second
	preGuard      = 1 * time.Second
	growthFactor  = 3.0
	growthSteps   = 3
)

// runStage measures one stage of one input; pre is the CPU time of the
// untimed prerequisite stages (the ladder stops when those explode).
func (e *env) runStage(stage, text string) (cpu, pre time.Duration, errText string) {
	ctx := context.Background()
	var q *graphql.Query
	var err error
	parse := func() { q, err = graphql.Parse(text, nil) }
	switch stage {
	case "Parse":
		cpu, _ = measure(parse)
	case "PrepareQuery":
		pre, _ = measure(parse)
		if err == nil {
			cpu, _ = measure(func() { err = graphql.PrepareQuery(ctx, e.schema.Query, q.SelectionSet) })
		}
	case "Execute":
		pre, _ = measure(func() {
			parse()
			if err == nil {
				err = graphql.PrepareQuery(ctx, e.schema.Query, q.SelectionSet)
			}
		})
		if err == nil {
			ex := graphql.NewExecutor(graphql.NewImmediateGoroutineScheduler())
			// Execute fans out over goroutines: the whole process' CPU time is the measure
			_, cpu = measure(func() { _, err = ex.Execute(batch.WithBatching(ctx), e.schema.Query, nil, q) })
		}
	case "GatewayPlan":
		pre, _ = measure(parse)
		if err == nil {
			// sub-query clients are stubs that fail at once: what remains is planRoot (flatten + plan) on the calling thread
			cpu, _ = measure(func() { _, _, _ = e.gw.Execute(ctx, q, nil) })
		}
	}
	if err != nil {
		errText = vlib.Trunc(err.Error(), 120)
	}
	return
}

type ladderResult struct {
	Family  string `json:"family"`
	Kind    string `json:"kind"`
	Stage   string `json:"stage"`
	Steps   []step `json:"steps"`
	Verdict string `json:"verdict"` // held | violated | inconclusive
	Why     string `json:"why"`
}

// geometric reports whether the last growthSteps ratios are all >= growthFactor.
func geometric(steps []step) bool {
	if len(steps) < growthSteps+1 {
		return false
	}
	for i := len(steps) - growthSteps; i < len(steps); i++ {
		prev, cur := steps[i-1].CPUms, steps[i].CPUms
		if cur < 1.0 || prev <= 0 || cur/prev < growthFactor {
			return false
		}
	}
	return true
}

func (e *env) climb(f family, stage string) ladderResult {
	res := ladderResult{Family: f.Name, Kind: f.Kind, Stage: stage}
	for pi, n := range f.Params {
		text := f.Gen(n)
		if len(text) >= maxBytes {
			res.Why = fmt.Sprintf("input reaches %d bytes at n=%d: ladder ends below the 4 kB bound", len(text), n)
			break
		}
		runtime.GC()
		cpu, pre, errText := e.runStage(stage, text)
		if cpu < 150*time.Millisecond && pre < 150*time.Millisecond { // short: best of three
			for k := 0; k < 2; k++ {
				c2, _, _ := e.runStage(stage, text)
				if c2 < cpu {
					cpu = c2
				}
			}
		}
		st := step{N: n, Bytes: len(text), CPUms: float64(cpu) / 1e6, Prems: float64(pre) / 1e6, Err: errText}
		res.Steps = append(res.Steps, st)
		last := pi == len(f.Params)-1
		switch {
		case geometric(res.Steps) && cpu > violatedAbove:
			res.Verdict = "violated"
			res.Why = fmt.Sprintf("CPU time multiplied >= %.0fx per step over the last %d steps and reached %.0f ms for a %d-byte input", growthFactor, growthSteps, st.CPUms, st.Bytes)
			return res
		case pre > preGuard:
			res.Verdict = "inconclusive"
			res.Why = fmt.Sprintf("not reachable beyond n=%d: the prerequisite stages took %.0f ms", n, st.Prems)
			return res
		case cpu > stepGuard:
			res.Verdict = "inconclusive"
			res.Why = fmt.Sprintf("step n=%d took %.0f ms without meeting the growth criterion", n, st.CPUms)
			return res
		case last:
			if cpu < heldBelow {
				res.Verdict = "held"
				res.Why = fmt.Sprintf("top of the ladder n=%d (%d bytes) took %.2f ms", n, st.Bytes, st.CPUms)
			} else {
				res.Verdict = "inconclusive"
				res.Why = fmt.Sprintf("top of the ladder n=%d took %.0f ms: neither < 50 ms nor geometric growth", n, st.CPUms)
			}
			return res
		}
		// do not start a step that is predicted to blow the guard
		if k := len(res.Steps); k >= 2 && res.Steps[k-2].Prems > 1 {
			ratio := res.Steps[k-1].Prems / res.Steps[k-2].Prems
			if predicted := time.Duration(st.Prems * ratio * 1e6); predicted > 3*preGuard {
				res.Verdict = "inconclusive"
				res.Why = fmt.Sprintf("not reachable beyond n=%d: the prerequisite stages took %.0f ms and grow %.1fx per step", n, st.Prems, ratio)
				return res
			}
		}
		if k := len(res.Steps); k >= 2 && res.Steps[k-2].CPUms > 1 {
			ratio := res.Steps[k-1].CPUms / res.Steps[k-2].CPUms
			if predicted := time.Duration(st.CPUms * ratio * 1e6); predicted > predictGuard {
				res.Verdict = "inconclusive"
				res.Why = fmt.Sprintf("stopped before n=%d: predicted %.0f ms", f.Params[pi+1], float64(predicted)/1e6)
				if geometric(res.Steps) {
					res.Why += " (growth is geometric but the 0.5 s bar was not reached)"
				}
				return res
			}
		}
	}
	if res.Verdict == "" {
		k := len(res.Steps)
		if k > 0 && res.Steps[k-1].CPUms < float64(heldBelow)/1e6 {
			res.Verdict = "held"
			res.Why += fmt.Sprintf("; last step n=%d took %.2f ms", res.Steps[k-1].N, res.Steps[k-1].CPUms)
		} else {
			res.Verdict = "inconclusive"
		}
	}
	return res
}

// classify names the pinned super-polynomial stages; anything else is
// unclassified.
func classify(r ladderResult) string {
	bomb := r.Kind == "fragment_bomb" || r.Kind == "fragment_bomb_tree"
	switch {
	case bomb && r.Stage == "PrepareQuery":
		return "prepare-fragment-exponential"
	case bomb && r.Stage == "Parse":
		return "parse-conflicts-fragment-exponential"
	case r.Kind == "fragment_bomb" && r.Stage == "GatewayPlan":
		return "gateway-flatten-fragment-respread-exponential"
	case r.Kind == "fragment_bomb_tree" && r.Stage == "GatewayPlan":
		return "gateway-flatten-tree-expansion-exponential"
	case r.Kind == "union_self_bomb" && r.Stage == "Execute":
		// resolveUnionBatch collects the contents of a fragment on the union
		// every time it is reached
		return "execute-union-self-fragment-exponential"
	case (r.Kind == "union_nest" || r.Kind == "union_self_bomb") && r.Stage == "GatewayPlan":
		// only the gateway stage of the union families is the known flattener
		// expansion; their Parse / PrepareQuery / Execute stages are unclassified
		return "gateway-flatten-union-exponential"
	}
	return ""
}

func TestCheck(t *testing.T) {
	run := vlib.Start(t, "C15", "exploration")
	defer run.Finish()
	log.SetOutput(io.Discard)
	debug.SetMemoryLimit(6 << 30)
	run.Rule("monitor 2 (polynomial time): ladders over n for fragment-spread bombs (fan-out 2-3; spreads at one level, under aliased fields, merged under one alias, through inline fragments; thorough adds seeded variants), " +
		"fragments on a union nested n deep, inline-fragment / selection nesting, alias bombs, repeated selections, many directives, wide list literals; every input < 4 kB. Stages timed separately with the thread CPU clock on a locked OS thread " +
		"(Parse, PrepareQuery, gateway planning = federation.Executor.Execute with sub-query clients that fail at once) or the process CPU clock (Execute, which fans out over goroutines). " +
		"violated = CPU time multiplied >= 3x per step over >= 3 consecutive steps and exceeded 0.5 s; held = top of the ladder < 50 ms; anything else inconclusive. " +
		"One evaluation = one ladder step; non-trivial = a ladder that reached a verdict; distinct = (family, stage).")
	run.Assume("CLOCK_THREAD_CPUTIME_ID of a locked OS thread measures the synchronous work of Parse / PrepareQuery / planning; getrusage measures Execute including its goroutines and the garbage collector")
	run.Assume("a polynomial implementation handles every < 4 kB ladder input in well under 50 ms (three orders of magnitude below the 0.5 s bar)")

	e, err := newEnv()
	if err != nil {
		run.Broken("cannot build environment: " + err.Error())
		return
	}
	defer e.cancel()
	// warm-up and sanity: a benign query works at every stage, then stub the sub-query clients
	if q, err := graphql.Parse(`{ kind node { id next { id } } u { ... on A { x } } }`, nil); err != nil {
		run.Broken("warm-up parse: " + err.Error())
		return
	} else if _, _, err := e.gw.Execute(context.Background(), q, nil); err != nil {
		run.Broken("warm-up gateway execute: " + err.Error())
		return
	}
	atomic.StoreInt32(&e.stub, 1)

	fams := fixedFamilies()
	if run.Thorough() {
		for i := 0; i < 24; i++ {
			fams = append(fams, randomBomb(run.Rand("bomb", i), i))
		}
	}
	type job struct {
		f     family
		stage string
	}
	var jobs []job
	for _, f := range fams {
		for _, s := range stages {
			jobs = append(jobs, job{f, s})
		}
	}
	tally := map[string]int{}
	run.Each(len(jobs), 1, func(i int) {
		j := jobs[i]
		fmt.Println("CASE", i, j.f.Name, j.stage)
		r := e.climb(j.f, j.stage)
		for range r.Steps {
			run.Case(j.f.Name+"|"+j.stage, r.Verdict != "inconclusive")
		}
		run.Count("m2:ladders", 1)
		run.Count("m2:verdict:"+r.Verdict, 1)
		run.Count("m2:stage:"+j.stage+":"+r.Verdict, 1)
		tally[r.Verdict]++
		fmt.Printf("LADDER %s %s -> %s (%s)\n", j.f.Name, j.stage, r.Verdict, r.Why)
		switch r.Verdict {
		case "violated":
			last := r.Steps[len(r.Steps)-1]
			run.Violation(i, classify(r), map[string]interface{}{"monitor": "2 polynomial time", "family": r.Family, "kind": r.Kind, "stage": r.Stage, "ladder": r.Steps,
				"what": r.Why, "input_at_last_step": j.f.Gen(last.N), "expected": "CPU time bounded by a small polynomial in the input size"})
		case "inconclusive":
			run.Inconclusive(fmt.Sprintf("m2 ladder %s/%s: %s", r.Family, r.Stage, r.Why))
		}
		if run.WantSample() && (r.Verdict == "violated" || i%13 == 0) {
			run.Sample(r)
		}
	})
	run.Set("m2_verdicts", tally)
}
