//go:build verif

// Package c05 monitors property C05: concurrent Func.Invoke calls each get the
// result for their own argument (or the batch's error), every argument is
// handed to Func.Many at most once (exactly once unless the context is
// cancelled first), a batch never exceeds MaxSize or mixes shards, and every
// Invoke returns whatever Many does.
package c05

import (
	"context"
	"errors"
	"fmt"
	"math"
	"math/rand"
	"reflect"
	"sort"
	"strings"
	"sync"
	"sync/atomic"
	"testing"
	"time"

	"github.com/samsarahq/thunder/batch"
	"github.com/samsarahq/thunder/concurrencylimiter"
	"github.com/samsarahq/thunder/verifharness/vlib"
)

// ------------------------------------------------------------------- config

// Many outcomes
const (
	outOK       = iota
	outError    // returns (nil, err) with a unique error object
	outErrorRes // returns (full results, err)
	outPanic
	outShort // one result too few, nil error
	outLong  // one result too many, nil error
	outSlow  // sleeps, then ok
	outSlowCtx
	nOutcomes
)

var outNames = [...]string{"ok", "error", "error+results", "panic", "short", "long", "slow", "slow-until-cancel"}

// Shard values of several dynamic types whose %v renderings collide although
// the values differ under Go equality (the identity Func.Shard promises).
type orgID int64
type deviceID int64
type shardPoint struct{ X int }

// shardPalette returns k pairwise different (under ==) shard values. In
// colliding mode they all print as the same number.
func shardPalette(r *rand.Rand, k int, colliding bool) []interface{} {
	if !colliding {
		out := make([]interface{}, k)
		for i := range out {
			out[i] = i
		}
		return out
	}
	b := r.Intn(200)
	all := []interface{}{orgID(b), deviceID(b), b, fmt.Sprint(b), int64(b), &shardPoint{b}, &shardPoint{b}, uint8(b)}
	r.Shuffle(len(all), func(i, j int) { all[i], all[j] = all[j], all[i] })
	return all[:k]
}

type fnCfg struct {
	ShardVals []interface{} // the value Func.Shard returns for arg.Shard == index
	Colliding bool
	MaxSize   int
	Wait      time.Duration
	MaxDur    time.Duration
	Shards    int
	ShardFn   bool  // false: Func.Shard is nil (only when Shards == 1)
	Outcomes  []int // outcome of the k-th Many call of this Func (cycled)
	SlowFor   time.Duration
	Boundary  bool          // option values at representational boundaries (see boundaryOptions)
	MaxRel    int           // 1..3: MaxSize = (callers of this Func in round 0) -1 / +0 / +1, resolved after the rounds are generated
	EffWait   time.Duration // effective timer values (defaults applied, clamped to 5 ms) used only to place bursts and cancellations
	EffMaxDur time.Duration
	ResSalt   int // 0: every result element is the string want(arg); otherwise the element's dynamic type is chosen per argument from resKindNames (see resKindOf)
}

const veryLong = time.Duration(math.MaxInt64)

// boundaryOptions replaces the Func's options by values at representational
// boundaries: MaxSize in {1, 2, callers-1, callers, callers+1, 1<<20,
// MaxInt32, MaxInt}, WaitInterval / MaxDuration in {0 (default), 1ns, the
// largest Duration} - never both timers very long, so that every batch is
// still triggered within milliseconds.
func boundaryOptions(r *rand.Rand, f *fnCfg) {
	f.Boundary = true
	switch r.Intn(8) {
	case 0:
		f.MaxSize = 1
	case 1:
		f.MaxSize = 2
	case 2, 3, 4:
		f.MaxRel = 1 + r.Intn(3)
	case 5:
		f.MaxSize = 1 << 20
	case 6:
		f.MaxSize = math.MaxInt32
	default:
		f.MaxSize = math.MaxInt
	}
	switch r.Intn(9) {
	case 0:
		f.Wait = 0
	case 1:
		f.Wait = 1
	case 2:
		f.Wait = veryLong
	case 3:
		f.MaxDur = 0
	case 4:
		f.MaxDur = 1
	case 5:
		f.MaxDur = veryLong
	case 6:
		f.Wait, f.MaxDur = 1, 1
	case 7:
		f.Wait, f.MaxDur = 0, 0
	}
}

func effective(d, def time.Duration) time.Duration {
	if d <= 0 {
		d = def
	}
	if d > 5*time.Millisecond {
		d = 5 * time.Millisecond
	}
	return d
}

type callerCfg struct {
	Fn      int
	Shard   int
	Delay   time.Duration // start offset inside the round
	Reps    int           // sequential Invokes
	Gap     time.Duration // pause between sequential Invokes
	Acquire bool          // Acquire a limiter token around every Invoke (needs Limit > 0)
	Ctx     int           // ctxShared: the round's context; ctxOwnLive / ctxOwnTimed: an own context derived from it
	OwnAt   time.Duration // ctxOwnTimed: the own context is cancelled this long after the round started
}

// per-caller contexts
const (
	ctxShared   = iota
	ctxOwnLive  // own derived context, cancelled only by the Many-entry hook (if the round has it)
	ctxOwnTimed // own derived context, cancelled at OwnAt
)

// cancellation of the round's context
const (
	cancelNone = iota
	cancelBefore
	cancelDuring
	cancelAfter
)

var cancelNames = [...]string{"none", "before", "during", "after"}

type roundCfg struct {
	Nest          bool // Many calls issue further Invokes (other Func, same Func with other arguments) on the same batching context; shared-context rounds only
	PerCaller     bool // callers use own contexts derived from the round's context
	CancelCreator bool // when a Many call is entered, the own context of the caller whose argument comes first (the group's creator) is cancelled
	Callers       []callerCfg
	Cancel        int
	CancelAt      time.Duration
}

type scenario struct {
	Fns          []fnCfg
	Limit        int  // 0: no limiter on the context
	LimiterFirst bool // limiter attached before WithBatching
	Rounds       []roundCfg
	Intensity    int
}

func dur(r *rand.Rand, lo, hi time.Duration) time.Duration {
	return lo + time.Duration(r.Int63n(int64(hi-lo)+1))
}

func genScenario(r *rand.Rand) scenario {
	var sc scenario
	nf := 1
	if r.Intn(3) == 0 {
		nf = 2 + r.Intn(2)
	}
	for i := 0; i < nf; i++ {
		f := fnCfg{
			MaxSize: []int{0, 1, 2, 3, 7}[r.Intn(5)],
			Wait:    dur(r, 200*time.Microsecond, 2*time.Millisecond),
			MaxDur:  dur(r, time.Millisecond, 5*time.Millisecond),
			Shards:  1 + r.Intn(4),
			SlowFor: dur(r, 300*time.Microsecond, 3*time.Millisecond),
		}
		if r.Intn(6) == 0 {
			boundaryOptions(r, &f)
		}
		f.EffWait = effective(f.Wait, batch.DefaultWaitInterval)
		f.EffMaxDur = effective(f.MaxDur, batch.DefaultMaxDuration)
		f.ShardFn = f.Shards > 1 || r.Intn(2) == 0
		f.Colliding = f.Shards > 1 && r.Intn(2) == 0
		f.ShardVals = shardPalette(r, f.Shards, f.Colliding)
		no := 1 + r.Intn(6)
		for k := 0; k < no; k++ {
			o := outOK
			if r.Intn(2) == 0 {
				o = r.Intn(nOutcomes)
			}
			f.Outcomes = append(f.Outcomes, o)
		}
		sc.Fns = append(sc.Fns, f)
	}
	if r.Intn(2) == 0 {
		sc.Limit = 1 + r.Intn(3)
		sc.LimiterFirst = r.Intn(2) == 0
	}
	sc.Intensity = []int{0, 20, 50}[r.Intn(3)]
	nr := 1
	if r.Intn(3) == 0 {
		nr = 2 + r.Intn(2)
	}
	for k := 0; k < nr; k++ {
		var rc roundCfg
		nc := 1 + r.Intn(64)
		switch r.Intn(4) {
		case 0:
			nc = 1 + r.Intn(4)
		case 1:
			nc = 1 + r.Intn(16)
		}
		if sc.Limit > 0 && nc > 24 {
			nc = 1 + nc%24
		}
		acquireAll := sc.Limit > 0 && r.Intn(4) != 0
		// burst offsets around the timers of a reference Func
		ref := sc.Fns[r.Intn(len(sc.Fns))]
		marks := []time.Duration{0, 0, ref.EffWait / 2, ref.EffWait * 9 / 10, ref.EffWait, ref.EffWait * 11 / 10, 2 * ref.EffWait,
			ref.EffMaxDur * 9 / 10, ref.EffMaxDur, ref.EffMaxDur * 11 / 10}
		nb := 1 + r.Intn(4)
		bursts := make([]time.Duration, nb)
		for b := range bursts {
			bursts[b] = marks[r.Intn(len(marks))]
		}
		rc.PerCaller = r.Intn(2) == 0
		rc.CancelCreator = rc.PerCaller && r.Intn(2) == 0
		rc.Nest = !rc.PerCaller && r.Intn(2) == 0
		var span time.Duration
		for c := 0; c < nc; c++ {
			fi := r.Intn(len(sc.Fns))
			cc := callerCfg{Fn: fi, Shard: r.Intn(sc.Fns[fi].Shards), Reps: 1, Acquire: acquireAll}
			cc.Delay = bursts[r.Intn(nb)]
			if r.Intn(3) == 0 {
				cc.Delay += time.Duration(r.Intn(100)) * time.Microsecond
			}
			if r.Intn(5) == 0 {
				cc.Reps = 2 + r.Intn(2)
				cc.Gap = time.Duration(r.Intn(300)) * time.Microsecond
			}
			if cc.Delay > span {
				span = cc.Delay
			}
			if rc.PerCaller {
				switch p := r.Intn(10); {
				case p < 6:
					cc.Ctx = ctxOwnLive
				case p < 8:
					cc.Ctx = ctxOwnTimed
					cc.OwnAt = cc.Delay + time.Duration(r.Int63n(int64(ref.EffMaxDur+ref.SlowFor)))
				}
			}
			rc.Callers = append(rc.Callers, cc)
		}
		switch p := r.Intn(10); {
		case p < 5:
			rc.Cancel = cancelNone
		case p < 6:
			rc.Cancel = cancelBefore
		case p < 9:
			rc.Cancel = cancelDuring
			rc.CancelAt = time.Duration(r.Int63n(int64(span + ref.EffMaxDur + 1)))
		default:
			rc.Cancel = cancelAfter
		}
		if rc.CancelCreator {
			// make sure Many calls that honour their context occur
			f := &sc.Fns[r.Intn(len(sc.Fns))]
			f.Outcomes[0] = outSlowCtx
			for k := range f.Outcomes {
				if r.Intn(2) == 0 {
					f.Outcomes[k] = outSlowCtx
				}
			}
		}
		sc.Rounds = append(sc.Rounds, rc)
	}
	for fi := range sc.Fns {
		if rel := sc.Fns[fi].MaxRel; rel != 0 {
			c := 0
			for _, cc := range sc.Rounds[0].Callers {
				if cc.Fn == fi {
					c++
				}
			}
			sc.Fns[fi].MaxSize = c + rel - 2
			if sc.Fns[fi].MaxSize < 1 {
				sc.Fns[fi].MaxSize = 1
			}
		}
	}
	return sc
}

func (sc scenario) describe() map[string]interface{} {
	var fns []string
	for i, f := range sc.Fns {
		var os []string
		for _, o := range f.Outcomes {
			os = append(os, outNames[o])
		}
		var sv []string
		for _, v := range f.ShardVals {
			sv = append(sv, fmt.Sprintf("%T(%v)", v, v))
		}
		fns = append(fns, fmt.Sprintf("fn%d{MaxSize:%d WaitInterval:%v MaxDuration:%v shards:%d shardFn:%v shardValues:[%s] manyOutcomes:[%s] slow:%v resultElements:%s}",
			i, f.MaxSize, f.Wait, f.MaxDur, f.Shards, f.ShardFn, strings.Join(sv, " "), strings.Join(os, ","), f.SlowFor, map[bool]string{false: "strings", true: fmt.Sprintf("mixed-dynamic-types(salt %d)", f.ResSalt)}[f.ResSalt != 0]))
	}
	var rs []string
	for i, rc := range sc.Rounds {
		var cs []string
		for k, c := range rc.Callers {
			cx := ""
			switch c.Ctx {
			case ctxOwnLive:
				cx = ",ownctx"
			case ctxOwnTimed:
				cx = fmt.Sprintf(",ownctx-cancelled@%v", c.OwnAt)
			}
			cs = append(cs, fmt.Sprintf("c%d(fn%d,s%d,+%v,x%d,acq:%v%s)", k, c.Fn, c.Shard, c.Delay, c.Reps, c.Acquire, cx))
		}
		rs = append(rs, fmt.Sprintf("round%d{cancel:%s@%v perCallerContexts:%v cancelCreatorWhenManyEntered:%v manyIssuesNestedInvokes:%v callers:%s}", i, cancelNames[rc.Cancel], rc.CancelAt, rc.PerCaller, rc.CancelCreator, rc.Nest, strings.Join(cs, " ")))
	}
	return map[string]interface{}{"funcs": fns, "limiter": sc.Limit, "limiter_first": sc.LimiterFirst, "rounds": rs, "yield_intensity": sc.Intensity}
}

// ------------------------------------------------------------ result values

// The element Func.Many computes for an argument is ordinary data of ANY
// dynamic type: the property promises the caller exactly that element. Besides
// strings the harness's Many therefore returns ints, structs, pointers, nil,
// zero values, typed nil pointers, values whose type happens to implement
// error or fmt.Stringer (stored records, not failures), error values made by
// the standard library (also ones wrapping a context error), non-comparable
// values (slices, maps, funcs), channels, nested []interface{} slices and the
// argument itself. All but the nil / zero / typed-nil ones identify their
// argument, so a mis-pairing stays visible.
const (
	resString = iota
	resInt
	resStruct
	resPointer
	resNil
	resZero
	resTypedNilPtr
	resErrorStruct      // struct value whose type implements error
	resErrorPointer     // pointer whose type implements error
	resTypedNilErrorPtr // nil pointer of a type that implements error (a non-nil interface value)
	resStdlibError      // errors.New / fmt.Errorf value kept as data
	resStdlibErrorCtx   // fmt.Errorf value wrapping context.Canceled / DeadlineExceeded, kept as data
	resStringer
	resSlice
	resNestedResults // a []interface{} of 0..3 elements: an element that looks like a result list
	resMap
	resFunc
	resChan
	resArg
	nResKinds
)

var resKindNames = [...]string{"string", "int", "struct", "pointer", "nil", "zero-value", "typed-nil-pointer", "error-implementing-struct", "error-implementing-pointer", "typed-nil-error-implementing-pointer", "stdlib-error-value", "stdlib-error-value-wrapping-ctx-error", "stringer", "slice", "nested-[]interface{}", "map", "func", "chan", "the-argument-itself"}

type resRecord struct {
	Arg  arg
	Note string
}

// resFailureRecord is a plain data record; it implements error because an
// application might also return it from elsewhere.
type resFailureRecord struct{ Arg arg }

func (f resFailureRecord) Error() string { return "stored failure record of " + want(f.Arg) }

type resFailurePtr struct{ Arg arg }

func (f *resFailurePtr) Error() string {
	if f == nil {
		return "stored failure record (nil)"
	}
	return "stored failure record of " + want(f.Arg)
}

type resLabel struct{ Arg arg }

func (l resLabel) String() string { return "label of " + want(l.Arg) }

func argHash(a arg, salt int) uint64 {
	x := uint64(salt)*0x9E3779B97F4A7C15 + uint64(a.Round)*1000003 + uint64(a.Caller)*10007 + uint64(a.Seq)*101 + uint64(a.Fn)*31 + uint64(a.Shard)*13 + uint64(a.Nest)*7
	x ^= x >> 29
	x *= 0xBF58476D1CE4E5B9
	x ^= x >> 32
	return x
}

// resKindOf is the dynamic type of the element computed for a: a pure function
// of the Func's salt and the argument (three in ten stay strings).
func resKindOf(salt int, a arg) int {
	if salt == 0 {
		return resString
	}
	h := argHash(a, salt)
	if h%10 < 3 {
		return resString
	}
	return int((h / 10) % nResKinds)
}

// makeResult builds the element for a. Pointers, maps, funcs, slices and
// channels are fresh objects per call: the oracle also compares identity with
// the element the Many call actually returned.
func makeResult(salt int, a arg) interface{} {
	h := argHash(a, salt+1)
	switch resKindOf(salt, a) {
	case resString:
		return want(a)
	case resInt:
		return a.Round<<40 | a.Caller<<20 | a.Seq<<12 | a.Fn<<8 | a.Shard<<4 | a.Nest
	case resStruct:
		return resRecord{a, "value"}
	case resPointer:
		return &resRecord{a, "pointer"}
	case resNil:
		return nil
	case resZero:
		return []interface{}{"", 0, false, struct{}{}, resRecord{}, 0.0}[h%6]
	case resTypedNilPtr:
		return (*resRecord)(nil)
	case resErrorStruct:
		return resFailureRecord{a}
	case resErrorPointer:
		return &resFailurePtr{a}
	case resTypedNilErrorPtr:
		return (*resFailurePtr)(nil)
	case resStdlibError:
		if h%2 == 0 {
			return errors.New("data: " + want(a))
		}
		return fmt.Errorf("data: %s", want(a))
	case resStdlibErrorCtx:
		if h%2 == 0 {
			return fmt.Errorf("data: %s: %w", want(a), context.Canceled)
		}
		return fmt.Errorf("data: %s: %w", want(a), context.DeadlineExceeded)
	case resStringer:
		return resLabel{a}
	case resSlice:
		return []string{want(a), "slice"}
	case resNestedResults:
		out := make([]interface{}, h%4)
		for i := range out {
			out[i] = fmt.Sprintf("%s#%d", want(a), i)
		}
		return out
	case resMap:
		return map[string]arg{"arg": a}
	case resFunc:
		return func() arg { return a }
	case resChan:
		ch := make(chan arg, 1)
		ch <- a
		return ch
	case resArg:
		return a
	}
	panic("unreachable result kind")
}

// describeRes renders dynamic type and content of an element (no identity).
func describeRes(v interface{}) string {
	switch x := v.(type) {
	case nil:
		return "<nil interface>"
	case *resRecord:
		if x == nil {
			return "(*resRecord)(nil)"
		}
		return fmt.Sprintf("*resRecord{%s,%s}", want(x.Arg), x.Note)
	case *resFailurePtr:
		if x == nil {
			return "(*resFailurePtr)(nil)"
		}
		return fmt.Sprintf("*resFailurePtr{%s}", want(x.Arg))
	case resRecord:
		return fmt.Sprintf("resRecord{%s,%s}", want(x.Arg), x.Note)
	case resFailureRecord:
		return fmt.Sprintf("resFailureRecord{%s}", want(x.Arg))
	case resLabel:
		return fmt.Sprintf("resLabel{%s}", want(x.Arg))
	case arg:
		return "arg:" + want(x)
	case []interface{}:
		parts := make([]string, len(x))
		for i, e := range x {
			parts[i] = describeRes(e)
		}
		return fmt.Sprintf("[]interface{}(len %d)[%s]", len(x), strings.Join(parts, ","))
	case map[string]arg:
		keys := make([]string, 0, len(x))
		for k := range x {
			keys = append(keys, k)
		}
		sort.Strings(keys)
		parts := make([]string, len(keys))
		for i, k := range keys {
			parts[i] = k + "=" + want(x[k])
		}
		return "map[string]arg{" + strings.Join(parts, ",") + "}"
	case func() arg:
		if x == nil {
			return "(func() arg)(nil)"
		}
		return "func() returning " + want(x())
	case chan arg:
		return fmt.Sprintf("chan arg(cap %d, len %d)", cap(x), len(x))
	case error:
		return fmt.Sprintf("%T{%s}", x, x.Error())
	}
	return fmt.Sprintf("%T(%v)", v, v)
}

// sameElement: got is the very value `elem` (Go equality where the dynamic
// type is comparable, same underlying object for slices / maps / funcs).
func sameElement(got, elem interface{}) bool {
	if got == nil || elem == nil {
		return got == nil && elem == nil
	}
	tg, te := reflect.TypeOf(got), reflect.TypeOf(elem)
	if tg != te {
		return false
	}
	if tg.Comparable() {
		return got == elem
	}
	vg, ve := reflect.ValueOf(got), reflect.ValueOf(elem)
	switch tg.Kind() {
	case reflect.Slice:
		return vg.Len() == ve.Len() && vg.Pointer() == ve.Pointer()
	case reflect.Map, reflect.Func:
		return vg.Pointer() == ve.Pointer()
	}
	return reflect.DeepEqual(got, elem)
}

// genResults draws, from its own random stream, which Funcs compute elements
// of mixed dynamic types.
func genResults(r *rand.Rand, sc *scenario) {
	for fi := range sc.Fns {
		if r.Intn(2) == 0 {
			sc.Fns[fi].ResSalt = 1 + r.Intn(1<<20)
		}
	}
}

// ---------------------------------------------------------------------- log

// arg is the unique argument of one Invoke.
type arg struct {
	Round, Caller, Seq int
	Fn, Shard          int
	Nest               int // 1: the Invoke was issued from inside a Many call (Caller = 1000 + id of that call)
}

func want(a arg) string {
	return fmt.Sprintf("res:r%d/c%d/q%d/f%d/s%d/n%d", a.Round, a.Caller, a.Seq, a.Fn, a.Shard, a.Nest)
}

// invRec is one Invoke; written by the calling goroutine, read after `done`.
type invRec struct {
	own      *ownCtx // nil: the call used the round's shared context
	Arg      arg
	callSeq  int64
	retSeq   int64
	res      interface{}
	err      error
	panicked interface{}
	done     int32 // atomic
}

// manyRec is one Func.Many call; appended under the log mutex.
type manyRec struct {
	ID        int
	Fn        int
	Args      []interface{}
	Outcome   int
	startSeq  int64
	endSeq    int64 // tick before returning / panicking
	err       error
	results   []interface{} // copy of the slice Many returned (nil when it panicked)
	mutated   bool
	ctxErr    error
	panicKind string
}

// values Func.Many panics with: many dynamic types, and panics raised by the
// runtime itself.
var panicKinds = []string{"string", "error", "custom-error-type", "int", "struct", "pointer", "stringer", "nil", "runtime:nil-map-write", "runtime:index-out-of-range", "runtime:nil-dereference", "slice", "func"}

type manyPanicErr struct{ id int }

func (e manyPanicErr) Error() string { return fmt.Sprintf("many call %d panics (custom error)", e.id) }

type manyPanicStruct struct {
	ID   int
	What string
}

type manyPanicStringer int

func (s manyPanicStringer) String() string {
	return fmt.Sprintf("many call %d panics (stringer)", int(s))
}

func raisePanic(kind string, id int) {
	switch kind {
	case "string":
		panic(fmt.Sprintf("many call %d panics", id))
	case "error":
		panic(fmt.Errorf("many call %d panics (error)", id))
	case "custom-error-type":
		panic(manyPanicErr{id})
	case "int":
		panic(id + 1)
	case "struct":
		panic(manyPanicStruct{id, "panics"})
	case "pointer":
		panic(&manyPanicStruct{id, "panics"})
	case "stringer":
		panic(manyPanicStringer(id))
	case "nil":
		var v interface{}
		panic(v)
	case "runtime:nil-map-write":
		var mp map[int]int
		mp[id] = 1
	case "runtime:index-out-of-range":
		var sl []int
		_ = sl[id+1]
	case "runtime:nil-dereference":
		var ps *manyPanicStruct
		_ = ps.ID
	case "slice":
		panic([]int{id})
	case "func":
		panic(func() {})
	}
	panic("unreachable panic kind " + kind)
}

type mon struct {
	seq    int64
	mu     sync.Mutex
	manys  []*manyRec
	onMany func(*manyRec) // called (outside mu) when a Many call has been logged; set per round
	nest   bool           // Many calls of the current round issue nested Invokes
	fns    []*fnState
	nested []*invRec // Invokes issued from inside Many calls (appended under mu)
}

// invokeLogged is one monitored Invoke: logged before the call and after the
// return, a panic escaping Invoke is recorded instead of propagated.
func (m *mon) invokeLogged(ctx context.Context, f *batch.Func, rec *invRec) {
	rec.callSeq = m.tick()
	func() {
		defer func() {
			if p := recover(); p != nil {
				rec.panicked = p
			}
		}()
		rec.res, rec.err = f.Invoke(ctx, rec.Arg)
	}()
	rec.retSeq = m.tick()
	atomic.StoreInt32(&rec.done, 1)
}

// nestedInvokes is what a dependent batch resolver does: from inside Many it
// invokes another Func, and the same Func with another argument, on the same
// batching context (sequentially, or from goroutines Many waits for).
func (m *mon) nestedInvokes(ctx context.Context, mr *manyRec, first arg) {
	var recs []*invRec
	if nf := len(m.fns); nf > 1 {
		t := (mr.Fn + 1) % nf
		recs = append(recs, &invRec{Arg: arg{Round: first.Round, Caller: 1000 + mr.ID, Seq: 0, Fn: t, Shard: mr.ID % m.fns[t].cfg.Shards, Nest: 1}})
	}
	recs = append(recs, &invRec{Arg: arg{Round: first.Round, Caller: 1000 + mr.ID, Seq: 1, Fn: mr.Fn, Shard: (first.Shard + mr.ID) % m.fns[mr.Fn].cfg.Shards, Nest: 1}})
	m.mu.Lock()
	m.nested = append(m.nested, recs...)
	m.mu.Unlock()
	if mr.ID%4 == 0 {
		var wg sync.WaitGroup
		for _, rec := range recs {
			wg.Add(1)
			go func(rec *invRec) {
				defer wg.Done()
				m.invokeLogged(ctx, m.fns[rec.Arg.Fn].f, rec)
			}(rec)
		}
		wg.Wait()
		return
	}
	for _, rec := range recs {
		m.invokeLogged(ctx, m.fns[rec.Arg.Fn].f, rec)
	}
}

// ownCtx is the cancellable context of one caller.
type ownCtx struct {
	ctx    context.Context
	cancel context.CancelFunc
	seq    int64 // atomic: tick taken before cancel() was first called by the scenario; 0 = not cancelled
	fn     int
}

func (o *ownCtx) cancelNow(m *mon) {
	atomic.CompareAndSwapInt64(&o.seq, 0, m.tick())
	o.cancel()
}

func (o *ownCtx) cancelledBefore(t int64) bool {
	if o == nil {
		return false
	}
	s := atomic.LoadInt64(&o.seq)
	return s != 0 && s < t
}

func (m *mon) tick() int64 { return atomic.AddInt64(&m.seq, 1) }

type fnState struct {
	cfg   fnCfg
	idx   int
	calls int64
	f     *batch.Func
}

func (m *mon) makeFunc(idx int, cfg fnCfg) *fnState {
	fs := &fnState{cfg: cfg, idx: idx}
	f := &batch.Func{MaxSize: cfg.MaxSize, WaitInterval: cfg.Wait, MaxDuration: cfg.MaxDur}
	if cfg.ShardFn {
		f.Shard = func(a interface{}) interface{} { return cfg.ShardVals[a.(arg).Shard] }
	}
	f.Many = func(ctx context.Context, args []interface{}) (res []interface{}, err error) {
		k := atomic.AddInt64(&fs.calls, 1) - 1
		rec := &manyRec{Fn: idx, Args: append([]interface{}(nil), args...), Outcome: cfg.Outcomes[int(k)%len(cfg.Outcomes)], ctxErr: ctx.Err()}
		m.mu.Lock()
		rec.ID = len(m.manys)
		rec.startSeq = m.tick()
		m.manys = append(m.manys, rec)
		hook := m.onMany
		nest := m.nest
		m.mu.Unlock()
		if hook != nil {
			hook(rec)
		}
		if nest && rec.ID%2 == 0 {
			if x, ok := args[0].(arg); ok && x.Nest == 0 {
				m.nestedInvokes(ctx, rec, x)
			}
		}
		finish := func() {
			for i := range args {
				if i >= len(rec.Args) || args[i] != rec.Args[i] {
					rec.mutated = true
				}
			}
			m.mu.Lock()
			rec.err = err
			rec.results = append([]interface{}(nil), res...)
			rec.endSeq = m.tick()
			m.mu.Unlock()
		}
		full := func() []interface{} {
			out := make([]interface{}, len(args))
			for i, a := range args {
				if x, ok := a.(arg); ok {
					out[i] = makeResult(cfg.ResSalt, x)
				}
			}
			return out
		}
		switch rec.Outcome {
		case outOK:
			res = full()
		case outError:
			err = fmt.Errorf("many call %d failed", rec.ID)
		case outErrorRes:
			res = full()
			err = fmt.Errorf("many call %d failed with results", rec.ID)
		case outPanic:
			err = nil
			rec.panicKind = panicKinds[(int(k)*7+rec.ID)%len(panicKinds)]
			finish()
			raisePanic(rec.panicKind, rec.ID)
		case outShort:
			res = full()
			res = res[:len(res)-1]
			if len(res) == 0 && k%2 == 0 {
				res = nil
			}
		case outLong:
			res = append(full(), "extra")
		case outSlow:
			time.Sleep(cfg.SlowFor)
			res = full()
		case outSlowCtx:
			t := time.NewTimer(cfg.SlowFor)
			select {
			case <-ctx.Done():
				err = ctx.Err()
			case <-t.C:
				res = full()
			}
			t.Stop()
		}
		finish()
		return res, err
	}
	fs.f = f
	return fs
}

// ----------------------------------------------------------------- scenario

type roundLog struct {
	owns      []*ownCtx
	cfg       roundCfg
	invs      []*invRec
	cancelSeq int64 // tick taken before cancel(); 0 = never cancelled while observed
}

func runScenario(run *vlib.Run, i int, agg *vlib.HitAgg) {
	r := run.Rand("scenario", i)
	sc := genScenario(r)
	genResults(run.Rand("results", i), &sc)
	desc := sc.describe()
	m := &mon{}
	y := vlib.NewYielder(run.Seed()*1000003+int64(i), sc.Intensity)
	y.Install()
	defer vlib.Uninstall()
	defer agg.Add(y)

	base := context.Background()
	if sc.Limit > 0 && sc.LimiterFirst {
		base = concurrencylimiter.With(base, sc.Limit)
	}
	base = batch.WithBatching(base)
	if sc.Limit > 0 && !sc.LimiterFirst {
		base = concurrencylimiter.With(base, sc.Limit)
	}
	fns := make([]*fnState, len(sc.Fns))
	for k, c := range sc.Fns {
		fns[k] = m.makeFunc(k, c)
	}
	m.fns = fns
	activity := func() int64 { return atomic.LoadInt64(&m.seq) + y.Events() }

	var rounds []*roundLog
	for ri, rc := range sc.Rounds {
		rl := &roundLog{cfg: rc}
		rounds = append(rounds, rl)
		rctx, cancel := context.WithCancel(base)
		var cancelSeq int64
		doCancel := func() {
			atomic.CompareAndSwapInt64(&cancelSeq, 0, m.tick())
			cancel()
		}
		if rc.Cancel == cancelBefore {
			doCancel()
		}
		var pending int64
		var cwg sync.WaitGroup
		start := make(chan struct{})
		owns := make([]*ownCtx, len(rc.Callers))
		for ci, cc := range rc.Callers {
			if cc.Ctx != ctxShared {
				o := &ownCtx{fn: cc.Fn}
				o.ctx, o.cancel = context.WithCancel(rctx)
				owns[ci] = o
				rl.owns = append(rl.owns, o)
				if cc.Ctx == ctxOwnTimed {
					cwg.Add(1)
					go func(d time.Duration) {
						defer cwg.Done()
						<-start
						time.Sleep(d)
						o.cancelNow(m)
					}(cc.OwnAt)
				}
			}
		}
		m.mu.Lock()
		m.onMany = nil
		m.nest = rc.Nest
		if rc.CancelCreator {
			round := ri
			m.onMany = func(rec *manyRec) {
				if rec.Outcome != outSlowCtx && rec.ID%3 != 0 {
					return
				}
				if x, ok := rec.Args[0].(arg); ok && x.Round == round && x.Caller < len(owns) && owns[x.Caller] != nil {
					owns[x.Caller].cancelNow(m)
				}
			}
		}
		m.mu.Unlock()
		for ci, cc := range rc.Callers {
			recs := make([]*invRec, cc.Reps)
			for q := range recs {
				recs[q] = &invRec{own: owns[ci], Arg: arg{Round: ri, Caller: ci, Seq: q, Fn: cc.Fn, Shard: cc.Shard}}
				rl.invs = append(rl.invs, recs[q])
			}
			atomic.AddInt64(&pending, int64(cc.Reps))
			go func(cc callerCfg, recs []*invRec) {
				<-start
				if cc.Delay > 0 {
					time.Sleep(cc.Delay)
				}
				for q, rec := range recs {
					if q > 0 && cc.Gap > 0 {
						time.Sleep(cc.Gap)
					}
					func() {
						ctx := rctx
						if rec.own != nil {
							ctx = rec.own.ctx
						}
						if cc.Acquire {
							var rel concurrencylimiter.ReleaseFunc
							ctx, rel = concurrencylimiter.Acquire(ctx)
							defer rel()
						}
						rec.callSeq = m.tick()
						func() {
							defer func() {
								if p := recover(); p != nil {
									rec.panicked = p
								}
							}()
							rec.res, rec.err = fns[cc.Fn].f.Invoke(ctx, rec.Arg)
						}()
						rec.retSeq = m.tick()
					}()
					atomic.StoreInt32(&rec.done, 1)
					atomic.AddInt64(&pending, -1)
				}
			}(cc, recs)
		}
		if rc.Cancel == cancelDuring {
			cwg.Add(1)
			go func() {
				defer cwg.Done()
				<-start
				time.Sleep(rc.CancelAt)
				doCancel()
			}()
		}
		close(start)
		out := vlib.WaitCond(func() bool { return atomic.LoadInt64(&pending) == 0 }, activity, 3*time.Second, 40*time.Second)
		cwg.Wait()
		if out != vlib.Reached {
			var parked []string
			for _, rec := range rl.invs {
				if atomic.LoadInt32(&rec.done) == 0 {
					parked = append(parked, fmt.Sprintf("%+v", rec.Arg))
				}
			}
			if out == vlib.Undecided {
				run.Inconclusive(fmt.Sprintf("case %d round %d: %d Invoke calls not returned at the hard deadline, system still busy", i, ri, len(parked)))
			} else {
				w := map[string]interface{}{
					"what":     "the system went quiet (no log entry, no hook visit for 450 ms, all timers long expired) with Invoke calls still not returned",
					"parked":   parked,
					"expected": "every Invoke returns",
					"stacks":   vlib.Trunc(strings.Join(vlib.ThunderGoroutines(), "\n\n"), 8000),
				}
				for k, v := range desc {
					w[k] = v
				}
				run.Violation(i, "", w)
			}
			cancel()
			run.Case("hang", false)
			return
		}
		rl.cancelSeq = atomic.LoadInt64(&cancelSeq)
		m.mu.Lock()
		rl.invs = append(rl.invs, m.nested...)
		m.nested = nil
		m.mu.Unlock()
		for _, o := range rl.owns {
			o.cancel() // clean-up only: not recorded as a cancellation
		}
		if rc.Cancel == cancelAfter {
			cancel()
		} else {
			cancel()
		}
	}
	m.mu.Lock()
	manys := append([]*manyRec(nil), m.manys...)
	m.mu.Unlock()
	shape, nontrivial, feats, viols := oracle(sc, rounds, manys)
	run.Case(shape, nontrivial)
	for f, c := range feats {
		run.Count(f, c)
	}
	for _, v := range viols {
		for k, x := range desc {
			v[k] = x
		}
		v["many_calls"] = manyLog(manys)
		run.Violation(i, "", v)
	}
	if nontrivial && len(viols) == 0 && run.WantSample() {
		s := map[string]interface{}{"many_calls": manyLog(manys), "features": feats}
		for k, x := range desc {
			s[k] = x
		}
		run.Sample(s)
	}
}

func manyLog(manys []*manyRec) []string {
	var out []string
	for k, mr := range manys {
		if k >= 80 {
			out = append(out, "...")
			break
		}
		var as []string
		for _, a := range mr.Args {
			if x, ok := a.(arg); ok {
				as = append(as, fmt.Sprintf("r%d.c%d.q%d.s%d", x.Round, x.Caller, x.Seq, x.Shard))
			} else {
				as = append(as, fmt.Sprintf("?%v", a))
			}
		}
		out = append(out, fmt.Sprintf("#%d fn%d %s%s [%s] start@%d end@%d", mr.ID, mr.Fn, outNames[mr.Outcome], map[bool]string{true: "(" + mr.panicKind + ")"}[mr.panicKind != ""], strings.Join(as, " "), mr.startSeq, mr.endSeq))
	}
	return out
}

// ------------------------------------------------------------------- oracle

func isCtxErr(err error) bool {
	return err != nil && (errors.Is(err, context.Canceled) || errors.Is(err, context.DeadlineExceeded))
}

// oracle checks the complete log of a scenario in which every Invoke returned.
func oracle(sc scenario, rounds []*roundLog, manys []*manyRec) (string, bool, map[string]int, []map[string]interface{}) {
	feats := map[string]int{}
	var viols []map[string]interface{}
	bad := func(what string, kv ...interface{}) {
		if len(viols) >= 5 {
			return
		}
		w := map[string]interface{}{"what": what}
		for k := 0; k+1 < len(kv); k += 2 {
			w[fmt.Sprint(kv[k])] = fmt.Sprint(kv[k+1])
		}
		viols = append(viols, w)
	}
	known := map[arg]*invRec{}
	for _, rl := range rounds {
		for _, rec := range rl.invs {
			known[rec.Arg] = rec
		}
	}
	where := map[arg]*manyRec{}
	var shapeParts []string
	for _, mr := range manys {
		cfg := sc.Fns[mr.Fn]
		feats["many:"+outNames[mr.Outcome]]++
		feats["many_calls"]++
		if len(mr.Args) == 0 {
			bad("Func.Many called with no arguments", "call", mr.ID)
		}
		if cfg.MaxSize > 0 && len(mr.Args) > cfg.MaxSize {
			bad("batch exceeds MaxSize", "call", mr.ID, "len", len(mr.Args), "MaxSize", cfg.MaxSize)
		}
		if cfg.MaxSize > 0 && len(mr.Args) == cfg.MaxSize {
			feats["batch_at_MaxSize"]++
		}
		if len(mr.Args) > 1 {
			feats["batch_of_several"]++
		}
		if mr.mutated {
			bad("the argument slice handed to Func.Many changed while Many was running", "call", mr.ID)
		}
		var shard interface{} // the value the harness's Shard func returned for the first argument
		haveShard := false
		inCall := map[arg]bool{}
		for _, a := range mr.Args {
			x, ok := a.(arg)
			if !ok {
				bad("Func.Many received a value that no Invoke passed", "call", mr.ID, "value", fmt.Sprintf("%#v", a))
				continue
			}
			rec := known[x]
			if rec == nil {
				bad("Func.Many received an argument that no Invoke passed", "call", mr.ID, "arg", fmt.Sprintf("%+v", x))
				continue
			}
			if x.Fn != mr.Fn {
				bad("argument handed to the Many of a different Func", "call", mr.ID, "arg", fmt.Sprintf("%+v", x), "many_of_fn", mr.Fn)
			}
			if x.Shard < 0 || x.Shard >= len(cfg.ShardVals) {
				bad("argument with an unknown shard", "call", mr.ID, "arg", fmt.Sprintf("%+v", x))
				continue
			}
			// shards are compared by Go equality of the values Func.Shard returned
			if sv := cfg.ShardVals[x.Shard]; !haveShard {
				shard, haveShard = sv, true
			} else if cfg.ShardFn && sv != shard {
				bad("one Many call mixes shards", "call", mr.ID, "shards", fmt.Sprintf("%T(%v) and %T(%v)", shard, shard, sv, sv))
			}
			if inCall[x] {
				bad("argument appears twice in one Many call", "call", mr.ID, "arg", fmt.Sprintf("%+v", x))
			}
			inCall[x] = true
			if prev := where[x]; prev != nil && prev != mr {
				bad("argument handed to Func.Many more than once", "arg", fmt.Sprintf("%+v", x), "calls", fmt.Sprintf("%d and %d", prev.ID, mr.ID))
			}
			where[x] = mr
			if rec.callSeq > mr.startSeq {
				bad("argument handed to Func.Many before its Invoke was called", "arg", fmt.Sprintf("%+v", x), "call", mr.ID)
			}
		}
		shapeParts = append(shapeParts, fmt.Sprintf("f%d/%d/%s", mr.Fn, len(mr.Args), outNames[mr.Outcome]))
	}
	nontrivial := false
	undisp := 0
	for ri, rl := range rounds {
		cancelled := rl.cancelSeq != 0
		var firstCall, lastRet int64
		for _, rec := range rl.invs {
			if firstCall == 0 || rec.callSeq < firstCall {
				firstCall = rec.callSeq
			}
			if rec.retSeq > lastRet {
				lastRet = rec.retSeq
			}
		}
		if cancelled && rl.cancelSeq > firstCall && rl.cancelSeq < lastRet {
			feats["cancel_while_invokes_outstanding"]++
			nontrivial = true
		}
		// roll-over / late joiner detection per (fn, shard)
		type key struct{ fn, shard int }
		firstMany := map[key]int64{}
		for _, mr := range manys {
			if len(mr.Args) == 0 {
				continue
			}
			x, ok := mr.Args[0].(arg)
			if !ok || x.Round != ri {
				continue
			}
			k := key{mr.Fn, x.Shard}
			if !sc.Fns[mr.Fn].ShardFn {
				k.shard = 0
			}
			if s, ok := firstMany[k]; !ok || mr.startSeq < s {
				firstMany[k] = mr.startSeq
			}
		}
		rollover := map[key]int{}
		for _, mr := range manys {
			if len(mr.Args) == 0 {
				continue
			}
			x, ok := mr.Args[0].(arg)
			if !ok || x.Round != ri {
				continue
			}
			k := key{mr.Fn, x.Shard}
			if !sc.Fns[mr.Fn].ShardFn {
				k.shard = 0
			}
			if ms := sc.Fns[mr.Fn].MaxSize; ms > 0 && len(mr.Args) == ms {
				rollover[k]++
			} else if rollover[k] > 0 {
				rollover[k] += 100
			}
		}
		for _, c := range rollover {
			if c >= 2 {
				feats["maxsize_rollover"]++
				nontrivial = true
			}
		}
		for _, rec := range rl.invs {
			a := rec.Arg
			k := key{a.Fn, a.Shard}
			if !sc.Fns[a.Fn].ShardFn {
				k.shard = 0
			}
			if s, ok := firstMany[k]; ok && rec.callSeq > s && where[a] != nil {
				feats["late_joiner"]++
				nontrivial = true
			}
			// the caller's own context (or the shared one) was being cancelled before its Invoke returned
			cancelledBeforeReturn := (cancelled && rl.cancelSeq < rec.retSeq) || rec.own.cancelledBefore(rec.retSeq)
			// some other caller of the same Func had its own context cancelled before this Invoke
			// returned: if that caller created the group, the whole group fails with its context error
			groupMayBeCancelled := false
			for _, o := range rl.owns {
				if o != rec.own && o.fn == a.Fn && o.cancelledBefore(rec.retSeq) {
					groupMayBeCancelled = true
				}
			}
			id := fmt.Sprintf("%+v", a)
			if a.Nest == 1 {
				feats["invoke:issued_from_inside_many"]++
			}
			if rec.panicked != nil {
				bad("Invoke panicked instead of returning", "arg", id, "panic", fmt.Sprint(rec.panicked))
				continue
			}
			mr := where[a]
			if mr == nil {
				undisp++
				feats["invoke:never_dispatched"]++
				if groupMayBeCancelled && !cancelledBeforeReturn {
					feats["invoke:live_caller_in_cancelled_creators_group"]++
				}
				if !cancelledBeforeReturn && !groupMayBeCancelled {
					bad("argument was never handed to Func.Many although neither its own context nor that of another caller of the Func was cancelled before Invoke returned", "arg", id, "result", fmt.Sprint(rec.res), "err", fmt.Sprint(rec.err))
				} else if rec.err == nil {
					bad("Invoke returned a result without error although its argument was never handed to Func.Many", "arg", id, "result", fmt.Sprint(rec.res))
				} else if !isCtxErr(rec.err) {
					bad("Invoke of an argument that was never handed to Func.Many returned an error that is not the context's", "arg", id, "err", rec.err)
				}
				continue
			}
			if mr.endSeq == 0 || mr.endSeq > rec.retSeq {
				bad("Invoke returned before the Many call containing its argument finished", "arg", id, "call", mr.ID)
			}
			ctxAlt := cancelledBeforeReturn && isCtxErr(rec.err) && rec.res == nil
			switch mr.Outcome {
			case outOK, outSlow, outSlowCtx:
				if mr.err != nil { // slow-until-cancel ended with the context error
					feats["invoke:many_ctx_error"]++
					if !cancelledBeforeReturn {
						feats["invoke:live_caller_gets_ctx_error_of_its_batch"]++
					}
					if rec.err != mr.err && !ctxAlt {
						bad("Invoke did not return the error of the Many call that contained its argument", "arg", id, "call", mr.ID, "got_err", fmt.Sprint(rec.err), "want_err", mr.err)
					} else if rec.res != nil {
						bad("Invoke returned a result together with an error", "arg", id, "result", fmt.Sprint(rec.res))
					}
					break
				}
				feats["invoke:result"]++
				if ctxAlt {
					break
				}
				kind := resKindOf(sc.Fns[a.Fn].ResSalt, a)
				feats["result_element:"+resKindNames[kind]]++
				pos := -1
				for p, x := range mr.Args {
					if y, ok := x.(arg); ok && y == a {
						pos = p
					}
				}
				expect := describeRes(makeResult(sc.Fns[a.Fn].ResSalt, a))
				if rec.err != nil {
					bad("Invoke returned an error although the Many call containing its argument succeeded", "arg", id, "call", mr.ID, "err", rec.err, "err_type", fmt.Sprintf("%T", rec.err), "result", describeRes(rec.res), "want_result", expect, "want_err", "<nil>")
				} else if got := describeRes(rec.res); got != expect {
					bad("Invoke returned a result that is not the one computed for its own argument", "arg", id, "call", mr.ID, "got", got, "want", expect)
				} else if pos < 0 || pos >= len(mr.results) {
					bad("the successful Many call containing the argument has no element at the argument's position", "arg", id, "call", mr.ID, "position", pos, "results", len(mr.results))
				} else if !sameElement(rec.res, mr.results[pos]) {
					bad("Invoke returned a value that is not the very element the Many call returned at the position of its argument (same content, other object)", "arg", id, "call", mr.ID, "got", got, "position", pos)
				}
			case outError, outErrorRes:
				feats["invoke:many_error"]++
				if rec.err != mr.err && !ctxAlt {
					bad("Invoke did not return the error object of the Many call that contained its argument", "arg", id, "call", mr.ID, "got_err", fmt.Sprint(rec.err), "want_err", mr.err)
				} else if rec.res != nil {
					bad("Invoke returned a result together with an error", "arg", id, "result", fmt.Sprint(rec.res))
				}
			case outPanic, outShort, outLong:
				if mr.Outcome == outPanic {
					feats["many_panic_value:"+mr.panicKind]++
				}
				feats["invoke:many_"+outNames[mr.Outcome]]++
				if rec.err == nil {
					bad("Invoke returned no error although the Many call containing its argument "+outNames[mr.Outcome]+" (panic / wrong number of results)", "arg", id, "call", mr.ID, "result", fmt.Sprint(rec.res))
				} else if rec.res != nil {
					bad("Invoke returned a result together with an error", "arg", id, "result", fmt.Sprint(rec.res))
				}
			}
		}
	}
	sort.Strings(shapeParts)
	var cfgs []string
	for _, f := range sc.Fns {
		c := ""
		if f.Colliding {
			c = "c"
			feats["func:shard_values_of_mixed_types_same_rendering"]++
		}
		if f.Boundary {
			c += "b"
			feats["func:boundary_option_values"]++
			if f.MaxSize >= 1<<20 {
				feats["func:huge_MaxSize"]++
			}
			if f.Wait == veryLong || f.MaxDur == veryLong {
				feats["func:very_long_timer_option"]++
			}
			if f.Wait == 1 || f.MaxDur == 1 {
				feats["func:1ns_timer_option"]++
			}
			if f.Wait == 0 || f.MaxDur == 0 {
				feats["func:default_timer_option"]++
			}
		}
		if f.ResSalt != 0 {
			c += "r"
			feats["func:result_elements_of_mixed_dynamic_types"]++
		}
		cfgs = append(cfgs, fmt.Sprintf("m%d/s%d%s", f.MaxSize, f.Shards, c))
	}
	var rs []string
	for _, rc := range sc.Rounds {
		pc := ""
		if rc.PerCaller {
			pc = "p"
			feats["round:per_caller_contexts"]++
		}
		if rc.Nest {
			pc = "n"
			feats["round:many_issues_nested_invokes"]++
		}
		if rc.CancelCreator {
			pc = "P"
			feats["round:creator_cancelled_when_many_entered"]++
		}
		rs = append(rs, fmt.Sprintf("%d%s%s", len(rc.Callers), cancelNames[rc.Cancel][:1], pc))
	}
	if sc.Limit > 0 {
		feats["scenario:with_limiter"]++
	}
	if len(sc.Fns) > 1 {
		feats["scenario:several_funcs"]++
	}
	if len(sc.Rounds) > 1 {
		feats["scenario:several_rounds"]++
	}
	shape := fmt.Sprintf("L%d %s %s undisp=%d | %s", sc.Limit, strings.Join(cfgs, ","), strings.Join(rs, ","), undisp, strings.Join(shapeParts, " "))
	return shape, nontrivial, feats, viols
}

// -------------------------------------------------------------------- check

func TestCheck(t *testing.T) {
	run := vlib.Start(t, "C05", "exploration")
	defer run.Finish()
	run.Rule("seeded scenarios on the real batch.Func: 1..3 Funcs on one batching context (MaxSize in {0,1,2,3,7}, WaitInterval 0.2-2 ms, MaxDuration 1-5 ms, one Func in six with options at representational boundaries (MaxSize in {1, 2, callers-1, callers, callers+1, 1<<20, MaxInt32, MaxInt}; WaitInterval / MaxDuration in {0 = default, 1ns, the largest Duration}, never both very long), 1..4 shards, Shard func nil or set, shard values either ints or values of different dynamic types / distinct pointers with the same %v rendering (orgID(b), deviceID(b), int b, string b, int64(b), two &shardPoint{b}, uint8(b)), per-call Many outcome from {ok, error, error+results, panic (with a value that is a string, error, custom error type, int, struct, pointer, Stringer, slice, func, nil, or raised by the runtime: nil map write, index out of range, nil dereference), short, long, slow, slow-until-cancel}; in half of the Funcs (own random stream) the element Many computes for an argument is not a string but a value whose dynamic type is chosen per argument from {string, int, struct, pointer, nil, zero value, typed nil pointer, struct / pointer / typed nil pointer of a type that implements error (a stored record, not a failure), errors.New / fmt.Errorf value kept as data (also wrapping a context error), Stringer, slice, nested []interface{} of 0..3 elements, map, func, chan, the argument itself}), " +
		"1..3 back-to-back rounds of 1..64 callers (1..3 sequential Invokes each) started in bursts placed at 0, 0.5/0.9/1/1.1/2 x WaitInterval and 0.9/1/1.1 x MaxDuration, round context cancelled never / before / during / after, " +
		"with or without concurrencylimiter.With(ctx,1..3) and an Acquire around every Invoke, in half of the shared-context rounds every second Many call itself invokes another Func and the same Func with another argument on the same batching context (sequentially or from goroutines it waits for; these nested Invokes are monitored like all others), random yields at the batch.* and limiter.* hooks. In half of the rounds all callers share the round's cancellable context; in the other half callers use own contexts derived from it (live, cancelled at a seeded time, or - in half of those rounds - cancelled by the harness at the moment a Many call whose first argument is theirs, i.e. whose group they created, is entered, with Many outcomes biased to slow-until-cancel). " +
		"Non-trivial = the log shows a MaxSize roll-over (a full batch followed by another batch of the same Func/shard in the round), a late joiner (Invoke called after a Many call of its Func/shard had started, and dispatched in a later call) or a cancellation while Invokes were outstanding; " +
		"distinct = limiter size, per-Func (MaxSize, shards, string or mixed-type result elements), per-round (callers, cancel mode), number of undispatched arguments and the multiset of Many calls (Func, batch size, outcome).")
	run.Assume("shards are compared by Go equality (==) of the values the harness's Shard function returned for the arguments, never by a printed form")
	run.Assume("arguments are unique (round, caller, seq) values; Many computes an element per position that (except for nil / zero / typed-nil elements) names its argument, so any mis-pairing of argument and result is visible")
	run.Assume("'the element of the batch result that corresponds to its own argument' is read literally for every dynamic type: when Many returned a nil error and the right number of results, Invoke must return (that very element, nil) - same dynamic type and content, Go-equal where comparable, the same underlying object for slices / maps / funcs - also when the element is nil or happens to implement error")
	run.Assume("with per-caller contexts: a caller whose own context is live and whose argument was handed to a Many call gets that call's outcome (its error object if it failed, e.g. the creator's context error) and is never dispatched again; an argument that was never dispatched is accepted only with a context error and only if the caller's own context, the round context, or the own context of another caller of the same Func (a possible creator of its group) was being cancelled before the Invoke returned")
	run.Assume("an Invoke may return the context's error instead of the batch outcome once cancel() of its context has been begun before it returned (lenient reading of 'or the batch's error')")
	run.Assume("all log sequence numbers come from one atomic counter: Invoke call is logged before the call, Invoke return after it, Many entry/exit inside Many")
	agg := vlib.NewHitAgg()
	n := run.N(12000, 400000)
	run.Each(n, 1, func(i int) {
		if run.Violations() >= 6 {
			run.Count("skipped_after_violations", 1)
			return
		}
		fmt.Println("CASE", i)
		runScenario(run, i, agg)
	})
	agg.Report(run)
}
