package fakesql

import (
	"database/sql/driver"
	"fmt"
	"strconv"
	"strings"
)

type tokKind int

const (
	tEOF tokKind = iota
	tIdent
	tNumber
	tString
	tPunct // ( ) , = * ? < > <= >= != <>
)

type token struct {
	kind tokKind
	text string // identifiers keep their case; keywords are compared case-insensitively
	pos  int
}

func lex(s string) ([]token, error) {
	var out []token
	i := 0
	for i < len(s) {
		c := s[i]
		switch {
		case c == ' ' || c == '\t' || c == '\n' || c == '\r':
			i++
		case c == '`':
			j := strings.IndexByte(s[i+1:], '`')
			if j < 0 {
				return nil, fmt.Errorf("unterminated ` at %d", i)
			}
			out = append(out, token{tIdent, s[i+1 : i+1+j], i})
			i += j + 2
		case isIdentStart(c):
			j := i + 1
			for j < len(s) && (isIdentStart(s[j]) || (s[j] >= '0' && s[j] <= '9') || s[j] == '.') {
				j++
			}
			out = append(out, token{tIdent, s[i:j], i})
			i = j
		case c >= '0' && c <= '9':
			j := i + 1
			for j < len(s) && ((s[j] >= '0' && s[j] <= '9') || s[j] == '.') {
				j++
			}
			out = append(out, token{tNumber, s[i:j], i})
			i = j
		case c == '\'':
			var sb strings.Builder
			j := i + 1
			closed := false
			for j < len(s) {
				if s[j] == '\\' && j+1 < len(s) {
					sb.WriteByte(s[j+1])
					j += 2
					continue
				}
				if s[j] == '\'' {
					if j+1 < len(s) && s[j+1] == '\'' {
						sb.WriteByte('\'')
						j += 2
						continue
					}
					closed = true
					j++
					break
				}
				sb.WriteByte(s[j])
				j++
			}
			if !closed {
				return nil, fmt.Errorf("unterminated string at %d", i)
			}
			out = append(out, token{tString, sb.String(), i})
			i = j
		case c == '<' || c == '>' || c == '!':
			if i+1 < len(s) && (s[i+1] == '=' || (c == '<' && s[i+1] == '>')) {
				out = append(out, token{tPunct, s[i : i+2], i})
				i += 2
			} else if c == '!' {
				return nil, fmt.Errorf("unexpected ! at %d", i)
			} else {
				out = append(out, token{tPunct, s[i : i+1], i})
				i++
			}
		case strings.IndexByte("(),=*?", c) >= 0:
			out = append(out, token{tPunct, string(c), i})
			i++
		default:
			return nil, fmt.Errorf("unexpected character %q at %d", c, i)
		}
	}
	out = append(out, token{tEOF, "", len(s)})
	return out, nil
}

func isIdentStart(c byte) bool {
	return c == '_' || (c >= 'a' && c <= 'z') || (c >= 'A' && c <= 'Z')
}

type parser struct {
	toks []token
	i    int
	args []driver.Value
	narg int
}

func (p *parser) peek() token { return p.toks[p.i] }
func (p *parser) next() token { t := p.toks[p.i]; p.i++; return t }

func (p *parser) isKw(kw string) bool {
	t := p.peek()
	return t.kind == tIdent && strings.EqualFold(t.text, kw)
}

func (p *parser) isKwAt(off int, kw string) bool {
	if p.i+off >= len(p.toks) {
		return false
	}
	t := p.toks[p.i+off]
	return t.kind == tIdent && strings.EqualFold(t.text, kw)
}

func (p *parser) acceptKw(kw string) bool {
	if p.isKw(kw) {
		p.i++
		return true
	}
	return false
}

func (p *parser) expectKw(kws ...string) error {
	for _, kw := range kws {
		if !p.acceptKw(kw) {
			return p.errf("expected %s", kw)
		}
	}
	return nil
}

func (p *parser) isPunct(s string) bool {
	t := p.peek()
	return t.kind == tPunct && t.text == s
}

func (p *parser) isPunctAt(off int, s string) bool {
	if p.i+off >= len(p.toks) {
		return false
	}
	t := p.toks[p.i+off]
	return t.kind == tPunct && t.text == s
}

func (p *parser) acceptPunct(s string) bool {
	if p.isPunct(s) {
		p.i++
		return true
	}
	return false
}

func (p *parser) expectPunct(s string) error {
	if !p.acceptPunct(s) {
		return p.errf("expected %q", s)
	}
	return nil
}

func (p *parser) errf(format string, a ...interface{}) error {
	t := p.peek()
	return fmt.Errorf("%s (at offset %d near %q)", fmt.Sprintf(format, a...), t.pos, t.text)
}

var reserved = map[string]bool{"select": true, "from": true, "where": true, "and": true, "or": true, "not": true, "in": true, "is": true,
	"null": true, "order": true, "by": true, "limit": true, "for": true, "update": true, "insert": true, "into": true, "values": true,
	"on": true, "duplicate": true, "key": true, "set": true, "delete": true, "asc": true, "desc": true, "force": true, "use": true, "index": true}

func (p *parser) ident() (string, error) {
	t := p.peek()
	if t.kind != tIdent || reserved[strings.ToLower(t.text)] {
		return "", p.errf("expected identifier")
	}
	p.i++
	return t.text, nil
}

func (p *parser) operand() (Operand, error) {
	t := p.peek()
	switch {
	case t.kind == tPunct && t.text == "?":
		p.i++
		if p.narg >= len(p.args) {
			return Operand{}, fmt.Errorf("more placeholders than arguments (%d)", len(p.args))
		}
		o := Operand{IsArg: true, ArgIdx: p.narg, Val: p.args[p.narg]}
		p.narg++
		return o, nil
	case t.kind == tNumber:
		p.i++
		if strings.Contains(t.text, ".") {
			f, err := strconv.ParseFloat(t.text, 64)
			if err != nil {
				return Operand{}, err
			}
			return Operand{Val: f}, nil
		}
		n, err := strconv.ParseInt(t.text, 10, 64)
		if err != nil {
			return Operand{}, err
		}
		return Operand{Val: n}, nil
	case t.kind == tString:
		p.i++
		return Operand{Val: t.text}, nil
	case t.kind == tIdent && strings.EqualFold(t.text, "null"):
		p.i++
		return Operand{Val: nil}, nil
	}
	return Operand{}, p.errf("expected value")
}

func (p *parser) identList() ([]string, error) {
	var out []string
	for {
		id, err := p.ident()
		if err != nil {
			return nil, err
		}
		out = append(out, id)
		if !p.acceptPunct(",") {
			return out, nil
		}
	}
}

func (p *parser) operandTuple() ([]Operand, error) {
	if err := p.expectPunct("("); err != nil {
		return nil, err
	}
	var out []Operand
	for {
		o, err := p.operand()
		if err != nil {
			return nil, err
		}
		out = append(out, o)
		if !p.acceptPunct(",") {
			break
		}
	}
	return out, p.expectPunct(")")
}

// parse parses one statement of the sqlgen dialect.
func parse(sql string, args []driver.Value) (*Stmt, error) {
	toks, err := lex(sql)
	if err != nil {
		return nil, err
	}
	p := &parser{toks: toks, args: args}
	st := &Stmt{SQL: sql, Args: args}
	switch {
	case p.isKw("explain") && p.isKwAt(1, "select"):
		p.i += 2
		if err = p.parseSelect(st); err == nil {
			if st.Kind != SSelect {
				err = fmt.Errorf("EXPLAIN of a statement other than a row SELECT")
			}
			st.Kind = SExplain
		}
	case p.acceptKw("select"):
		err = p.parseSelect(st)
	case p.acceptKw("insert"):
		err = p.parseInsert(st)
	case p.acceptKw("update"):
		err = p.parseUpdate(st)
	case p.acceptKw("delete"):
		err = p.parseDelete(st)
	default:
		err = p.errf("unsupported statement")
	}
	if err != nil {
		return nil, err
	}
	if p.peek().kind != tEOF {
		return nil, p.errf("unexpected trailing input")
	}
	if p.narg != len(args) {
		return nil, fmt.Errorf("%d placeholders but %d arguments", p.narg, len(args))
	}
	return st, nil
}

func (p *parser) parseSelect(st *Stmt) error {
	st.Kind = SSelect
	if p.isKw("count") && p.isPunctAt(1, "(") {
		p.i += 2
		if err := p.expectPunct("*"); err != nil {
			return err
		}
		if err := p.expectPunct(")"); err != nil {
			return err
		}
		st.Kind = SCount
	} else if p.acceptPunct("*") {
		st.Columns = []string{"*"}
	} else {
		cols, err := p.identList()
		if err != nil {
			return err
		}
		st.Columns = cols
	}
	if err := p.expectKw("from"); err != nil {
		return err
	}
	t, err := p.ident()
	if err != nil {
		return err
	}
	st.Table = t
	if p.isKw("force") || p.isKw("use") {
		kind := strings.ToUpper(p.next().text)
		if err := p.expectKw("index"); err != nil {
			return err
		}
		if err := p.expectPunct("("); err != nil {
			return err
		}
		names, err := p.identList()
		if err != nil {
			return err
		}
		if err := p.expectPunct(")"); err != nil {
			return err
		}
		st.IndexHint = kind + " INDEX(" + strings.Join(names, ",") + ")"
	}
	if p.acceptKw("where") {
		e, err := p.parseOr()
		if err != nil {
			return err
		}
		st.Where = e
	}
	if p.acceptKw("order") {
		if err := p.expectKw("by"); err != nil {
			return err
		}
		for {
			c, err := p.ident()
			if err != nil {
				return err
			}
			term := OrderTerm{Col: c}
			if p.acceptKw("desc") {
				term.Desc = true
			} else {
				p.acceptKw("asc")
			}
			st.OrderBy = append(st.OrderBy, term)
			if !p.acceptPunct(",") {
				break
			}
		}
	}
	if p.acceptKw("limit") {
		t := p.next()
		if t.kind != tNumber {
			return p.errf("expected LIMIT count")
		}
		n, err := strconv.Atoi(t.text)
		if err != nil || n <= 0 {
			return fmt.Errorf("bad LIMIT %q", t.text)
		}
		st.Limit = n
	}
	if p.acceptKw("for") {
		if err := p.expectKw("update"); err != nil {
			return err
		}
		st.ForUpdate = true
	}
	return nil
}

func (p *parser) parseInsert(st *Stmt) error {
	st.Kind = SInsert
	if err := p.expectKw("into"); err != nil {
		return err
	}
	t, err := p.ident()
	if err != nil {
		return err
	}
	st.Table = t
	if err := p.expectPunct("("); err != nil {
		return err
	}
	cols, err := p.identList()
	if err != nil {
		return err
	}
	st.Columns = cols
	if err := p.expectPunct(")"); err != nil {
		return err
	}
	if err := p.expectKw("values"); err != nil {
		return err
	}
	for {
		row, err := p.operandTuple()
		if err != nil {
			return err
		}
		if len(row) != len(cols) {
			return fmt.Errorf("row has %d values for %d columns", len(row), len(cols))
		}
		st.Rows = append(st.Rows, row)
		if !p.acceptPunct(",") {
			break
		}
	}
	if p.acceptKw("on") {
		if err := p.expectKw("duplicate", "key", "update"); err != nil {
			return err
		}
		st.Kind = SUpsert
		for {
			c, err := p.ident()
			if err != nil {
				return err
			}
			if err := p.expectPunct("="); err != nil {
				return err
			}
			if err := p.expectKw("values"); err != nil {
				return err
			}
			if err := p.expectPunct("("); err != nil {
				return err
			}
			src, err := p.ident()
			if err != nil {
				return err
			}
			if err := p.expectPunct(")"); err != nil {
				return err
			}
			st.OnDup = append(st.OnDup, DupAssign{Col: c, Src: src})
			if !p.acceptPunct(",") {
				break
			}
		}
	}
	return nil
}

func (p *parser) parseUpdate(st *Stmt) error {
	st.Kind = SUpdate
	t, err := p.ident()
	if err != nil {
		return err
	}
	st.Table = t
	if err := p.expectKw("set"); err != nil {
		return err
	}
	for {
		c, err := p.ident()
		if err != nil {
			return err
		}
		if err := p.expectPunct("="); err != nil {
			return err
		}
		o, err := p.operand()
		if err != nil {
			return err
		}
		st.Set = append(st.Set, Assign{Col: c, Val: o})
		if !p.acceptPunct(",") {
			break
		}
	}
	if p.acceptKw("where") {
		e, err := p.parseOr()
		if err != nil {
			return err
		}
		st.Where = e
	}
	return nil
}

func (p *parser) parseDelete(st *Stmt) error {
	st.Kind = SDelete
	if err := p.expectKw("from"); err != nil {
		return err
	}
	t, err := p.ident()
	if err != nil {
		return err
	}
	st.Table = t
	if p.acceptKw("where") {
		e, err := p.parseOr()
		if err != nil {
			return err
		}
		st.Where = e
	}
	return nil
}

func (p *parser) parseOr() (*Expr, error) {
	l, err := p.parseAnd()
	if err != nil {
		return nil, err
	}
	if !p.isKw("or") {
		return l, nil
	}
	e := &Expr{Op: OpOr, Kids: []*Expr{l}}
	for p.acceptKw("or") {
		r, err := p.parseAnd()
		if err != nil {
			return nil, err
		}
		e.Kids = append(e.Kids, r)
	}
	return e, nil
}

func (p *parser) parseAnd() (*Expr, error) {
	l, err := p.parseNot()
	if err != nil {
		return nil, err
	}
	if !p.isKw("and") {
		return l, nil
	}
	e := &Expr{Op: OpAnd, Kids: []*Expr{l}}
	for p.acceptKw("and") {
		r, err := p.parseNot()
		if err != nil {
			return nil, err
		}
		e.Kids = append(e.Kids, r)
	}
	return e, nil
}

func (p *parser) parseNot() (*Expr, error) {
	if p.acceptKw("not") {
		k, err := p.parseNot()
		if err != nil {
			return nil, err
		}
		return &Expr{Op: OpNot, Kids: []*Expr{k}}, nil
	}
	return p.parsePrimary()
}

func (p *parser) parsePrimary() (*Expr, error) {
	if p.isPunct("(") {
		// tuple IN: "(" ident "," ...  or "((" ident "," ... "))" IN
		save := p.i
		depth := 0
		for p.isPunct("(") {
			p.i++
			depth++
		}
		if p.peek().kind == tIdent && !reserved[strings.ToLower(p.peek().text)] && p.isPunctAt(1, ",") {
			cols, err := p.identList()
			if err != nil {
				return nil, err
			}
			for d := 0; d < depth; d++ {
				if err := p.expectPunct(")"); err != nil {
					return nil, err
				}
			}
			if err := p.expectKw("in"); err != nil {
				return nil, err
			}
			if err := p.expectPunct("("); err != nil {
				return nil, err
			}
			e := &Expr{Op: OpTupleIn, Cols: cols}
			for {
				t, err := p.operandTuple()
				if err != nil {
					return nil, err
				}
				if len(t) != len(cols) {
					return nil, fmt.Errorf("tuple of %d values for %d columns", len(t), len(cols))
				}
				e.Tuples = append(e.Tuples, t)
				if !p.acceptPunct(",") {
					break
				}
			}
			return e, p.expectPunct(")")
		}
		p.i = save
		p.i++ // "("
		e, err := p.parseOr()
		if err != nil {
			return nil, err
		}
		return e, p.expectPunct(")")
	}
	col, err := p.ident()
	if err != nil {
		return nil, err
	}
	switch {
	case p.acceptKw("is"):
		not := p.acceptKw("not")
		o, err := p.operand()
		if err != nil {
			return nil, err
		}
		if o.Val != nil {
			return nil, fmt.Errorf("IS with a non-NULL operand %s", FormatValue(o.Val))
		}
		if not {
			return &Expr{Op: OpIsNotNull, Col: col, Val: o}, nil
		}
		return &Expr{Op: OpIsNull, Col: col, Val: o}, nil
	case p.isKw("in") || (p.isKw("not") && p.isKwAt(1, "in")):
		op := OpIn
		if p.acceptKw("not") {
			op = OpNotIn
		}
		p.i++
		vals, err := p.operandTuple()
		if err != nil {
			return nil, err
		}
		return &Expr{Op: op, Col: col, Vals: vals}, nil
	}
	t := p.peek()
	if t.kind == tPunct {
		var op Op
		ok := true
		switch t.text {
		case "=":
			op = OpEq
		case "!=", "<>":
			op = OpNe
		case "<":
			op = OpLt
		case "<=":
			op = OpLe
		case ">":
			op = OpGt
		case ">=":
			op = OpGe
		default:
			ok = false
		}
		if ok {
			p.i++
			o, err := p.operand()
			if err != nil {
				return nil, err
			}
			return &Expr{Op: op, Col: col, Val: o}, nil
		}
	}
	return nil, p.errf("expected comparison after column %s", col)
}
