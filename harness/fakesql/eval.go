package fakesql

import (
	"bytes"
	"database/sql/driver"
	"fmt"
	"math"
	"strconv"
	"strings"
	"time"
)

// Kind is the storage class of a column.
type Kind int

const (
	KInt    Kind = iota // BIGINT (also used for unsigned widths: thunder sends int64)
	KFloat              // DOUBLE
	KBool               // TINYINT(1)
	KString             // VARCHAR/TEXT, binary collation
	KBytes              // BLOB/VARBINARY
	KTime               // DATETIME(6), session time zone UTC
)

func (k Kind) String() string {
	return [...]string{"int", "float", "bool", "string", "bytes", "time"}[k]
}

// Tri is a truth value of SQL's three-valued logic.
type Tri int8

const (
	False   Tri = 0
	Unknown Tri = 1
	True    Tri = 2
)

func triNot(a Tri) Tri { return 2 - a }

func triAnd(a, b Tri) Tri {
	if a < b {
		return a
	}
	return b
}

func triOr(a, b Tri) Tri {
	if a > b {
		return a
	}
	return b
}

const timeLayout = "2006-01-02 15:04:05.000000"

// SQLError mimics a MySQL server error (number + message).
type SQLError struct {
	Number  uint16
	Message string
}

func (e *SQLError) Error() string { return fmt.Sprintf("Error %d: %s", e.Number, e.Message) }

// NormTime is the engine's normal form of a time value: UTC, rounded to
// microseconds the way go-sql-driver/mysql formats time arguments, no
// monotonic reading.
func NormTime(t time.Time) time.Time {
	if t.IsZero() {
		return time.Time{}
	}
	t = t.In(time.UTC).Add(500 * time.Nanosecond)
	return time.Date(t.Year(), t.Month(), t.Day(), t.Hour(), t.Minute(), t.Second(), t.Nanosecond()/1000*1000, time.UTC)
}

func formatTime(t time.Time) string {
	if t.IsZero() {
		return "0000-00-00 00:00:00.000000"
	}
	return t.Format(timeLayout)
}

// timeLiteral is the text go-sql-driver/mysql interpolates for a time.Time
// argument (fraction only when non-zero, then six digits).
func timeLiteral(t time.Time) string {
	if t.IsZero() {
		return "0000-00-00"
	}
	t = NormTime(t)
	if t.Nanosecond() == 0 {
		return t.Format("2006-01-02 15:04:05")
	}
	return t.Format(timeLayout)
}

func parseTime(s string) (time.Time, bool) {
	s = strings.TrimSpace(s)
	if strings.HasPrefix(s, "0000-00-00") {
		return time.Time{}, true
	}
	for _, l := range []string{"2006-01-02 15:04:05.999999999", "2006-01-02 15:04:05", "2006-01-02T15:04:05.999999999Z07:00", "2006-01-02"} {
		if t, err := time.ParseInLocation(l, s, time.UTC); err == nil {
			return NormTime(t), true
		}
	}
	return time.Time{}, false
}

// numericPrefix converts a string to a number the way MySQL does in a numeric
// context: the longest leading numeric prefix, 0 if none.
func numericPrefix(s string) float64 {
	s = strings.TrimLeft(s, " \t\n\r")
	end := 0
	seenDigit, seenDot, seenExp := false, false, false
	for i := 0; i < len(s); i++ {
		c := s[i]
		switch {
		case c >= '0' && c <= '9':
			seenDigit = true
			end = i + 1
		case (c == '+' || c == '-') && (i == 0 || ((s[i-1] == 'e' || s[i-1] == 'E') && seenExp)):
		case c == '.' && !seenDot && !seenExp:
			seenDot = true
			if seenDigit {
				end = i + 1
			}
		case (c == 'e' || c == 'E') && seenDigit && !seenExp:
			seenExp = true
		default:
			i = len(s)
		}
	}
	if end == 0 {
		return 0
	}
	f, err := strconv.ParseFloat(strings.TrimRight(s[:end], "."), 64)
	if err != nil {
		return 0
	}
	return f
}

func asFloat(v driver.Value) (float64, bool) {
	switch v := v.(type) {
	case int64:
		return float64(v), true
	case float64:
		return v, true
	case bool:
		if v {
			return 1, true
		}
		return 0, true
	case string:
		return numericPrefix(v), true
	case []byte:
		return numericPrefix(string(v)), true
	case time.Time:
		return numericPrefix(timeLiteral(v)), true
	}
	return 0, false
}

func asBytes(v driver.Value) ([]byte, bool) {
	switch v := v.(type) {
	case string:
		return []byte(v), true
	case []byte:
		return v, true
	}
	return nil, false
}

func cmpFloat(a, b float64) int {
	switch {
	case a < b:
		return -1
	case a > b:
		return 1
	}
	return 0
}

func cmpInt(a, b int64) int {
	switch {
	case a < b:
		return -1
	case a > b:
		return 1
	}
	return 0
}

// Compare compares a stored value of a column of the given kind with an
// operand, MySQL style. ok is false when the result is UNKNOWN (a NULL on
// either side).
func Compare(kind Kind, stored, arg driver.Value) (cmp int, ok bool) {
	if stored == nil || arg == nil {
		return 0, false
	}
	if b, isB := arg.([]byte); isB && b == nil {
		return 0, false // go-sql-driver sends a nil []byte as NULL
	}
	switch kind {
	case KInt, KBool:
		s := stored.(int64)
		switch a := arg.(type) {
		case int64:
			return cmpInt(s, a), true
		case bool:
			if a {
				return cmpInt(s, 1), true
			}
			return cmpInt(s, 0), true
		}
		f, _ := asFloat(arg)
		return cmpFloat(float64(s), f), true
	case KFloat:
		f, _ := asFloat(arg)
		return cmpFloat(stored.(float64), f), true
	case KString, KBytes:
		var sb []byte
		if kind == KString {
			sb = []byte(stored.(string))
		} else {
			sb = stored.([]byte)
		}
		if ab, isBytes := asBytes(arg); isBytes {
			return bytes.Compare(sb, ab), true
		}
		if t, isTime := arg.(time.Time); isTime {
			return bytes.Compare(sb, []byte(timeLiteral(t))), true
		}
		f, _ := asFloat(arg)
		return cmpFloat(numericPrefix(string(sb)), f), true
	case KTime:
		s := stored.(time.Time)
		switch a := arg.(type) {
		case time.Time:
			return cmpTime(s, NormTime(a)), true
		case string:
			if t, ok := parseTime(a); ok {
				return cmpTime(s, t), true
			}
			return 1, true
		case []byte:
			if t, ok := parseTime(string(a)); ok {
				return cmpTime(s, t), true
			}
			return 1, true
		}
		return 1, true
	}
	return 0, false
}

func cmpTime(a, b time.Time) int {
	switch {
	case a.Before(b):
		return -1
	case a.After(b):
		return 1
	}
	return 0
}

// Coerce converts an argument to the stored normal form of a column kind
// (int64, float64, string, []byte, time.Time; KBool stores int64 0/1), or
// returns a MySQL-style error in strict mode.
func Coerce(kind Kind, v driver.Value) (driver.Value, error) {
	if v == nil {
		return nil, nil
	}
	if b, isB := v.([]byte); isB && b == nil {
		return nil, nil
	}
	bad := func() (driver.Value, error) {
		return nil, &SQLError{1366, fmt.Sprintf("Incorrect %s value: %s", kind, FormatValue(v))}
	}
	switch kind {
	case KInt, KBool:
		switch a := v.(type) {
		case int64:
			return a, nil
		case bool:
			if a {
				return int64(1), nil
			}
			return int64(0), nil
		case float64:
			if math.IsNaN(a) || math.IsInf(a, 0) || math.Abs(a) >= 9.3e18 {
				return bad()
			}
			return int64(math.Round(a)), nil
		case string, []byte:
			b, _ := asBytes(v)
			s := strings.TrimSpace(string(b))
			if n, err := strconv.ParseInt(s, 10, 64); err == nil {
				return n, nil
			}
			if f, err := strconv.ParseFloat(s, 64); err == nil && math.Abs(f) < 9.3e18 {
				return int64(math.Round(f)), nil
			}
			return bad()
		}
		return bad()
	case KFloat:
		switch a := v.(type) {
		case int64:
			return float64(a), nil
		case float64:
			if math.IsNaN(a) || math.IsInf(a, 0) {
				return bad()
			}
			return a, nil
		case bool:
			if a {
				return float64(1), nil
			}
			return float64(0), nil
		case string, []byte:
			b, _ := asBytes(v)
			if f, err := strconv.ParseFloat(strings.TrimSpace(string(b)), 64); err == nil {
				return f, nil
			}
			return bad()
		}
		return bad()
	case KString, KBytes:
		var s string
		switch a := v.(type) {
		case string:
			s = a
		case []byte:
			s = string(a)
		case int64:
			s = strconv.FormatInt(a, 10)
		case float64:
			s = strconv.FormatFloat(a, 'g', -1, 64)
		case bool:
			s = "0"
			if a {
				s = "1"
			}
		case time.Time:
			s = timeLiteral(a)
		default:
			return bad()
		}
		if kind == KBytes {
			return []byte(s), nil
		}
		return s, nil
	case KTime:
		switch a := v.(type) {
		case time.Time:
			return NormTime(a), nil
		case string, []byte:
			b, _ := asBytes(v)
			if t, ok := parseTime(string(b)); ok {
				return t, nil
			}
			return nil, &SQLError{1292, fmt.Sprintf("Incorrect datetime value: %s", FormatValue(v))}
		}
		return nil, &SQLError{1292, fmt.Sprintf("Incorrect datetime value: %s", FormatValue(v))}
	}
	return bad()
}

// Protocol selects the Go forms in which result values are handed to
// database/sql.
type Protocol int

const (
	// Text is MySQL's text protocol as go-sql-driver returns it for plain
	// queries: []byte text for every non-NULL value.
	Text Protocol = iota
	// Binary is the prepared-statement protocol: int64, float64, []byte.
	Binary
)

// render converts a stored value to the protocol form.
func render(kind Kind, v driver.Value, proto Protocol, parseTimeOpt bool) driver.Value {
	if v == nil {
		return nil
	}
	if kind == KTime && parseTimeOpt {
		return v.(time.Time)
	}
	switch kind {
	case KInt, KBool:
		if proto == Binary {
			return v.(int64)
		}
		return []byte(strconv.FormatInt(v.(int64), 10))
	case KFloat:
		if proto == Binary {
			return v.(float64)
		}
		return []byte(strconv.FormatFloat(v.(float64), 'g', -1, 64))
	case KString:
		return []byte(v.(string))
	case KBytes:
		return append([]byte{}, v.([]byte)...)
	case KTime:
		return []byte(formatTime(v.(time.Time)))
	}
	return v
}

// valuesEqual compares two stored normal-form values of one kind (NULL equals
// NULL here: this is identity of row images, not SQL equality).
func valuesEqual(a, b driver.Value) bool {
	if a == nil || b == nil {
		return a == nil && b == nil
	}
	switch x := a.(type) {
	case []byte:
		y, ok := b.([]byte)
		return ok && bytes.Equal(x, y)
	case time.Time:
		y, ok := b.(time.Time)
		return ok && x.Equal(y)
	}
	return a == b
}

// cmpStored orders two stored values of one kind; NULL sorts first.
func cmpStored(kind Kind, a, b driver.Value) int {
	if a == nil || b == nil {
		switch {
		case a == nil && b == nil:
			return 0
		case a == nil:
			return -1
		}
		return 1
	}
	c, _ := Compare(kind, a, b)
	return c
}

// evalExpr evaluates a predicate on a row.
func (t *table) evalExpr(e *Expr, row []driver.Value) (Tri, error) {
	if e == nil {
		return True, nil
	}
	switch e.Op {
	case OpAnd:
		r := True
		for _, k := range e.Kids {
			v, err := t.evalExpr(k, row)
			if err != nil {
				return False, err
			}
			r = triAnd(r, v)
		}
		return r, nil
	case OpOr:
		r := False
		for _, k := range e.Kids {
			v, err := t.evalExpr(k, row)
			if err != nil {
				return False, err
			}
			r = triOr(r, v)
		}
		return r, nil
	case OpNot:
		v, err := t.evalExpr(e.Kids[0], row)
		return triNot(v), err
	case OpTupleIn:
		r := False
		for _, tup := range e.Tuples {
			m := True
			for j, c := range e.Cols {
				v, err := t.cmpOp(OpEq, c, row, tup[j].Val)
				if err != nil {
					return False, err
				}
				m = triAnd(m, v)
			}
			r = triOr(r, m)
		}
		return r, nil
	case OpIn, OpNotIn:
		r := False
		for _, o := range e.Vals {
			v, err := t.cmpOp(OpEq, e.Col, row, o.Val)
			if err != nil {
				return False, err
			}
			r = triOr(r, v)
		}
		if e.Op == OpNotIn {
			r = triNot(r)
		}
		return r, nil
	case OpIsNull, OpIsNotNull:
		i, err := t.col(e.Col)
		if err != nil {
			return False, err
		}
		isNull := row[i] == nil
		if (e.Op == OpIsNull) == isNull {
			return True, nil
		}
		return False, nil
	default:
		return t.cmpOp(e.Op, e.Col, row, e.Val.Val)
	}
}

func (t *table) cmpOp(op Op, col string, row []driver.Value, arg driver.Value) (Tri, error) {
	i, err := t.col(col)
	if err != nil {
		return False, err
	}
	c, ok := Compare(t.def.Columns[i].Kind, row[i], arg)
	if !ok {
		return Unknown, nil
	}
	var b bool
	switch op {
	case OpEq:
		b = c == 0
	case OpNe:
		b = c != 0
	case OpLt:
		b = c < 0
	case OpLe:
		b = c <= 0
	case OpGt:
		b = c > 0
	case OpGe:
		b = c >= 0
	default:
		return False, fmt.Errorf("bad comparison operator %v", op)
	}
	if b {
		return True, nil
	}
	return False, nil
}
