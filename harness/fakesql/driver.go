package fakesql

import (
	"context"
	"database/sql/driver"
	"errors"
	"fmt"
	"io"
	"time"
)

type drv struct{}

func (d *drv) Open(dsn string) (driver.Conn, error) {
	regMu.Lock()
	e := engines[dsn]
	regMu.Unlock()
	if e == nil {
		return nil, fmt.Errorf("fakesql: no engine for DSN %q (create it with fakesql.New)", dsn)
	}
	e.mu.Lock()
	e.nextConn++
	id := e.nextConn
	e.mu.Unlock()
	return &conn{e: e, id: id}, nil
}

type conn struct {
	e  *Engine
	id int
	tx *txState
}

var (
	_ driver.ConnBeginTx    = (*conn)(nil)
	_ driver.QueryerContext = (*conn)(nil)
	_ driver.ExecerContext  = (*conn)(nil)
	_ driver.Pinger         = (*conn)(nil)
)

func (c *conn) Ping(ctx context.Context) error { return nil }

func (c *conn) Close() error {
	if c.tx != nil {
		c.e.rollback(c.tx)
		c.tx = nil
	}
	return nil
}

func (c *conn) Begin() (driver.Tx, error) { return c.BeginTx(context.Background(), driver.TxOptions{}) }

func (c *conn) BeginTx(ctx context.Context, opts driver.TxOptions) (driver.Tx, error) {
	if c.tx != nil {
		return nil, errors.New("fakesql: nested transaction on one connection")
	}
	e := c.e
	e.mu.Lock()
	e.nextTx++
	tx := &txState{id: e.nextTx, tag: ctx.Value(tagKey{})}
	e.openTx++
	e.mu.Unlock()
	c.tx = tx
	st := &Stmt{SQL: "BEGIN", Kind: SBegin, Conn: c.id, Tx: tx.id, Tag: tx.tag}
	e.logStmt(st)
	e.finish(st, nil)
	return &txHandle{c: c, tx: tx}, nil
}

type txHandle struct {
	c  *conn
	tx *txState
}

func (t *txHandle) end(kind StmtKind, sql string) error {
	if t.c.tx != t.tx {
		return errors.New("fakesql: transaction already ended")
	}
	st := &Stmt{SQL: sql, Kind: kind, Conn: t.c.id, Tx: t.tx.id, Tag: t.tx.tag}
	t.c.e.logStmt(st)
	if kind == SCommit {
		t.c.e.commit(t.tx)
	} else {
		t.c.e.rollback(t.tx)
	}
	t.c.tx = nil
	t.c.e.finish(st, nil)
	return nil
}

func (t *txHandle) Commit() error   { return t.end(SCommit, "COMMIT") }
func (t *txHandle) Rollback() error { return t.end(SRollback, "ROLLBACK") }

func plainArgs(named []driver.NamedValue) ([]driver.Value, error) {
	out := make([]driver.Value, len(named))
	for i, n := range named {
		if n.Name != "" {
			return nil, &brokenError{"named arguments are not supported"}
		}
		switch v := n.Value.(type) {
		case nil, int64, float64, bool, string, time.Time:
			out[i] = v
		case []byte:
			if v == nil {
				out[i] = nil
			} else {
				out[i] = append([]byte{}, v...)
			}
		default:
			return nil, &brokenError{fmt.Sprintf("argument %d has non-driver type %T", i, n.Value)}
		}
	}
	return out, nil
}

// fault consults the harness's fault hook for a parsed statement.
func (e *Engine) fault(st *Stmt) *Fault {
	e.mu.Lock()
	h := e.hooks.Fault
	e.mu.Unlock()
	if h == nil {
		return nil
	}
	return h(st)
}

// prepare parses and logs a statement. On a parse failure the statement is
// logged as SInvalid and the engine is marked broken.
func (c *conn) prepare(ctx context.Context, query string, named []driver.NamedValue) (*Stmt, error) {
	args, err := plainArgs(named)
	var st *Stmt
	if err == nil {
		st, err = parse(query, args)
		if err != nil {
			err = &brokenError{"statement outside the sqlgen dialect: " + err.Error()}
		}
	}
	if st == nil {
		st = &Stmt{SQL: query, Args: args, Kind: SInvalid}
	}
	st.Conn = c.id
	st.Tag = ctx.Value(tagKey{})
	if c.tx != nil {
		st.Tx = c.tx.id
	}
	c.e.logStmt(st)
	if err != nil {
		return st, c.e.finish(st, err)
	}
	return st, nil
}

func (c *conn) QueryContext(ctx context.Context, query string, named []driver.NamedValue) (driver.Rows, error) {
	st, err := c.prepare(ctx, query, named)
	if err != nil {
		return nil, err
	}
	if st.Kind != SSelect && st.Kind != SCount && st.Kind != SExplain {
		return nil, c.e.finish(st, &brokenError{"Query used with a statement that returns no rows"})
	}
	f := c.e.fault(st)
	if f != nil && f.Err != nil {
		return nil, c.e.finish(st, f.Err)
	}
	if st.Kind == SExplain {
		rs, err := c.e.explain(c.tx, st)
		if err != nil {
			return nil, c.e.finish(st, err)
		}
		c.e.finish(st, nil)
		return &rows{rs: rs}, nil
	}
	rs, err := c.e.execSelect(ctx, c.tx, st)
	if err != nil {
		return nil, c.e.finish(st, err)
	}
	if f != nil && f.RowsErr != nil {
		rs.err, rs.errAfter = f.RowsErr, f.RowsErrAfter
	}
	c.e.finish(st, nil)
	return &rows{rs: rs}, nil
}

func (c *conn) ExecContext(ctx context.Context, query string, named []driver.NamedValue) (driver.Result, error) {
	st, err := c.prepare(ctx, query, named)
	if err != nil {
		return nil, err
	}
	if f := c.e.fault(st); f != nil && f.Err != nil {
		return nil, c.e.finish(st, f.Err)
	}
	if st.Kind == SSelect || st.Kind == SCount {
		_, err := c.e.execSelect(ctx, c.tx, st)
		return execResult{}, c.e.finish(st, err)
	}
	if st.Kind == SExplain {
		_, err := c.e.explain(c.tx, st)
		return execResult{}, c.e.finish(st, err)
	}
	res, err := c.e.execWrite(ctx, c.tx, st)
	if err != nil {
		return nil, c.e.finish(st, err)
	}
	c.e.finish(st, nil)
	return res, nil
}

// Prepare supports database/sql's prepared-statement path (DB.Prepare); the
// statement is parsed at execution time.
func (c *conn) Prepare(query string) (driver.Stmt, error) { return &stmt{c: c, q: query}, nil }

type stmt struct {
	c *conn
	q string
}

var (
	_ driver.StmtQueryContext = (*stmt)(nil)
	_ driver.StmtExecContext  = (*stmt)(nil)
)

func (s *stmt) Close() error  { return nil }
func (s *stmt) NumInput() int { return -1 }

func toNamed(args []driver.Value) []driver.NamedValue {
	out := make([]driver.NamedValue, len(args))
	for i, a := range args {
		out[i] = driver.NamedValue{Ordinal: i + 1, Value: a}
	}
	return out
}

func (s *stmt) Exec(args []driver.Value) (driver.Result, error) {
	return s.c.ExecContext(context.Background(), s.q, toNamed(args))
}

func (s *stmt) Query(args []driver.Value) (driver.Rows, error) {
	return s.c.QueryContext(context.Background(), s.q, toNamed(args))
}

func (s *stmt) ExecContext(ctx context.Context, args []driver.NamedValue) (driver.Result, error) {
	return s.c.ExecContext(ctx, s.q, args)
}

func (s *stmt) QueryContext(ctx context.Context, args []driver.NamedValue) (driver.Rows, error) {
	return s.c.QueryContext(ctx, s.q, args)
}

type rows struct {
	rs *resultSet
	i  int
}

func (r *rows) Columns() []string { return r.rs.cols }
func (r *rows) Close() error      { return nil }

func (r *rows) Next(dest []driver.Value) error {
	if r.i >= len(r.rs.rows) {
		return io.EOF
	}
	if r.rs.err != nil && r.i >= r.rs.errAfter {
		return r.rs.err
	}
	copy(dest, r.rs.rows[r.i])
	r.i++
	return nil
}
