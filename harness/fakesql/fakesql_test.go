package fakesql

import (
	"context"
	"database/sql"
	"database/sql/driver"
	"errors"
	"fmt"
	"reflect"
	"sort"
	"strings"
	"sync"
	"testing"
	"time"

	"github.com/samsarahq/thunder/batch"
	"github.com/samsarahq/thunder/sqlgen"
)

type nstr string

type user struct {
	Id      int64 `sql:",primary"`
	Name    string
	Age     *int32
	Tag     nstr
	Blob    []byte
	Ok      bool
	Score   float64
	Created time.Time
	Note    string `sql:",implicitnull"`
}

type pair struct {
	A int64  `sql:",primary"`
	B string `sql:",primary"`
	V *string
}

func setup(t *testing.T) (*Engine, *sqlgen.DB) {
	t.Helper()
	e := New("", "testdb")
	t.Cleanup(e.Dispose)
	s := sqlgen.NewSchema()
	s.MustRegisterType("users", sqlgen.AutoIncrement, user{})
	s.MustRegisterType("pairs", sqlgen.UniqueId, pair{})
	if err := e.CreateSchemaTables(s); err != nil {
		t.Fatal(err)
	}
	conn := e.Open()
	t.Cleanup(func() { conn.Close() })
	return e, sqlgen.NewDB(conn, s)
}

func i32(v int32) *int32  { return &v }
func sp(s string) *string { return &s }

func noBroken(t *testing.T, e *Engine) {
	t.Helper()
	if b := e.Broken(); len(b) > 0 {
		t.Fatalf("engine broken: %v", b)
	}
}

func TestRoundTripThroughSqlgen(t *testing.T) {
	for _, mode := range []struct {
		p  Protocol
		pt bool
	}{{Text, false}, {Text, true}, {Binary, false}, {Binary, true}} {
		e, db := setup(t)
		e.SetProtocol(mode.p, mode.pt)
		ctx := context.Background()
		ts := time.Date(2020, 3, 4, 5, 6, 7, 123456000, time.UTC)
		u1 := &user{Name: "alice", Age: i32(30), Tag: "x", Blob: []byte{0, 1, 2}, Ok: true, Score: 1.5, Created: ts, Note: "n"}
		res, err := db.InsertRow(ctx, u1)
		if err != nil {
			t.Fatal(err)
		}
		id, _ := res.LastInsertId()
		if id != 1 {
			t.Fatalf("LastInsertId = %d", id)
		}
		if _, err := db.InsertRow(ctx, &user{Name: "bob", Created: ts}); err != nil {
			t.Fatal(err)
		}
		var got *user
		if err := db.QueryRow(ctx, &got, sqlgen.Filter{"id": int64(1)}, nil); err != nil {
			t.Fatal(err)
		}
		u1.Id = 1
		if !got.Created.Equal(ts) {
			t.Fatalf("time %v != %v", got.Created, ts)
		}
		got.Created = ts
		if !reflect.DeepEqual(got, u1) {
			t.Fatalf("mode %+v: got %+v want %+v", mode, got, u1)
		}
		// NULL handling: bob has NULL age and NULL note (implicitnull)
		var nulls []*user
		if err := db.Query(ctx, &nulls, sqlgen.Filter{"age": nil}, nil); err != nil {
			t.Fatal(err)
		}
		if len(nulls) != 1 || nulls[0].Name != "bob" || nulls[0].Age != nil || nulls[0].Note != "" {
			t.Fatalf("IS NULL query: %+v", nulls)
		}
		n, err := db.Count(ctx, &user{}, sqlgen.Filter{"ok": true})
		if err != nil || n != 1 {
			t.Fatalf("count = %d, %v", n, err)
		}
		// update, upsert, delete
		u1.Name = "alice2"
		u1.Age = nil
		if err := db.UpdateRow(ctx, u1); err != nil {
			t.Fatal(err)
		}
		if err := db.QueryRow(ctx, &got, sqlgen.Filter{"name": "alice2"}, nil); err != nil || got.Age != nil {
			t.Fatalf("after update: %+v %v", got, err)
		}
		if _, err := db.UpsertRow(ctx, &pair{A: 1, B: "k", V: sp("v1")}); err != nil {
			t.Fatal(err)
		}
		r2, err := db.UpsertRow(ctx, &pair{A: 1, B: "k", V: sp("v2")})
		if err != nil {
			t.Fatal(err)
		}
		if aff, _ := r2.RowsAffected(); aff != 2 {
			t.Fatalf("upsert-update affected %d", aff)
		}
		var ps []*pair
		if err := db.Query(ctx, &ps, nil, nil); err != nil || len(ps) != 1 || *ps[0].V != "v2" {
			t.Fatalf("pairs: %+v %v", ps, err)
		}
		if _, err := db.InsertRow(ctx, &pair{A: 1, B: "k"}); err == nil || !strings.Contains(err.Error(), "1062") {
			t.Fatalf("duplicate insert: %v", err)
		}
		if err := db.DeleteRow(ctx, u1); err != nil {
			t.Fatal(err)
		}
		n, _ = db.Count(ctx, &user{}, nil)
		if n != 1 {
			t.Fatalf("count after delete %d", n)
		}
		noBroken(t, e)
	}
}

func TestThreeValuedLogic(t *testing.T) {
	e, db := setup(t)
	ctx := context.Background()
	if err := db.InsertRows(ctx, []*user{{Name: "a", Age: i32(1)}, {Name: "b"}, {Name: "c", Age: i32(2)}}, 10); err != nil {
		t.Fatal(err)
	}
	conn := db.Conn
	count := func(where string, args ...interface{}) int {
		rows, err := conn.Query("SELECT id FROM users WHERE "+where, args...)
		if err != nil {
			t.Fatal(err)
		}
		defer rows.Close()
		n := 0
		for rows.Next() {
			n++
		}
		return n
	}
	cases := []struct {
		where string
		args  []interface{}
		want  int
	}{
		{"age = ?", []interface{}{nil}, 0},
		{"age IN (?)", []interface{}{nil}, 0},
		{"age IN (?, ?)", []interface{}{nil, 1}, 1},
		{"age IS ?", []interface{}{nil}, 1},
		{"age IS NULL", nil, 1},
		{"age IS NOT NULL", nil, 2},
		{"NOT age = ?", []interface{}{1}, 1},              // NULL row is UNKNOWN, not selected
		{"NOT (age IN (?, ?))", []interface{}{1, nil}, 0}, // 2 IN (1,NULL) is UNKNOWN
		{"age = ? OR name = ?", []interface{}{nil, "b"}, 1},
		{"age = ? AND name = ?", []interface{}{nil, "b"}, 0},
		{"(name = ? AND age = ?) OR (name=? AND age=?)", []interface{}{"a", 1, "c", 2}, 2},
		{"(name, age) IN ((?, ?), (?, ?))", []interface{}{"a", 1, "b", nil}, 1},
		{"age != ?", []interface{}{1}, 1},
		{"age >= ?", []interface{}{1}, 2},
		{"name = ?", []interface{}{"A"}, 0}, // binary collation
		{"age = ?", []interface{}{"1"}, 1},  // numeric context
		{"age = '1'", nil, 1},
		{"age NOT IN (?, ?)", []interface{}{1, 5}, 1},
	}
	for _, c := range cases {
		if got := count(c.where, c.args...); got != c.want {
			t.Errorf("WHERE %s %v: got %d rows, want %d", c.where, c.args, got, c.want)
		}
	}
	noBroken(t, e)
}

func TestTransactions(t *testing.T) {
	e, db := setup(t)
	ctx := context.Background()
	txctx, tx, err := db.WithTx(ctx)
	if err != nil {
		t.Fatal(err)
	}
	if _, err := db.InsertRow(txctx, &user{Name: "in-tx"}); err != nil {
		t.Fatal(err)
	}
	n, _ := db.Count(txctx, &user{}, nil)
	if n != 1 {
		t.Fatalf("tx sees own write: %d", n)
	}
	n, _ = db.Count(ctx, &user{}, nil)
	if n != 0 {
		t.Fatalf("uncommitted write visible outside: %d", n)
	}
	// a concurrent autocommit writer blocks until the tx ends
	done := make(chan error, 1)
	go func() {
		_, err := db.InsertRow(ctx, &user{Name: "outside"})
		done <- err
	}()
	select {
	case <-done:
		t.Fatal("writer did not block on the write lock")
	case <-time.After(30 * time.Millisecond):
	}
	if err := tx.Rollback(); err != nil {
		t.Fatal(err)
	}
	if err := <-done; err != nil {
		t.Fatal(err)
	}
	n, _ = db.Count(ctx, &user{}, nil)
	if n != 1 {
		t.Fatalf("after rollback: %d", n)
	}
	txctx, tx, _ = db.WithTx(ctx)
	db.InsertRow(txctx, &user{Name: "c1"})
	db.InsertRow(txctx, &user{Name: "c2"})
	if err := tx.Commit(); err != nil {
		t.Fatal(err)
	}
	n, _ = db.Count(ctx, &user{}, nil)
	if n != 3 {
		t.Fatalf("after commit: %d", n)
	}
	var kinds []string
	for _, s := range e.Log() {
		kinds = append(kinds, s.Kind.String())
	}
	want := "BEGIN INSERT COUNT COUNT INSERT ROLLBACK COUNT BEGIN INSERT INSERT COMMIT COUNT"
	// the blocked outside INSERT is logged when received (before ROLLBACK)
	if got := strings.Join(kinds, " "); got != want {
		t.Fatalf("log kinds:\n got %s\nwant %s", got, want)
	}
	if e.OpenTransactions() != 0 {
		t.Fatal("open transactions left")
	}
	noBroken(t, e)
}

func TestParsedFormsAndDNF(t *testing.T) {
	e, db := setup(t)
	ctx := WithTag(context.Background(), "call-7")
	var us []*user
	if err := db.Query(ctx, &us, sqlgen.Filter{"name": "a", "age": nil}, &sqlgen.SelectOptions{Where: "score > ? OR ok = ?", Values: []interface{}{1.0, true}, OrderBy: "name DESC, id", Limit: 3, ForUpdate: true}); err != nil {
		t.Fatal(err)
	}
	log := e.Log()
	st := log[len(log)-1]
	if st.Kind != SSelect || st.Table != "users" || st.Tag != "call-7" || st.Limit != 3 || !st.ForUpdate || len(st.OrderBy) != 2 || !st.OrderBy[0].Desc {
		t.Fatalf("parsed form: %+v", st)
	}
	d, err := st.Where.DNF(100)
	if err != nil {
		t.Fatal(err)
	}
	if len(d) != 2 {
		t.Fatalf("DNF has %d conjuncts: %v", len(d), st.Where)
	}
	for _, conj := range d {
		hasName, hasAge := false, false
		for _, a := range conj {
			if a.Op == OpEq && a.Col == "name" && a.Val == "a" {
				hasName = true
			}
			if a.Op == OpIsNull && a.Col == "age" {
				hasAge = true
			}
		}
		if !hasName || !hasAge {
			t.Fatalf("conjunct lacks filter atoms: %+v", conj)
		}
	}
	// writes
	if err := db.InsertRows(ctx, []*pair{{A: 1, B: "x"}, {A: 2, B: "y", V: sp("v")}}, 10); err != nil {
		t.Fatal(err)
	}
	if err := db.UpdateRow(ctx, &pair{A: 2, B: "y", V: sp("w")}); err != nil {
		t.Fatal(err)
	}
	var ins, upd *Stmt
	for _, s := range e.Log() {
		switch s.Kind {
		case SInsert:
			ins = s
		case SUpdate:
			upd = s
		}
	}
	if len(ins.Rows) != 2 || ins.RowMap(1)["b"] != "y" || ins.RowMap(0)["v"] != nil || ins.Tx == 0 {
		t.Fatalf("insert parsed form: %+v", ins)
	}
	if upd.SetMap()["v"] != "w" || upd.Where.String() != `(a = int64(2) AND b = "y")` {
		t.Fatalf("update parsed form: %v / %v", upd.SetMap(), upd.Where)
	}
	noBroken(t, e)
}

func TestBatchedSelectParses(t *testing.T) {
	e, db := setup(t)
	bg := context.Background()
	db.InsertRows(bg, []*user{{Name: "a", Age: i32(1)}, {Name: "b", Age: i32(2)}, {Name: "c", Age: i32(2)}}, 10)
	mark := e.Mark("batch")
	ctx := batch.WithBatching(bg)
	filters := []sqlgen.Filter{{"id": int64(1)}, {"id": int64(3)}, {"name": "b", "age": int32(2)}, {"name": "c", "age": int32(2)}, {"name": "a"}}
	var wg sync.WaitGroup
	got := make([][]*user, len(filters))
	for i := range filters {
		wg.Add(1)
		go func(i int) {
			defer wg.Done()
			if err := db.Query(ctx, &got[i], filters[i], nil); err != nil {
				t.Error(err)
			}
		}(i)
	}
	wg.Wait()
	for i, g := range got {
		if len(g) != 1 {
			t.Errorf("filter %v returned %d rows", filters[i], len(g))
		}
	}
	sel := 0
	for _, s := range e.LogSince(mark) {
		if s.Kind == SSelect {
			sel++
			if _, err := s.Where.DNF(1000); err != nil {
				t.Error(err)
			}
		}
	}
	if sel == 0 || sel > len(filters) {
		t.Fatalf("%d SELECTs", sel)
	}
	noBroken(t, e)
}

func TestInformationSchema(t *testing.T) {
	e, db := setup(t)
	e.AddColumn("pairs", ColumnDef{Name: "extra", Kind: KInt})
	rows, err := db.Conn.Query(`
		SELECT column_name
		FROM information_schema.columns
		WHERE table_schema = ? AND table_name = ?
		ORDER BY ordinal_position`, "testdb", "pairs")
	if err != nil {
		t.Fatal(err)
	}
	var cols []string
	for rows.Next() {
		var c string
		rows.Scan(&c)
		cols = append(cols, c)
	}
	if strings.Join(cols, ",") != "a,b,v,extra" {
		t.Fatalf("columns %v", cols)
	}
	noBroken(t, e)
}

func TestHooksAndRowChanges(t *testing.T) {
	e, db := setup(t)
	ctx := context.Background()
	var mu sync.Mutex
	var events []string
	var commits [][]RowChange
	e.SetHooks(Hooks{
		BeforeSnapshot: func(s *Stmt) { mu.Lock(); events = append(events, "before:"+s.Kind.String()); mu.Unlock() },
		AfterSnapshot:  func(s *Stmt) { mu.Lock(); events = append(events, "after:"+s.Kind.String()); mu.Unlock() },
		OnCommit:       func(c []RowChange) { mu.Lock(); commits = append(commits, c); mu.Unlock() },
	})
	db.InsertRow(ctx, &pair{A: 1, B: "x", V: sp("1")})
	txctx, tx, _ := db.WithTx(ctx)
	db.UpdateRow(txctx, &pair{A: 1, B: "x", V: sp("2")})
	db.UpdateRow(txctx, &pair{A: 1, B: "x", V: sp("2")}) // unchanged: no event
	db.InsertRow(txctx, &pair{A: 2, B: "y"})
	db.DeleteRow(txctx, &pair{A: 2, B: "y"})
	if len(commits) != 1 {
		t.Fatalf("tx changes delivered before commit: %d", len(commits))
	}
	tx.Commit()
	txctx, tx, _ = db.WithTx(ctx)
	db.InsertRow(txctx, &pair{A: 3, B: "z"})
	tx.Rollback()
	var ps []*pair
	db.Query(ctx, &ps, nil, nil)
	if len(commits) != 2 || len(commits[1]) != 3 {
		t.Fatalf("commits: %+v", commits)
	}
	c := commits[1]
	if c[0].Kind != RowUpdate || c[0].Before[2] != "1" || c[0].After[2] != "2" || c[1].Kind != RowInsert || c[2].Kind != RowDelete || c[2].Before[0] != int64(2) {
		t.Fatalf("changes: %+v", c)
	}
	if strings.Join(events, " ") != "before:SELECT after:SELECT" {
		t.Fatalf("snapshot hooks: %v", events)
	}
	noBroken(t, e)
}

func TestUnknownStatementIsBroken(t *testing.T) {
	e, db := setup(t)
	for _, q := range []string{"EXPLAIN UPDATE users SET name = ?", "SHOW MASTER STATUS", "SELECT id FROM users WHERE name LIKE ?", "SELECT id FROM nosuch", "SELECT nosuch FROM users", "SELECT id FROM users WHERE name IS ?"} {
		before := len(e.Broken())
		args := []interface{}{}
		if strings.Contains(q, "?") {
			args = append(args, "x")
		}
		rows, err := db.Conn.Query(q, args...)
		if err == nil {
			rows.Close()
			t.Errorf("%q succeeded", q)
		}
		if len(e.Broken()) != before+1 {
			t.Errorf("%q did not mark the engine broken", q)
		}
	}
	// an SQL-level error is not "broken"
	before := len(e.Broken())
	if _, err := db.Conn.Exec("INSERT INTO users (name, age) VALUES (?, ?)", "x", "notanumber"); err == nil {
		t.Error("bad integer accepted")
	}
	if len(e.Broken()) != before {
		t.Error("SQL error counted as broken")
	}
}

func TestIndependentEngines(t *testing.T) {
	e1, db1 := setup(t)
	e2, db2 := setup(t)
	ctx := context.Background()
	db1.InsertRow(ctx, &user{Name: "only-in-1"})
	n1, _ := db1.Count(ctx, &user{}, nil)
	n2, _ := db2.Count(ctx, &user{}, nil)
	if n1 != 1 || n2 != 0 {
		t.Fatalf("engines share state: %d %d", n1, n2)
	}
	if _, err := sql.Open("fakesql", "nonexistent"); err != nil {
		t.Fatal(err)
	} else if db, _ := sql.Open("fakesql", "nonexistent"); db.Ping() == nil {
		t.Fatal("unknown DSN connected")
	}
	_ = e1
	_ = e2
}

func TestCompareAndCoerce(t *testing.T) {
	ts := time.Date(2021, 1, 2, 3, 4, 5, 999999600, time.FixedZone("x", 3600))
	norm := NormTime(ts)
	if norm.Nanosecond() != 0 || norm.Second() != 6 || norm.Hour() != 2 {
		t.Fatalf("NormTime rounding: %v", norm)
	}
	cases := []struct {
		kind   Kind
		stored driver.Value
		arg    driver.Value
		cmp    int
		ok     bool
	}{
		{KInt, int64(3), int64(3), 0, true},
		{KInt, int64(3), float64(3.5), -1, true},
		{KInt, int64(3), "3abc", 0, true},
		{KInt, int64(3), nil, 0, false},
		{KInt, nil, int64(3), 0, false},
		{KBool, int64(1), true, 0, true},
		{KString, "10", int64(10), 0, true},
		{KString, "a", []byte("a"), 0, true},
		{KString, "a", "a ", -1, true},
		{KBytes, []byte("b"), "a", 1, true},
		{KTime, norm, ts, 0, true},
		{KTime, norm, "2021-01-02 02:04:06", 0, true},
		{KFloat, 1.5, "1.5", 0, true},
	}
	for _, c := range cases {
		got, ok := Compare(c.kind, c.stored, c.arg)
		if ok != c.ok || (ok && got != c.cmp) {
			t.Errorf("Compare(%v, %v, %v) = %d,%v want %d,%v", c.kind, c.stored, c.arg, got, ok, c.cmp, c.ok)
		}
	}
	if v, err := Coerce(KString, int64(5)); err != nil || v != "5" {
		t.Errorf("coerce int->string: %v %v", v, err)
	}
	if _, err := Coerce(KInt, "x"); err == nil {
		t.Error("coerce 'x'->int accepted")
	}
	if v, _ := Coerce(KBytes, "ab"); !reflect.DeepEqual(v, []byte("ab")) {
		t.Errorf("coerce string->bytes: %v", v)
	}
}

func TestRowOrders(t *testing.T) {
	e, db := setup(t)
	ctx := context.Background()
	for _, p := range []*pair{{A: 3, B: "c"}, {A: 1, B: "a"}, {A: 2, B: "b"}} {
		db.InsertRow(ctx, p)
	}
	read := func() []int64 {
		var ps []*pair
		db.Query(ctx, &ps, nil, nil)
		var out []int64
		for _, p := range ps {
			out = append(out, p.A)
		}
		return out
	}
	if got := read(); !reflect.DeepEqual(got, []int64{3, 1, 2}) {
		t.Fatalf("insertion order: %v", got)
	}
	e.SetRowOrder(PrimaryKeyOrder, 0)
	if got := read(); !reflect.DeepEqual(got, []int64{1, 2, 3}) {
		t.Fatalf("pk order: %v", got)
	}
	e.SetRowOrder(ShuffledOrder, 5)
	seen := map[string]bool{}
	for i := 0; i < 30; i++ {
		g := read()
		s := append([]int64{}, g...)
		sort.Slice(s, func(a, b int) bool { return s[a] < s[b] })
		if !reflect.DeepEqual(s, []int64{1, 2, 3}) {
			t.Fatalf("shuffle lost rows: %v", g)
		}
		seen[fmt.Sprint(g)] = true
	}
	if len(seen) < 2 {
		t.Fatal("shuffled order never varied")
	}
	noBroken(t, e)
}

func TestReorderColumns(t *testing.T) {
	e, db := setup(t)
	ctx := context.Background()
	db.InsertRow(ctx, &pair{A: 1, B: "x", V: sp("v")})
	var changes []RowChange
	e.SetHooks(Hooks{OnCommit: func(c []RowChange) { changes = append(changes, c...) }})
	if err := e.ReorderColumns("pairs", []string{"v", "a", "b"}); err != nil {
		t.Fatal(err)
	}
	if err := e.ReorderColumns("pairs", []string{"v", "a"}); err == nil {
		t.Fatal("short order accepted")
	}
	db.InsertRow(ctx, &pair{A: 2, B: "y"})
	db.UpdateRow(ctx, &pair{A: 1, B: "x", V: sp("w")})
	var ps []*pair
	if err := db.Query(ctx, &ps, sqlgen.Filter{"a": int32(1)}, nil); err != nil || len(ps) != 1 || *ps[0].V != "w" || ps[0].B != "x" {
		t.Fatalf("after reorder: %+v %v", ps, err)
	}
	if len(changes) != 2 || changes[0].After[0] != nil || changes[0].After[1] != int64(2) || changes[1].Before[0] != "v" || changes[1].After[0] != "w" {
		t.Fatalf("row images not in the new column order: %+v", changes)
	}
	rows, _ := db.Conn.Query("SELECT column_name FROM information_schema.columns WHERE table_schema = ? AND table_name = ? ORDER BY ordinal_position", "testdb", "pairs")
	var cols []string
	for rows.Next() {
		var c string
		rows.Scan(&c)
		cols = append(cols, c)
	}
	if strings.Join(cols, ",") != "v,a,b" {
		t.Fatalf("ordinal positions: %v", cols)
	}
	noBroken(t, e)
}

func TestFaultInjection(t *testing.T) {
	e, db := setup(t)
	ctx := context.Background()
	db.InsertRows(ctx, []*pair{{A: 1, B: "a"}, {A: 2, B: "b"}, {A: 3, B: "c"}}, 10)
	boom := errors.New("connection lost")
	attempts := 0
	e.SetHooks(Hooks{Fault: func(st *Stmt) *Fault {
		switch {
		case st.Kind == SSelect && st.Table == "pairs" && st.Limit == 0:
			return &Fault{RowsErr: boom, RowsErrAfter: 2}
		case st.Kind == SCount:
			attempts++
			return &Fault{Err: driver.ErrBadConn}
		}
		return nil
	}})
	var ps []*pair
	if err := db.Query(ctx, &ps, nil, nil); err != boom {
		t.Fatalf("mid-result failure: err = %v, rows = %d", err, len(ps))
	}
	// fewer rows than RowsErrAfter: the stream ends normally
	if err := db.Query(ctx, &ps, sqlgen.Filter{"a": int32(1)}, nil); err != nil || len(ps) != 1 {
		t.Fatalf("short result: %v %d", err, len(ps))
	}
	if _, err := db.Count(ctx, &pair{}, nil); err != driver.ErrBadConn || attempts != 3 {
		t.Fatalf("ErrBadConn: err = %v after %d attempts", err, attempts)
	}
	e.SetHooks(Hooks{})
	if n, err := db.Count(ctx, &pair{}, nil); err != nil || n != 3 {
		t.Fatalf("after faults: %d %v", n, err)
	}
	noBroken(t, e)
}

func TestExplain(t *testing.T) {
	e, db := setup(t)
	ctx := WithTag(context.Background(), "x")
	db.InsertRow(ctx, &user{Name: "a"})
	pdb, err := sqlgen.NewDB(db.Conn, db.Schema).WithPanicOnNoIndex()
	if err != nil {
		t.Fatal(err)
	}
	var us []*user
	if err := pdb.Query(ctx, &us, sqlgen.Filter{"name": "a"}, nil); err != nil || len(us) != 1 {
		t.Fatalf("query with explain: %v %d", err, len(us))
	}
	log := e.Log()
	ex, sel := log[len(log)-2], log[len(log)-1]
	if ex.Kind != SExplain || ex.Table != "users" || ex.Where.String() != `name = "a"` || ex.Tag != "x" || sel.Kind != SSelect {
		t.Fatalf("log: %s / %s", ex.Summary(), sel.Summary())
	}
	noBroken(t, e)
}
