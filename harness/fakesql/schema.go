package fakesql

import (
	"fmt"
	"reflect"
	"time"

	"github.com/samsarahq/thunder/sqlgen"
)

// KindOfColumn derives the storage kind of a sqlgen column from the driver
// value its Valuer produces for a non-nil sample of the field type.
func KindOfColumn(c *sqlgen.Column) (Kind, error) {
	d := c.Descriptor
	if d.Tags.Contains("binary") {
		return KBytes, nil
	}
	if d.Tags.Contains("string") || d.Tags.Contains("json") {
		return KString, nil
	}
	var sample reflect.Value
	if d.Ptr {
		sample = reflect.New(d.Type)
	} else {
		sample = reflect.Zero(d.Type)
	}
	// implicitnull maps the zero value to NULL; classify by Go kind below.
	if !d.Tags.Contains("implicitnull") {
		v, err := d.Valuer(sample).Value()
		if err == nil {
			switch v.(type) {
			case int64:
				return KInt, nil
			case float64:
				return KFloat, nil
			case bool:
				return KBool, nil
			case string:
				return KString, nil
			case []byte:
				return KBytes, nil
			case time.Time:
				return KTime, nil
			}
		}
	}
	switch d.Kind {
	case reflect.Bool:
		return KBool, nil
	case reflect.Int, reflect.Int8, reflect.Int16, reflect.Int32, reflect.Int64,
		reflect.Uint, reflect.Uint8, reflect.Uint16, reflect.Uint32, reflect.Uint64:
		return KInt, nil
	case reflect.Float32, reflect.Float64:
		return KFloat, nil
	case reflect.String:
		return KString, nil
	case reflect.Slice:
		if d.Type.Elem().Kind() == reflect.Uint8 {
			return KBytes, nil
		}
	case reflect.Struct:
		if d.Type == reflect.TypeOf(time.Time{}) {
			return KTime, nil
		}
	}
	return 0, fmt.Errorf("cannot derive a column kind for %s (%s)", c.Name, d.Type)
}

// DefFromSchema builds the table definition matching a registered sqlgen
// table: one column per struct column in struct order, primary key from the
// `primary` tags, auto-increment for AutoIncrement tables with a single
// primary column.
func DefFromSchema(t *sqlgen.Table) (TableDef, error) {
	def := TableDef{Name: t.Name}
	for _, c := range t.Columns {
		k, err := KindOfColumn(c)
		if err != nil {
			return def, err
		}
		def.Columns = append(def.Columns, ColumnDef{Name: c.Name, Kind: k})
		if c.Primary {
			def.PrimaryKey = append(def.PrimaryKey, c.Name)
		}
	}
	if t.PrimaryKeyType == sqlgen.AutoIncrement && len(def.PrimaryKey) == 1 {
		def.AutoIncrement = def.PrimaryKey[0]
	}
	return def, nil
}

// CreateSchemaTables creates every table of a sqlgen schema.
func (e *Engine) CreateSchemaTables(s *sqlgen.Schema) error {
	for _, t := range s.ByName {
		def, err := DefFromSchema(t)
		if err != nil {
			return err
		}
		if err := e.CreateTable(def); err != nil {
			return err
		}
	}
	return nil
}
