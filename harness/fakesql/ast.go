// Package fakesql is an in-memory SQL engine behind database/sql/driver that
// understands exactly the MySQL dialect thunder's sqlgen emits. It exists
// because no MySQL server is available to the verification harness. It is part
// of the trusted base of the SQL-family checks (C07, C10, C12, C13).
//
// Model (recorded as assumptions by the checks that use it):
//   - tables of rows of driver values; columns have one of six kinds;
//   - WHERE is evaluated with SQL three-valued logic (x = NULL and x IN (NULL)
//     are never true, x IS NULL is);
//   - strings compare bytewise (binary collation, no PAD SPACE);
//   - DATETIME columns have microsecond precision, session time zone UTC, and
//     time.Time arguments are rounded to microseconds as go-sql-driver does;
//   - writers are serialised by one engine-wide write lock held until
//     commit/rollback; plain SELECTs read the last committed state (plus the
//     transaction's own writes), i.e. READ COMMITTED without phantoms inside a
//     statement;
//   - a statement outside the dialect is a harness error (Engine.Broken), never
//     a property verdict.
package fakesql

import (
	"database/sql/driver"
	"fmt"
	"strings"
)

// StmtKind classifies a logged statement.
type StmtKind int

const (
	SInvalid StmtKind = iota
	SMarker
	SBegin
	SCommit
	SRollback
	SSelect
	SCount
	SInsert
	SUpsert
	SUpdate
	SDelete
	// SExplain is `EXPLAIN SELECT ...` (sqlgen's WithPanicOnNoIndex): the parsed
	// form (Table, Columns, Where, ...) is that of the explained SELECT.
	SExplain
)

func (k StmtKind) String() string {
	switch k {
	case SMarker:
		return "MARKER"
	case SBegin:
		return "BEGIN"
	case SCommit:
		return "COMMIT"
	case SRollback:
		return "ROLLBACK"
	case SSelect:
		return "SELECT"
	case SCount:
		return "COUNT"
	case SInsert:
		return "INSERT"
	case SUpsert:
		return "UPSERT"
	case SUpdate:
		return "UPDATE"
	case SDelete:
		return "DELETE"
	case SExplain:
		return "EXPLAIN"
	}
	return "INVALID"
}

// Operand is a value position in a statement: a bound `?` argument or a
// literal. Val is always filled in (the bound argument or the literal).
type Operand struct {
	IsArg  bool
	ArgIdx int
	Val    driver.Value
}

// Op is an operator of the WHERE predicate tree.
type Op int

const (
	OpAnd Op = iota
	OpOr
	OpNot
	OpEq
	OpNe
	OpLt
	OpLe
	OpGt
	OpGe
	OpIsNull
	OpIsNotNull
	OpIn
	OpNotIn
	OpTupleIn
)

var opNames = map[Op]string{OpAnd: "AND", OpOr: "OR", OpNot: "NOT", OpEq: "=", OpNe: "!=", OpLt: "<", OpLe: "<=", OpGt: ">", OpGe: ">=",
	OpIsNull: "IS NULL", OpIsNotNull: "IS NOT NULL", OpIn: "IN", OpNotIn: "NOT IN", OpTupleIn: "TUPLE IN"}

func (o Op) String() string { return opNames[o] }

// Expr is a node of a parsed WHERE predicate.
type Expr struct {
	Op     Op
	Kids   []*Expr     // AND / OR / NOT
	Col    string      // comparisons, IS [NOT] NULL, [NOT] IN
	Val    Operand     // comparisons
	Vals   []Operand   // [NOT] IN
	Cols   []string    // tuple IN
	Tuples [][]Operand // tuple IN
}

// String renders the predicate with bound values (for witnesses).
func (e *Expr) String() string {
	if e == nil {
		return "TRUE"
	}
	switch e.Op {
	case OpAnd, OpOr:
		parts := make([]string, len(e.Kids))
		for i, k := range e.Kids {
			parts[i] = k.String()
		}
		return "(" + strings.Join(parts, " "+e.Op.String()+" ") + ")"
	case OpNot:
		return "NOT " + e.Kids[0].String()
	case OpIsNull, OpIsNotNull:
		return e.Col + " " + e.Op.String()
	case OpIn, OpNotIn:
		parts := make([]string, len(e.Vals))
		for i, v := range e.Vals {
			parts[i] = FormatValue(v.Val)
		}
		return e.Col + " " + e.Op.String() + " (" + strings.Join(parts, ", ") + ")"
	case OpTupleIn:
		ts := make([]string, len(e.Tuples))
		for i, t := range e.Tuples {
			parts := make([]string, len(t))
			for j, v := range t {
				parts[j] = FormatValue(v.Val)
			}
			ts[i] = "(" + strings.Join(parts, ", ") + ")"
		}
		return "(" + strings.Join(e.Cols, ", ") + ") IN (" + strings.Join(ts, ", ") + ")"
	default:
		return e.Col + " " + e.Op.String() + " " + FormatValue(e.Val.Val)
	}
}

// FormatValue renders a driver value with its Go type, for witnesses.
func FormatValue(v driver.Value) string {
	switch v := v.(type) {
	case nil:
		return "NULL"
	case []byte:
		return fmt.Sprintf("[]byte(%q)", string(v))
	case string:
		return fmt.Sprintf("%q", v)
	default:
		return fmt.Sprintf("%T(%v)", v, v)
	}
}

// Atom is one literal of a DNF conjunct: a comparison / IS NULL node, with IN
// lists expanded to equalities, possibly negated (Neg) when it came from under
// a NOT that could not be pushed further.
type Atom struct {
	Op  Op // OpEq ... OpGe, OpIsNull, OpIsNotNull, OpNotIn, OpNot (opaque)
	Col string
	Val driver.Value
	// Opaque holds the original node for atoms the expansion does not open
	// (NOT IN, NOT of a compound).
	Opaque *Expr
}

// DNF normalises the predicate to a disjunction of conjunctions of atoms. IN
// and tuple-IN are expanded into equalities. A nil predicate (no WHERE) is one
// empty conjunct (TRUE). limit bounds the number of conjuncts (error beyond).
func (e *Expr) DNF(limit int) ([][]Atom, error) {
	if e == nil {
		return [][]Atom{{}}, nil
	}
	return dnf(e, false, limit)
}

func dnf(e *Expr, neg bool, limit int) ([][]Atom, error) {
	op := e.Op
	if neg {
		switch op {
		case OpAnd:
			op = OpOr
		case OpOr:
			op = OpAnd
		}
	}
	switch e.Op {
	case OpAnd, OpOr:
		if op == OpOr {
			var out [][]Atom
			for _, k := range e.Kids {
				d, err := dnf(k, neg, limit)
				if err != nil {
					return nil, err
				}
				out = append(out, d...)
				if len(out) > limit {
					return nil, fmt.Errorf("DNF larger than %d conjuncts", limit)
				}
			}
			return out, nil
		}
		out := [][]Atom{{}}
		for _, k := range e.Kids {
			d, err := dnf(k, neg, limit)
			if err != nil {
				return nil, err
			}
			var next [][]Atom
			for _, a := range out {
				for _, b := range d {
					c := make([]Atom, 0, len(a)+len(b))
					c = append(append(c, a...), b...)
					next = append(next, c)
					if len(next) > limit {
						return nil, fmt.Errorf("DNF larger than %d conjuncts", limit)
					}
				}
			}
			out = next
		}
		return out, nil
	case OpNot:
		return dnf(e.Kids[0], !neg, limit)
	}
	if neg {
		switch e.Op {
		case OpEq:
			return [][]Atom{{{Op: OpNe, Col: e.Col, Val: e.Val.Val}}}, nil
		case OpNe:
			return [][]Atom{{{Op: OpEq, Col: e.Col, Val: e.Val.Val}}}, nil
		case OpIsNull:
			return [][]Atom{{{Op: OpIsNotNull, Col: e.Col}}}, nil
		case OpIsNotNull:
			return [][]Atom{{{Op: OpIsNull, Col: e.Col}}}, nil
		case OpNotIn:
			return dnf(&Expr{Op: OpIn, Col: e.Col, Vals: e.Vals}, false, limit)
		default:
			return [][]Atom{{{Op: OpNot, Opaque: e}}}, nil
		}
	}
	switch e.Op {
	case OpIn:
		out := make([][]Atom, 0, len(e.Vals))
		for _, v := range e.Vals {
			out = append(out, []Atom{{Op: OpEq, Col: e.Col, Val: v.Val}})
		}
		return out, nil
	case OpTupleIn:
		out := make([][]Atom, 0, len(e.Tuples))
		for _, t := range e.Tuples {
			c := make([]Atom, 0, len(t))
			for j, v := range t {
				c = append(c, Atom{Op: OpEq, Col: e.Cols[j], Val: v.Val})
			}
			out = append(out, c)
		}
		return out, nil
	case OpNotIn:
		return [][]Atom{{{Op: OpNotIn, Col: e.Col, Opaque: e}}}, nil
	case OpIsNull, OpIsNotNull:
		return [][]Atom{{{Op: e.Op, Col: e.Col}}}, nil
	default:
		return [][]Atom{{{Op: e.Op, Col: e.Col, Val: e.Val.Val}}}, nil
	}
}

// OrderTerm is one ORDER BY term.
type OrderTerm struct {
	Col  string
	Desc bool
}

// Assign is one `col = value` of an UPDATE's SET list.
type Assign struct {
	Col string
	Val Operand
}

// DupAssign is one `col = VALUES(src)` of ON DUPLICATE KEY UPDATE.
type DupAssign struct {
	Col string
	Src string
}

// Stmt is one entry of the engine's statement log: the raw statement and
// arguments, and its parsed form for monitors.
type Stmt struct {
	Seq  int64
	Conn int
	Tx   int64       // transaction id, 0 = autocommit
	Tag  interface{} // value attached to the caller's context with WithTag
	SQL  string
	Args []driver.Value

	Kind      StmtKind
	Label     string // markers
	Table     string
	Columns   []string // SELECT list, or INSERT column list
	Where     *Expr    // nil = no WHERE
	OrderBy   []OrderTerm
	Limit     int // 0 = none
	ForUpdate bool
	IndexHint string
	Rows      [][]Operand // INSERT / UPSERT rows, parallel to Columns
	Set       []Assign    // UPDATE
	OnDup     []DupAssign // UPSERT

	// Results, filled in when the statement has finished.
	Done         bool
	Err          string
	RowsReturned int
	RowsAffected int64
	LastInsertID int64
}

// RowMap returns INSERT row i as column -> bound value.
func (s *Stmt) RowMap(i int) map[string]driver.Value {
	m := make(map[string]driver.Value, len(s.Columns))
	for j, c := range s.Columns {
		m[c] = s.Rows[i][j].Val
	}
	return m
}

// SetMap returns the UPDATE's SET list as column -> bound value.
func (s *Stmt) SetMap() map[string]driver.Value {
	m := make(map[string]driver.Value, len(s.Set))
	for _, a := range s.Set {
		m[a.Col] = a.Val.Val
	}
	return m
}

// Summary is a compact rendering for witnesses.
func (s *Stmt) Summary() string {
	args := make([]string, len(s.Args))
	for i, a := range s.Args {
		args[i] = FormatValue(a)
	}
	e := ""
	if s.Err != "" {
		e = " err=" + s.Err
	}
	if s.Kind == SMarker {
		return fmt.Sprintf("#%d MARK %s", s.Seq, s.Label)
	}
	return fmt.Sprintf("#%d conn=%d tx=%d tag=%v %s [%s]%s", s.Seq, s.Conn, s.Tx, s.Tag, s.SQL, strings.Join(args, ", "), e)
}
