package fakesql

import (
	"context"
	"database/sql"
	"database/sql/driver"
	"fmt"
	"math/rand"
	"sort"
	"strings"
	"sync"
	"sync/atomic"
)

// ColumnDef describes one column of a table as the database knows it.
type ColumnDef struct {
	Name    string
	Kind    Kind
	NotNull bool
}

// TableDef describes a table.
type TableDef struct {
	Name          string
	Columns       []ColumnDef
	PrimaryKey    []string
	AutoIncrement string     // column that gets the next id when inserted as NULL / 0 / absent
	Unique        [][]string // additional unique keys
}

// RowOrder is the order in which rows without ORDER BY are returned.
type RowOrder int

const (
	InsertionOrder RowOrder = iota
	PrimaryKeyOrder
	ShuffledOrder // seeded shuffle per statement (legal for SQL, hostile to order assumptions)
)

// ChangeKind is the kind of a committed row change.
type ChangeKind int

const (
	RowInsert ChangeKind = iota
	RowUpdate
	RowDelete
)

func (k ChangeKind) String() string { return [...]string{"insert", "update", "delete"}[k] }

// RowChange is one committed row change with full before/after images in the
// engine's normal forms (int64, float64, string, []byte, time.Time, nil), in
// the table's column order.
type RowChange struct {
	Table   string
	Kind    ChangeKind
	Before  []driver.Value
	After   []driver.Value
	StmtSeq int64
}

// Hooks are harness callbacks. All are optional. None is called with an
// engine lock held except OnCommit, which runs under the write lock (so
// commits are delivered in commit order) but not under the state mutex.
type Hooks struct {
	// BeforeSnapshot / AfterSnapshot bracket the instant at which a SELECT or
	// COUNT reads the table.
	BeforeSnapshot func(*Stmt)
	AfterSnapshot  func(*Stmt)
	// OnCommit receives the row changes of one commit (an autocommit statement
	// or a transaction), in execution order. Not called for empty commits.
	OnCommit func([]RowChange)
	// Fault is consulted for every parsed statement before it executes; a
	// non-nil result injects a failure (see Fault).
	Fault func(*Stmt) *Fault
}

// Fault describes an injected failure of one statement.
type Fault struct {
	// Err, when non-nil, is returned by the driver instead of executing the
	// statement (driver.ErrBadConn makes database/sql retry the statement on
	// another connection, and the hook is consulted again for the retry).
	Err error
	// RowsErr, when non-nil, lets a SELECT start normally and then makes the
	// result stream fail: Rows.Next returns RowsErr after RowsErrAfter rows
	// were delivered (a connection lost mid-result, a cancellation observed
	// between two row reads). If the result has fewer rows the stream ends
	// normally.
	RowsErr      error
	RowsErrAfter int
}

type table struct {
	def      TableDef
	colIdx   map[string]int
	rows     [][]driver.Value
	nextAuto int64
}

func (t *table) col(name string) (int, error) {
	if i, ok := t.colIdx[name]; ok {
		return i, nil
	}
	if j := strings.LastIndexByte(name, '.'); j >= 0 {
		if i, ok := t.colIdx[name[j+1:]]; ok && name[:j] == t.def.Name {
			return i, nil
		}
	}
	return 0, &brokenError{fmt.Sprintf("unknown column %q in table %q", name, t.def.Name)}
}

func (t *table) clone() *table {
	c := &table{def: t.def, colIdx: t.colIdx, nextAuto: t.nextAuto}
	c.rows = append(make([][]driver.Value, 0, len(t.rows)+4), t.rows...)
	return c
}

// brokenError marks a failure of the harness/engine rather than an SQL error.
type brokenError struct{ msg string }

func (b *brokenError) Error() string { return "fakesql: " + b.msg }

// Engine is one independent in-memory database.
type Engine struct {
	dsn      string
	database string

	mu       sync.Mutex
	tables   map[string]*table
	log      []*Stmt
	seq      int64
	proto    Protocol
	parseTm  bool
	order    RowOrder
	shuffle  *rand.Rand
	hooks    Hooks
	broken   []string
	nextConn int
	nextTx   int64
	openTx   int

	wlock chan struct{} // engine-wide write lock (token present = free)

	statements int64 // activity counter
}

var (
	regMu   sync.Mutex
	engines = map[string]*Engine{}
	dsnSeq  int64
)

func init() { sql.Register("fakesql", &drv{}) }

// New creates an engine and makes it reachable as sql.Open("fakesql", dsn).
// An empty dsn picks a fresh unique one. database is the schema name
// reported by information_schema.
func New(dsn, database string) *Engine {
	if dsn == "" {
		dsn = fmt.Sprintf("engine-%d", atomic.AddInt64(&dsnSeq, 1))
	}
	e := &Engine{dsn: dsn, database: database, tables: map[string]*table{}, wlock: make(chan struct{}, 1)}
	e.wlock <- struct{}{}
	regMu.Lock()
	engines[dsn] = e
	regMu.Unlock()
	return e
}

// Dispose removes the engine from the DSN registry.
func (e *Engine) Dispose() {
	regMu.Lock()
	delete(engines, e.dsn)
	regMu.Unlock()
}

// DSN returns the data source name of this engine.
func (e *Engine) DSN() string { return e.dsn }

// Open returns a *sql.DB on this engine.
func (e *Engine) Open() *sql.DB {
	db, err := sql.Open("fakesql", e.dsn)
	if err != nil {
		panic(err)
	}
	return db
}

// SetProtocol chooses the result value forms; parseTime additionally returns
// DATETIME values as time.Time (go-sql-driver's parseTime=true).
func (e *Engine) SetProtocol(p Protocol, parseTime bool) {
	e.mu.Lock()
	e.proto, e.parseTm = p, parseTime
	e.mu.Unlock()
}

// SetRowOrder chooses the order of rows returned without ORDER BY.
func (e *Engine) SetRowOrder(o RowOrder, seed int64) {
	e.mu.Lock()
	e.order = o
	e.shuffle = rand.New(rand.NewSource(seed))
	e.mu.Unlock()
}

// SetHooks installs harness callbacks.
func (e *Engine) SetHooks(h Hooks) {
	e.mu.Lock()
	e.hooks = h
	e.mu.Unlock()
}

// CreateTable adds an empty table.
func (e *Engine) CreateTable(def TableDef) error {
	t := &table{def: def, colIdx: map[string]int{}, nextAuto: 1}
	for i, c := range def.Columns {
		if _, dup := t.colIdx[c.Name]; dup {
			return fmt.Errorf("duplicate column %s", c.Name)
		}
		t.colIdx[c.Name] = i
	}
	for _, k := range append(append([][]string{}, def.PrimaryKey), def.Unique...) {
		for _, c := range k {
			if _, ok := t.colIdx[c]; !ok {
				return fmt.Errorf("key column %s not in table %s", c, def.Name)
			}
		}
	}
	if def.AutoIncrement != "" {
		if _, ok := t.colIdx[def.AutoIncrement]; !ok {
			return fmt.Errorf("auto-increment column %s not in table %s", def.AutoIncrement, def.Name)
		}
	}
	e.mu.Lock()
	defer e.mu.Unlock()
	if _, ok := e.tables[def.Name]; ok {
		return fmt.Errorf("table %s exists", def.Name)
	}
	e.tables[def.Name] = t
	return nil
}

// MustCreateTable is CreateTable that panics on error.
func (e *Engine) MustCreateTable(def TableDef) {
	if err := e.CreateTable(def); err != nil {
		panic(err)
	}
}

// AddColumn appends a column to an existing table (a schema change); existing
// rows get NULL. It must not be called by a goroutine that holds an open
// writing transaction.
func (e *Engine) AddColumn(tableName string, c ColumnDef) error {
	// a schema change waits for open writing transactions, whose private
	// table copies would otherwise overwrite the new shape on commit
	<-e.wlock
	defer e.releaseW()
	e.mu.Lock()
	defer e.mu.Unlock()
	t, ok := e.tables[tableName]
	if !ok {
		return fmt.Errorf("no table %s", tableName)
	}
	nt := &table{def: t.def, colIdx: map[string]int{}, nextAuto: t.nextAuto}
	nt.def.Columns = append(append([]ColumnDef{}, t.def.Columns...), c)
	for i, c := range nt.def.Columns {
		nt.colIdx[c.Name] = i
	}
	for _, r := range t.rows {
		nt.rows = append(nt.rows, append(append([]driver.Value{}, r...), nil))
	}
	e.tables[tableName] = nt
	return nil
}

// ReorderColumns changes the ordinal positions of a table's columns (a schema
// change that keeps the column count, like ALTER TABLE ... MODIFY c ... AFTER
// d). order lists every column name exactly once. Same locking rule as
// AddColumn.
func (e *Engine) ReorderColumns(tableName string, order []string) error {
	<-e.wlock
	defer e.releaseW()
	e.mu.Lock()
	defer e.mu.Unlock()
	t, ok := e.tables[tableName]
	if !ok {
		return fmt.Errorf("no table %s", tableName)
	}
	if len(order) != len(t.def.Columns) {
		return fmt.Errorf("ReorderColumns: %d names for %d columns", len(order), len(t.def.Columns))
	}
	nt := &table{def: t.def, colIdx: map[string]int{}, nextAuto: t.nextAuto}
	nt.def.Columns = nil
	from := make([]int, len(order))
	for i, name := range order {
		j, ok := t.colIdx[name]
		if !ok {
			return fmt.Errorf("ReorderColumns: no column %s", name)
		}
		if _, dup := nt.colIdx[name]; dup {
			return fmt.Errorf("ReorderColumns: column %s listed twice", name)
		}
		nt.colIdx[name] = i
		nt.def.Columns = append(nt.def.Columns, t.def.Columns[j])
		from[i] = j
	}
	for _, r := range t.rows {
		nr := make([]driver.Value, len(r))
		for i, j := range from {
			nr[i] = r[j]
		}
		nt.rows = append(nt.rows, nr)
	}
	e.tables[tableName] = nt
	return nil
}

// Def returns the definition of a table.
func (e *Engine) Def(tableName string) (TableDef, bool) {
	e.mu.Lock()
	defer e.mu.Unlock()
	t, ok := e.tables[tableName]
	if !ok {
		return TableDef{}, false
	}
	return t.def, true
}

// Snapshot returns the committed rows of a table (normal forms, column order
// of the definition). The rows must not be modified.
func (e *Engine) Snapshot(tableName string) [][]driver.Value {
	e.mu.Lock()
	defer e.mu.Unlock()
	t, ok := e.tables[tableName]
	if !ok {
		return nil
	}
	return append([][]driver.Value{}, t.rows...)
}

// Eval evaluates a parsed predicate on a stored row of the table.
func (e *Engine) Eval(tableName string, where *Expr, row []driver.Value) (Tri, error) {
	e.mu.Lock()
	t, ok := e.tables[tableName]
	e.mu.Unlock()
	if !ok {
		return False, fmt.Errorf("no table %s", tableName)
	}
	return t.evalExpr(where, row)
}

// Log returns a copy of the statement log (entries are copies too).
func (e *Engine) Log() []*Stmt { return e.LogSince(0) }

// LogSince returns copies of the log entries with Seq > seq.
func (e *Engine) LogSince(seq int64) []*Stmt {
	e.mu.Lock()
	defer e.mu.Unlock()
	i := sort.Search(len(e.log), func(i int) bool { return e.log[i].Seq > seq })
	out := make([]*Stmt, 0, len(e.log)-i)
	for _, s := range e.log[i:] {
		c := *s
		out = append(out, &c)
	}
	return out
}

// Seq returns the sequence number of the last logged entry.
func (e *Engine) Seq() int64 {
	e.mu.Lock()
	defer e.mu.Unlock()
	return e.seq
}

// Mark appends a marker entry to the log and returns its sequence number.
func (e *Engine) Mark(label string) int64 {
	e.mu.Lock()
	defer e.mu.Unlock()
	e.seq++
	e.log = append(e.log, &Stmt{Seq: e.seq, Kind: SMarker, Label: label, Done: true})
	return e.seq
}

// Statements is an activity counter (statements received so far).
func (e *Engine) Statements() int64 { return atomic.LoadInt64(&e.statements) }

// Broken lists harness-level failures: statements outside the dialect,
// unknown tables or columns. A non-empty list means the machinery is broken;
// it never supports a property verdict.
func (e *Engine) Broken() []string {
	e.mu.Lock()
	defer e.mu.Unlock()
	return append([]string{}, e.broken...)
}

// OpenTransactions reports transactions begun and not yet ended.
func (e *Engine) OpenTransactions() int {
	e.mu.Lock()
	defer e.mu.Unlock()
	return e.openTx
}

func (e *Engine) markBroken(msg string) {
	e.mu.Lock()
	if len(e.broken) < 100 {
		e.broken = append(e.broken, msg)
	}
	e.mu.Unlock()
}

type tagKey struct{}

// WithTag attaches a value to ctx that the engine records in Stmt.Tag of every
// statement executed with that context (and of COMMIT/ROLLBACK of a
// transaction begun with it).
func WithTag(ctx context.Context, tag interface{}) context.Context {
	return context.WithValue(ctx, tagKey{}, tag)
}

// TagOf returns the tag attached to ctx with WithTag (nil if none).
func TagOf(ctx context.Context) interface{} { return ctx.Value(tagKey{}) }

// ---- execution ----

type txState struct {
	id      int64
	tag     interface{}
	holdsW  bool
	overlay map[string]*table
	changes []RowChange
}

func (e *Engine) logStmt(st *Stmt) {
	atomic.AddInt64(&e.statements, 1)
	e.mu.Lock()
	e.seq++
	st.Seq = e.seq
	e.log = append(e.log, st)
	e.mu.Unlock()
}

func (e *Engine) finish(st *Stmt, err error) error {
	e.mu.Lock()
	st.Done = true
	if err != nil {
		st.Err = err.Error()
	}
	if be, ok := err.(*brokenError); ok && len(e.broken) < 100 {
		e.broken = append(e.broken, be.msg+" in: "+st.SQL)
	}
	e.mu.Unlock()
	return err
}

func (e *Engine) acquireW(ctx context.Context) error {
	select {
	case <-e.wlock:
		return nil
	case <-ctx.Done():
		return ctx.Err()
	}
}

func (e *Engine) releaseW() { e.wlock <- struct{}{} }

// lookup returns the table a statement of this connection sees. Caller holds e.mu.
func (e *Engine) lookup(tx *txState, name string) (*table, error) {
	if name == "information_schema.columns" {
		return e.infoSchemaColumns(), nil
	}
	if tx != nil {
		if t, ok := tx.overlay[name]; ok {
			return t, nil
		}
	}
	t, ok := e.tables[name]
	if !ok {
		return nil, &brokenError{fmt.Sprintf("unknown table %q", name)}
	}
	return t, nil
}

// infoSchemaColumns builds the virtual information_schema.columns table.
// Caller holds e.mu.
func (e *Engine) infoSchemaColumns() *table {
	t := &table{def: TableDef{Name: "information_schema.columns", Columns: []ColumnDef{
		{Name: "table_schema", Kind: KString}, {Name: "table_name", Kind: KString},
		{Name: "column_name", Kind: KString}, {Name: "ordinal_position", Kind: KInt}}},
		colIdx: map[string]int{"table_schema": 0, "table_name": 1, "column_name": 2, "ordinal_position": 3}}
	names := make([]string, 0, len(e.tables))
	for n := range e.tables {
		names = append(names, n)
	}
	sort.Strings(names)
	for _, n := range names {
		for i, c := range e.tables[n].def.Columns {
			t.rows = append(t.rows, []driver.Value{e.database, n, c.Name, int64(i + 1)})
		}
	}
	return t
}

type resultSet struct {
	cols     []string
	rows     [][]driver.Value
	errAfter int
	err      error
}

func (e *Engine) execSelect(ctx context.Context, tx *txState, st *Stmt) (*resultSet, error) {
	e.mu.Lock()
	h := e.hooks
	e.mu.Unlock()
	if st.ForUpdate && (tx == nil || !tx.holdsW) {
		if err := e.acquireW(ctx); err != nil {
			return nil, err
		}
		if tx != nil {
			tx.holdsW = true
		} else {
			defer e.releaseW()
		}
	}
	if h.BeforeSnapshot != nil {
		h.BeforeSnapshot(st)
	}
	rs, err := e.snapshotSelect(tx, st)
	if h.AfterSnapshot != nil {
		h.AfterSnapshot(st)
	}
	return rs, err
}

func (e *Engine) snapshotSelect(tx *txState, st *Stmt) (*resultSet, error) {
	e.mu.Lock()
	defer e.mu.Unlock()
	t, err := e.lookup(tx, st.Table)
	if err != nil {
		return nil, err
	}
	var sel [][]driver.Value
	for _, r := range t.rows {
		v, err := t.evalExpr(st.Where, r)
		if err != nil {
			return nil, err
		}
		if v == True {
			sel = append(sel, r)
		}
	}
	if st.Kind == SCount {
		st.RowsReturned = 1
		return &resultSet{cols: []string{"COUNT(*)"}, rows: [][]driver.Value{{render(KInt, int64(len(sel)), e.proto, false)}}}, nil
	}
	// base order
	switch {
	case len(st.OrderBy) > 0 || e.order == PrimaryKeyOrder:
		terms := st.OrderBy
		if len(terms) == 0 {
			for _, c := range t.def.PrimaryKey {
				terms = append(terms, OrderTerm{Col: c})
			}
		}
		idx := make([]int, len(terms))
		for i, term := range terms {
			j, err := t.col(term.Col)
			if err != nil {
				return nil, err
			}
			idx[i] = j
		}
		sort.SliceStable(sel, func(a, b int) bool {
			for i, j := range idx {
				c := cmpStored(t.def.Columns[j].Kind, sel[a][j], sel[b][j])
				if c != 0 {
					return (c < 0) != terms[i].Desc
				}
			}
			return false
		})
	case e.order == ShuffledOrder && e.shuffle != nil:
		e.shuffle.Shuffle(len(sel), func(a, b int) { sel[a], sel[b] = sel[b], sel[a] })
	}
	if st.Limit > 0 && len(sel) > st.Limit {
		sel = sel[:st.Limit]
	}
	cols := st.Columns
	if len(cols) == 1 && cols[0] == "*" {
		cols = nil
		for _, c := range t.def.Columns {
			cols = append(cols, c.Name)
		}
	}
	idx := make([]int, len(cols))
	for i, c := range cols {
		j, err := t.col(c)
		if err != nil {
			return nil, err
		}
		idx[i] = j
	}
	out := &resultSet{cols: cols}
	for _, r := range sel {
		o := make([]driver.Value, len(idx))
		for i, j := range idx {
			o[i] = render(t.def.Columns[j].Kind, r[j], e.proto, e.parseTm)
		}
		out.rows = append(out.rows, o)
	}
	st.RowsReturned = len(out.rows)
	return out, nil
}

// explain answers EXPLAIN SELECT with one row in MySQL's ten-column layout
// (id, select_type, table, type, possible_keys, key, key_len, ref, rows,
// Extra). The model has no indexes; it reports the primary key as usable so
// that sqlgen's no-index panic never fires. The table and its columns must
// exist, as for the SELECT itself.
func (e *Engine) explain(tx *txState, st *Stmt) (*resultSet, error) {
	e.mu.Lock()
	defer e.mu.Unlock()
	t, err := e.lookup(tx, st.Table)
	if err != nil {
		return nil, err
	}
	for _, c := range st.Columns {
		if c != "*" {
			if _, err := t.col(c); err != nil {
				return nil, err
			}
		}
	}
	text := func(s string) driver.Value { return []byte(s) }
	st.RowsReturned = 1
	return &resultSet{
		cols: []string{"id", "select_type", "table", "type", "possible_keys", "key", "key_len", "ref", "rows", "Extra"},
		rows: [][]driver.Value{{render(KInt, int64(1), e.proto, false), text("SIMPLE"), text(st.Table), text("ref"), text("PRIMARY"), text("PRIMARY"),
			text("8"), text("const"), render(KInt, int64(len(t.rows)), e.proto, false), nil}},
	}, nil
}

type execResult struct {
	affected, lastID int64
}

func (r execResult) LastInsertId() (int64, error) { return r.lastID, nil }
func (r execResult) RowsAffected() (int64, error) { return r.affected, nil }

func (e *Engine) execWrite(ctx context.Context, tx *txState, st *Stmt) (driver.Result, error) {
	if tx == nil || !tx.holdsW {
		if err := e.acquireW(ctx); err != nil {
			return nil, err
		}
		if tx != nil {
			tx.holdsW = true
		} else {
			defer e.releaseW()
		}
	}
	e.mu.Lock()
	base, err := e.lookup(tx, st.Table)
	if err != nil {
		e.mu.Unlock()
		return nil, err
	}
	if st.Table == "information_schema.columns" {
		e.mu.Unlock()
		return nil, &brokenError{"write to information_schema"}
	}
	work := base.clone()
	var changes []RowChange
	var res execResult
	switch st.Kind {
	case SInsert, SUpsert:
		res, changes, err = work.insert(st)
	case SUpdate:
		res, changes, err = work.update(st)
	case SDelete:
		res, changes, err = work.delete(st)
	default:
		err = &brokenError{"not a write statement"}
	}
	if err != nil {
		e.mu.Unlock()
		return nil, err
	}
	for i := range changes {
		changes[i].Table = st.Table
		changes[i].StmtSeq = st.Seq
	}
	st.RowsAffected, st.LastInsertID = res.affected, res.lastID
	if tx != nil {
		if tx.overlay == nil {
			tx.overlay = map[string]*table{}
		}
		tx.overlay[st.Table] = work
		tx.changes = append(tx.changes, changes...)
		e.mu.Unlock()
		return res, nil
	}
	e.tables[st.Table] = work
	h := e.hooks
	e.mu.Unlock()
	if h.OnCommit != nil && len(changes) > 0 {
		h.OnCommit(changes)
	}
	return res, nil
}

func (e *Engine) commit(tx *txState) {
	e.mu.Lock()
	for name, t := range tx.overlay {
		e.tables[name] = t
	}
	h := e.hooks
	e.openTx--
	e.mu.Unlock()
	if h.OnCommit != nil && len(tx.changes) > 0 {
		h.OnCommit(tx.changes)
	}
	if tx.holdsW {
		tx.holdsW = false
		e.releaseW()
	}
}

func (e *Engine) rollback(tx *txState) {
	e.mu.Lock()
	e.openTx--
	e.mu.Unlock()
	if tx.holdsW {
		tx.holdsW = false
		e.releaseW()
	}
}

// ---- table mutations (on a private clone) ----

func dupErr(t *table, key []string, row []driver.Value) error {
	parts := make([]string, len(key))
	for i, c := range key {
		parts[i] = fmt.Sprint(row[t.colIdx[c]])
	}
	return &SQLError{1062, fmt.Sprintf("Duplicate entry '%s' for key '%s'", strings.Join(parts, "-"), strings.Join(key, ","))}
}

// conflict finds a row that collides with row on a unique key (NULLs never
// collide). skip is a row index to ignore (-1 for none).
func (t *table) conflict(row []driver.Value, skip int) (int, []string) {
	keys := t.def.Unique
	if len(t.def.PrimaryKey) > 0 {
		keys = append([][]string{t.def.PrimaryKey}, keys...)
	}
	for _, key := range keys {
	rows:
		for ri, r := range t.rows {
			if ri == skip {
				continue
			}
			for _, c := range key {
				j := t.colIdx[c]
				if row[j] == nil || r[j] == nil || cmpStored(t.def.Columns[j].Kind, row[j], r[j]) != 0 {
					continue rows
				}
			}
			return ri, key
		}
	}
	return -1, nil
}

func (t *table) checkNotNull(row []driver.Value) error {
	for i, c := range t.def.Columns {
		if c.NotNull && row[i] == nil {
			return &SQLError{1048, fmt.Sprintf("Column '%s' cannot be null", c.Name)}
		}
	}
	return nil
}

func rowsEqual(a, b []driver.Value) bool {
	for i := range a {
		if !valuesEqual(a[i], b[i]) {
			return false
		}
	}
	return true
}

func (t *table) insert(st *Stmt) (execResult, []RowChange, error) {
	var res execResult
	var changes []RowChange
	idx := make([]int, len(st.Columns))
	for i, c := range st.Columns {
		j, err := t.col(c)
		if err != nil {
			return res, nil, err
		}
		idx[i] = j
	}
	type dup struct{ col, src int }
	var dups []dup
	for _, d := range st.OnDup {
		cj, err := t.col(d.Col)
		if err != nil {
			return res, nil, err
		}
		sj, err := t.col(d.Src)
		if err != nil {
			return res, nil, err
		}
		dups = append(dups, dup{cj, sj})
	}
	auto := -1
	if t.def.AutoIncrement != "" {
		auto = t.colIdx[t.def.AutoIncrement]
	}
	for _, ops := range st.Rows {
		row := make([]driver.Value, len(t.def.Columns))
		for i, j := range idx {
			v, err := Coerce(t.def.Columns[j].Kind, ops[i].Val)
			if err != nil {
				return res, nil, err
			}
			row[j] = v
		}
		generated := false
		if auto >= 0 {
			if row[auto] == nil || row[auto] == int64(0) {
				row[auto] = t.nextAuto
				generated = true
			}
			if id, ok := row[auto].(int64); ok && id >= t.nextAuto {
				t.nextAuto = id + 1
			}
		}
		if err := t.checkNotNull(row); err != nil {
			return res, nil, err
		}
		if ri, key := t.conflict(row, -1); ri >= 0 {
			if st.Kind != SUpsert {
				return res, nil, dupErr(t, key, row)
			}
			old := t.rows[ri]
			nw := append([]driver.Value{}, old...)
			for _, d := range dups {
				nw[d.col] = row[d.src]
			}
			if err := t.checkNotNull(nw); err != nil {
				return res, nil, err
			}
			if rowsEqual(old, nw) {
				continue
			}
			if rj, key := t.conflict(nw, ri); rj >= 0 {
				return res, nil, dupErr(t, key, nw)
			}
			t.rows[ri] = nw
			changes = append(changes, RowChange{Kind: RowUpdate, Before: old, After: nw})
			res.affected += 2
			continue
		}
		t.rows = append(t.rows, row)
		changes = append(changes, RowChange{Kind: RowInsert, After: row})
		res.affected++
		if generated && res.lastID == 0 {
			res.lastID = row[auto].(int64)
		}
	}
	return res, changes, nil
}

func (t *table) update(st *Stmt) (execResult, []RowChange, error) {
	var res execResult
	var changes []RowChange
	type set struct {
		j int
		v driver.Value
	}
	var sets []set
	for _, a := range st.Set {
		j, err := t.col(a.Col)
		if err != nil {
			return res, nil, err
		}
		v, err := Coerce(t.def.Columns[j].Kind, a.Val.Val)
		if err != nil {
			return res, nil, err
		}
		sets = append(sets, set{j, v})
	}
	for ri, old := range t.rows {
		m, err := t.evalExpr(st.Where, old)
		if err != nil {
			return res, nil, err
		}
		if m != True {
			continue
		}
		nw := append([]driver.Value{}, old...)
		for _, s := range sets {
			nw[s.j] = s.v
		}
		if rowsEqual(old, nw) {
			continue
		}
		if err := t.checkNotNull(nw); err != nil {
			return res, nil, err
		}
		if rj, key := t.conflict(nw, ri); rj >= 0 {
			return res, nil, dupErr(t, key, nw)
		}
		t.rows[ri] = nw
		changes = append(changes, RowChange{Kind: RowUpdate, Before: old, After: nw})
		res.affected++
	}
	return res, changes, nil
}

func (t *table) delete(st *Stmt) (execResult, []RowChange, error) {
	var res execResult
	var changes []RowChange
	kept := make([][]driver.Value, 0, len(t.rows))
	for _, r := range t.rows {
		m, err := t.evalExpr(st.Where, r)
		if err != nil {
			return res, nil, err
		}
		if m == True {
			changes = append(changes, RowChange{Kind: RowDelete, Before: r})
			res.affected++
			continue
		}
		kept = append(kept, r)
	}
	t.rows = kept
	return res, changes, nil
}
