// Package c10 monitors property C10: SQL batching is transparent. The same
// Query/QueryRow calls are run one at a time without batching and then
// concurrently under batch.WithBatching against the same table contents in the
// in-memory engine of package fakesql; each call must get exactly the rows it
// got on its own, and the statement log must show that calls were combined.
package c10

import (
	"context"
	"database/sql"
	"database/sql/driver"
	"fmt"
	"io"
	"math/rand"
	"reflect"
	"sort"
	"strings"
	"sync"
	"testing"
	"time"

	"github.com/samsarahq/thunder/batch"
	"github.com/samsarahq/thunder/sqlgen"
	"github.com/samsarahq/thunder/verifharness/fakesql"
	"github.com/samsarahq/thunder/verifharness/vlib"
)

type Status string
type Level int32

type Item struct {
	Id    int64 `sql:",primary"`
	Grp   int64
	Small int32
	Lvl   Level
	Name  string
	St    Status
	Opt   *int64
	OptS  *string
	Data  []byte
	Flag  bool
	At    time.Time
	Note  string `sql:",implicitnull"`
}

type Label struct {
	Code string `sql:",primary"`
	Grp  int64
	Val  *string
}

func newSchema() *sqlgen.Schema {
	s := sqlgen.NewSchema()
	s.MustRegisterType("items", sqlgen.AutoIncrement, Item{})
	s.MustRegisterType("labels", sqlgen.UniqueId, Label{})
	return s
}

// DATETIME(6) values; times[0], [2], [3] lie within one second and differ only
// in their sub-second part.
var times = []time.Time{
	time.Date(2021, 5, 6, 7, 8, 9, 0, time.UTC),
	time.Date(2022, 1, 2, 3, 4, 5, 123456000, time.UTC),
	time.Date(2021, 5, 6, 7, 8, 9, 250000000, time.UTC),
	time.Date(2021, 5, 6, 7, 8, 9, 999999000, time.UTC),
	time.Date(2022, 1, 2, 3, 4, 5, 123457000, time.UTC),
}
var zone = time.FixedZone("UTC+5:30", 5*3600+1800)

func p64(v int64) *int64    { return &v }
func pstr(s string) *string { return &s }

// ---- value representations ----

type rep struct {
	val  interface{}
	name string
	// isNull: the unbatched path turns this value into IS NULL
	isNull bool
	// offType: the Go type (after one pointer dereference, []byte ~ string)
	// differs from the struct field's, or it is a time.Time outside UTC
	offType bool
}

func intRep(r *rand.Rand, v int64, field string) rep {
	base := map[string]string{"id": "int64", "grp": "int64", "small": "int32", "lvl": "Level", "opt": "int64"}[field]
	type cand struct {
		name string
		val  interface{}
	}
	iv := int(v)
	cands := []cand{
		{"int64", v}, {"int", int(v)}, {"int32", int32(v)}, {"int16", int16(v)}, {"int8", int8(v)}, {"uint8", uint8(v)}, {"uint32", uint32(v)},
		{"Level", Level(v)}, {"*int64", &v}, {"*int", &iv},
	}
	var c cand
	switch x := r.Intn(10); {
	case x < 5: // the field's own type (or a pointer to it)
		for _, k := range cands {
			if k.name == base {
				c = k
			}
		}
		if r.Intn(4) == 0 {
			switch base {
			case "int64":
				c = cand{"*int64", &v}
			case "int32":
				w := int32(v)
				c = cand{"*int32", &w}
			case "Level":
				w := Level(v)
				c = cand{"*Level", &w}
			}
		}
	default:
		c = cands[r.Intn(len(cands))]
	}
	el := strings.TrimPrefix(c.name, "*")
	return rep{val: c.val, name: c.name, offType: el != base}
}

func strRep(r *rand.Rand, v string, field string) rep {
	base := map[string]string{"name": "string", "st": "Status", "opt_s": "string", "note": "string", "code": "string", "val": "string", "data": "[]byte"}[field]
	type cand struct {
		name string
		val  interface{}
	}
	cands := []cand{{"string", v}, {"Status", Status(v)}, {"[]byte", []byte(v)}, {"*string", &v}}
	var c cand
	if r.Intn(2) == 0 {
		for _, k := range cands {
			if k.name == base {
				c = k
			}
		}
	} else {
		c = cands[r.Intn(len(cands))]
	}
	el := strings.TrimPrefix(c.name, "*")
	// the matcher turns []byte into string before hashing
	norm := func(s string) string {
		if s == "[]byte" {
			return "string"
		}
		return s
	}
	out := rep{val: c.val, name: c.name, offType: norm(el) != norm(base)}
	if field == "note" && v == "" && (c.name == "string" || c.name == "Status" || c.name == "*string") {
		out.isNull = true // implicitnull: a zero value (also behind a pointer, since fix b37c1f7) is written and filtered as NULL
	}
	return out
}

func nullRep(r *rand.Rand, field string) rep {
	switch r.Intn(3) {
	case 0:
		return rep{val: nil, name: "nil", isNull: true}
	case 1:
		if field == "opt_s" || field == "val" || field == "name" || field == "st" || field == "note" {
			return rep{val: (*string)(nil), name: "(*string)(nil)", isNull: true}
		}
		return rep{val: (*int64)(nil), name: "(*int64)(nil)", isNull: true}
	default:
		if field == "data" {
			return rep{val: []byte(nil), name: "[]byte(nil)", isNull: true}
		}
		return rep{val: nil, name: "nil", isNull: true}
	}
}

func timeRep(r *rand.Rand, t time.Time) rep {
	switch r.Intn(5) {
	case 0:
		return rep{val: t.In(zone), name: "time.Time(+05:30)", offType: true}
	case 1:
		return rep{val: &t, name: "*time.Time"}
	case 2:
		tt := t.In(zone)
		return rep{val: &tt, name: "*time.Time(+05:30)", offType: true}
	}
	return rep{val: t, name: "time.Time"}
}

func boolRep(r *rand.Rand, b bool) rep {
	if r.Intn(3) == 0 {
		return rep{val: &b, name: "*bool"}
	}
	return rep{val: b, name: "bool"}
}

// ---- rounds ----

// ---- handle configurations ----

// A view is one *sqlgen.DB through which callers reach an engine: the handle
// made by NewDB ("base") or a handle derived from it with WithShardLimit /
// WithDynamicLimit, with or without WithPanicOnNoIndex. All views of one engine
// come from one NewDB value, are used in one batching context and see the same
// rows; a call's reference is the same call through the same view alone.
type view struct {
	db   *sqlgen.DB
	kind string // base | shard | dyn-strict | dyn-audit | shard+dyn-audit
	// limit: the key-value pairs every filter that goes through this view must
	// carry (value-identical), or the call is refused before any SQL is sent
	limit sqlgen.Filter
	desc  string
	pnoi  bool // WithPanicOnNoIndex is in force on this handle
}

func dynLimit(g int64, strict bool) sqlgen.DynamicLimit {
	return sqlgen.DynamicLimit{
		GetLimitFilter:        func(ctx context.Context, table string) sqlgen.Filter { return sqlgen.Filter{"grp": g} },
		ShouldContinueOnError: func(err error, table string) bool { return !strict },
	}
}

// buildViews derives the round's handles from root. Both tables have an int64
// column grp with domain 0..2, which serves as the shard column.
func buildViews(r *rand.Rand, root *sqlgen.DB) ([]*view, error) {
	views := []*view{{db: root, kind: "base", desc: "base"}}
	pnoiMode := r.Intn(8) // 0: on the NewDB handle before deriving (inherited by every view); 1: on one handle after deriving
	if pnoiMode == 0 {
		if _, err := root.WithPanicOnNoIndex(); err != nil {
			return nil, err
		}
	}
	if r.Intn(3) == 0 {
		for k, n := 0, 1+r.Intn(3); k < n; k++ {
			g, g2 := int64(r.Intn(3)), int64(r.Intn(3))
			var v *view
			var db *sqlgen.DB
			var err error
			switch x := r.Intn(10); {
			case x < 6:
				db, err = root.WithShardLimit(sqlgen.Filter{"grp": g})
				v = &view{kind: "shard", limit: sqlgen.Filter{"grp": g}, desc: fmt.Sprintf("WithShardLimit(grp=%d)", g)}
			case x < 7:
				db, err = root.WithDynamicLimit(dynLimit(g, true))
				v = &view{kind: "dyn-strict", limit: sqlgen.Filter{"grp": g}, desc: fmt.Sprintf("WithDynamicLimit(grp=%d, refuse)", g)}
			case x < 8:
				db, err = root.WithDynamicLimit(dynLimit(g, false))
				v = &view{kind: "dyn-audit", desc: fmt.Sprintf("WithDynamicLimit(grp=%d, continue)", g)}
			default:
				v = &view{kind: "shard+dyn-audit", limit: sqlgen.Filter{"grp": g}, desc: fmt.Sprintf("WithShardLimit(grp=%d)+WithDynamicLimit(grp=%d, continue)", g, g2)}
				if r.Intn(2) == 0 {
					if db, err = root.WithShardLimit(sqlgen.Filter{"grp": g}); err == nil {
						db, err = db.WithDynamicLimit(dynLimit(g2, false))
					}
				} else {
					if db, err = root.WithDynamicLimit(dynLimit(g2, false)); err == nil {
						db, err = db.WithShardLimit(sqlgen.Filter{"grp": g})
					}
				}
			}
			if err != nil {
				return nil, err
			}
			v.db = db
			views = append(views, v)
		}
	}
	switch pnoiMode {
	case 0:
		for _, v := range views {
			v.pnoi = true
		}
	case 1:
		v := views[r.Intn(len(views))]
		if _, err := v.db.WithPanicOnNoIndex(); err != nil {
			return nil, err
		}
		v.pnoi = true
	}
	for _, v := range views {
		if v.pnoi {
			v.desc += "+PanicOnNoIndex"
		}
	}
	return views, nil
}

// through sends the call through view v: a filter that goes through a limited
// handle carries the limit (the same Go values).
func (c *qcall) through(vi int, v *view) {
	c.v, c.view = vi, v
	if len(v.limit) == 0 {
		return
	}
	f, reps := sqlgen.Filter{}, map[string]rep{}
	for k, x := range c.filter {
		f[k] = x
	}
	for k, x := range c.reps {
		reps[k] = x
	}
	for k, x := range v.limit {
		f[k] = x
		reps[k] = rep{val: x, name: "int64"}
	}
	c.filter, c.reps = f, reps
}

// ---- were calls combined? ----

// The statement says calls "are combined into fewer SELECT statements". Whether
// a given set of concurrent calls is combined depends on the batcher's timers,
// so a single round proves nothing; but a class of calls (by operation, table,
// handle configuration, protocol) whose members never share a SELECT in many
// opportunities, while the other calls of the same process do, is not batched.
// An opportunity is a group of >= 2 calls of one round on the same engine and
// table that are eligible (nil options, no transaction); it is observed
// combined when the driver saw fewer SELECTs on that table than the group has
// calls (after subtracting the one SELECT of each ineligible call).
var combineClasses = []string{
	"any", "table:items", "table:labels", "op:Query", "op:QueryRow", "op:mixed",
	"handle:base", "handle:shard", "handle:dyn-strict", "handle:dyn-audit", "handle:shard+dyn-audit",
	"handle:limited", "handle:derived", "handle:mixed", "handle:panic-on-no-index",
	"protocol:text", "protocol:binary", "engines:1", "engines:2",
}

const combineMinOpportunities = 20

func groupClasses(g []*qcall, nHandles int, proto string) []string {
	out := []string{"any", "table:" + g[0].table, "protocol:" + proto, fmt.Sprintf("engines:%d", nHandles)}
	sameOp, sameView, limited, derived, pnoi := true, true, true, true, true
	for _, c := range g {
		sameOp = sameOp && c.row == g[0].row
		sameView = sameView && c.v == g[0].v
		limited = limited && len(c.view.limit) > 0
		derived = derived && c.v != 0
		pnoi = pnoi && c.view.pnoi
	}
	switch {
	case !sameOp:
		out = append(out, "op:mixed")
	case g[0].row:
		out = append(out, "op:QueryRow")
	default:
		out = append(out, "op:Query")
	}
	if sameView {
		out = append(out, "handle:"+g[0].view.kind)
	} else {
		out = append(out, "handle:mixed")
	}
	if limited {
		out = append(out, "handle:limited")
	}
	if derived {
		out = append(out, "handle:derived")
	}
	if pnoi {
		out = append(out, "handle:panic-on-no-index")
	}
	return out
}

// first opportunity of each class that was not combined (for the witness)
var (
	notCombinedMu     sync.Mutex
	notCombinedSample = map[string]map[string]interface{}{}
)

func combineVerdicts(run *vlib.Run) {
	anyOpp, anyObs := run.Counter("combine_opportunity:any"), run.Counter("combine_observed:any")
	for _, cl := range combineClasses {
		opp, obs := run.Counter("combine_opportunity:"+cl), run.Counter("combine_observed:"+cl)
		if cl == "any" || opp < combineMinOpportunities || obs > 0 {
			continue
		}
		// control: the opportunities outside the class
		restOpp, restObs := anyOpp-opp, anyObs
		if restOpp < combineMinOpportunities || restObs*2 < restOpp {
			run.Inconclusive(fmt.Sprintf("calls of class %s were never combined in %d opportunities, but the other calls were combined in only %d of %d: no verdict", cl, opp, restObs, restOpp))
			continue
		}
		notCombinedMu.Lock()
		sample := notCombinedSample[cl]
		notCombinedMu.Unlock()
		run.Violation(-1, "", map[string]interface{}{
			"what": fmt.Sprintf("with batching enabled, concurrent eligible calls (nil options, no transaction, same table) of class %q were never combined into fewer SELECT statements: 0 of %d opportunities, while the other concurrent calls of this run shared a SELECT in %d of %d opportunities",
				cl, opp, restObs, restOpp),
			"class": cl, "opportunities": opp, "combined": obs, "other_opportunities": restOpp, "other_combined": restObs,
			"example_round": sample,
		})
	}
}

type qcall struct {
	h int // index of the engine the call goes to
	// v: index of the view (handle configuration) of that engine it goes through
	v    int
	view *view
	// tx: the caller's context carries the round's open transaction (handle 0)
	tx bool
	// optKind names the shape of the call's non-nil SelectOptions ("" = nil
	// options); opts builds a fresh options object (sqlgen merges the filter
	// into it); limit is its Limit
	optKind string
	opts    func() *sqlgen.SelectOptions
	limit   int
	table   string
	row     bool // QueryRow
	filter  sqlgen.Filter
	reps    map[string]rep

	// unbatched reference
	refKeys []string
	refRows map[string]interface{}
	refErr  error
	// QueryRow reference
	refRowClass string // "one:<key>", "none", "many", "error"
	// batched
	gotKeys  []string
	gotRows  map[string]interface{}
	gotErr   error
	gotClass string
}

func (c *qcall) describe() string {
	cols := make([]string, 0, len(c.filter))
	for k := range c.filter {
		cols = append(cols, k)
	}
	sort.Strings(cols)
	parts := make([]string, len(cols))
	for i, k := range cols {
		parts[i] = fmt.Sprintf("%s: %s", k, show(c.filter[k]))
	}
	op := "Query"
	if c.row {
		op = "QueryRow"
	}
	f := "Filter{" + strings.Join(parts, ", ") + "}"
	if c.filter == nil {
		f = "nil"
	}
	extra := ""
	if c.optKind != "" {
		extra = ", options=" + c.optKind
	}
	if c.tx {
		extra += " [in tx]"
	}
	via := ""
	if c.view != nil && (c.v != 0 || c.view.pnoi) {
		via = "[" + c.view.desc + "]"
	}
	return fmt.Sprintf("db%d%s.%s(%s, %s%s)", c.h, via, op, c.table, f, extra)
}

func show(v interface{}) string {
	if v == nil {
		return "nil"
	}
	rv := reflect.ValueOf(v)
	if rv.Kind() == reflect.Ptr {
		if rv.IsNil() {
			return fmt.Sprintf("(%T)(nil)", v)
		}
		return "&" + show(rv.Elem().Interface())
	}
	switch x := v.(type) {
	case []byte:
		if x == nil {
			return "[]byte(nil)"
		}
		return fmt.Sprintf("[]byte(%q)", string(x))
	case time.Time:
		return "time(" + x.Format(time.RFC3339Nano) + ")"
	}
	return fmt.Sprintf("%T(%#v)", v, v)
}

func (c *qcall) shape() string {
	cols := make([]string, 0, len(c.filter))
	for k := range c.filter {
		cols = append(cols, k+"="+c.reps[k].name)
	}
	sort.Strings(cols)
	op := "Q"
	if c.row {
		op = "R"
	}
	if c.tx {
		op += "tx"
	}
	via := ""
	if c.view != nil && (c.view.kind != "base" || c.view.pnoi) {
		via = "@" + c.view.kind
		if c.view.pnoi {
			via += "!"
		}
	}
	return op + ":" + c.table + "{" + strings.Join(cols, ",") + "}" + c.optKind + via
}

// String domains contain separator-bearing values (commas, spaces, values that
// are prefixes / suffixes of each other) so that tuples such as ("a,b", "x")
// and ("a", "b,x") occur: they are different filters whose printed values
// coincide.
var nameDomain = []string{"a", "b", "c", "", "a,b", "a b"}
var stDomain = []string{"x", "y", "b,x", "b x"}
var optSDomain = []string{"", "p", "b,p"}

func genItems(r *rand.Rand) []*Item {
	n := 4 + r.Intn(14)
	out := make([]*Item, 0, n)
	for i := 0; i < n; i++ {
		it := &Item{
			Grp:   int64(r.Intn(3)),
			Small: int32(r.Intn(3)),
			Lvl:   Level(r.Intn(3)),
			Name:  nameDomain[r.Intn(len(nameDomain))],
			St:    Status(stDomain[r.Intn(len(stDomain))]),
			Flag:  r.Intn(2) == 0,
			At:    times[r.Intn(len(times))],
			Note:  []string{"", "n1", "n2"}[r.Intn(3)],
		}
		switch r.Intn(3) {
		case 0:
			it.Opt = p64(int64(r.Intn(2)))
		case 1:
			it.Opt = p64(0)
		}
		switch r.Intn(3) {
		case 0:
			it.OptS = pstr(optSDomain[r.Intn(len(optSDomain))])
		case 1:
			it.OptS = pstr("p")
		}
		switch r.Intn(4) {
		case 0:
			it.Data = []byte{}
		case 1:
			it.Data = []byte("ab")
		case 2:
			it.Data = []byte{1}
		}
		out = append(out, it)
	}
	return out
}

func genLabels(r *rand.Rand) []*Label {
	n := 2 + r.Intn(6)
	out := make([]*Label, 0, n)
	for i := 0; i < n; i++ {
		l := &Label{Code: fmt.Sprintf("k%d", i), Grp: int64(r.Intn(3))}
		if r.Intn(2) == 0 {
			l.Val = pstr([]string{"p", "q"}[r.Intn(2)])
		}
		out = append(out, l)
	}
	return out
}

func genFilter(r *rand.Rand, table string, nItems, nLabels int) (sqlgen.Filter, map[string]rep) {
	reps := map[string]rep{}
	var ncols int
	switch x := r.Intn(10); {
	case x < 1:
		if r.Intn(2) == 0 {
			return nil, reps
		}
		return sqlgen.Filter{}, reps
	case x < 5:
		ncols = 1
	case x < 9:
		ncols = 2
	default:
		ncols = 3
	}
	var cols []string
	if table == "items" {
		cols = []string{"id", "grp", "small", "lvl", "name", "st", "opt", "opt_s", "data", "flag", "at", "note", "id", "grp", "opt"}
	} else {
		cols = []string{"code", "grp", "val"}
	}
	var forced []string
	if table == "items" && ncols >= 2 && r.Intn(2) == 0 {
		// the same compound column sets recur within a round
		forced = [][]string{{"name", "st"}, {"name", "opt_s"}, {"grp", "name"}, {"grp", "small"}, {"name", "st", "grp"}, {"at", "grp"}, {"at", "flag"}}[r.Intn(7)]
		ncols = len(forced)
	}
	if table == "items" && ncols == 1 && r.Intn(5) == 0 {
		forced = []string{"at"}
	}
	for len(reps) < ncols {
		col := cols[r.Intn(len(cols))]
		if forced != nil {
			col = forced[len(reps)]
		}
		if _, dup := reps[col]; dup {
			continue
		}
		nullable := col == "opt" || col == "opt_s" || col == "data" || col == "val"
		if (nullable && r.Intn(3) == 0) || r.Intn(25) == 0 {
			reps[col] = nullRep(r, col)
			continue
		}
		switch col {
		case "id":
			reps[col] = intRep(r, int64(1+r.Intn(nItems+1)), col)
		case "grp", "small", "lvl":
			reps[col] = intRep(r, int64(r.Intn(3)), col)
		case "opt":
			reps[col] = intRep(r, int64(r.Intn(2)), col)
		case "name":
			reps[col] = strRep(r, nameDomain[r.Intn(len(nameDomain))], col)
		case "st":
			reps[col] = strRep(r, stDomain[r.Intn(len(stDomain))], col)
		case "opt_s":
			reps[col] = strRep(r, optSDomain[r.Intn(len(optSDomain))], col)
		case "note":
			reps[col] = strRep(r, []string{"", "n1", "n2"}[r.Intn(3)], col)
		case "data":
			reps[col] = strRep(r, []string{"", "ab", "\x01"}[r.Intn(3)], col)
		case "flag":
			reps[col] = boolRep(r, r.Intn(2) == 0)
		case "at":
			reps[col] = timeRep(r, times[r.Intn(len(times))])
		case "code":
			reps[col] = strRep(r, fmt.Sprintf("k%d", r.Intn(nLabels+1)), col)
		case "val":
			reps[col] = strRep(r, []string{"p", "q"}[r.Intn(2)], col)
		}
	}
	f := sqlgen.Filter{}
	for c, rp := range reps {
		f[c] = rp.val
	}
	return f, reps
}

// genOptions gives a call a non-nil SelectOptions of a single-field shape.
// Only nil options may be batched; every shape must return what the call
// returns on its own.
func genOptions(r *rand.Rand, c *qcall, allowForUpdate bool) {
	pk := "id"
	if c.table == "labels" {
		pk = "code"
	}
	switch r.Intn(7) {
	case 0, 1:
		n := 1 + r.Intn(2)
		c.optKind, c.limit = fmt.Sprintf("Limit(%d)", n), n
		c.opts = func() *sqlgen.SelectOptions { return &sqlgen.SelectOptions{Limit: n} }
	case 2:
		c.optKind = "OrderBy"
		c.opts = func() *sqlgen.SelectOptions { return &sqlgen.SelectOptions{OrderBy: pk + " DESC"} }
	case 3:
		g := int64(r.Intn(3))
		c.optKind = fmt.Sprintf("Where(grp = %d)", g)
		c.opts = func() *sqlgen.SelectOptions { return &sqlgen.SelectOptions{Where: "grp = ?", Values: []interface{}{g}} }
	case 4:
		if !allowForUpdate {
			c.optKind = "empty"
			c.opts = func() *sqlgen.SelectOptions { return &sqlgen.SelectOptions{} }
			return
		}
		c.optKind = "ForUpdate"
		c.opts = func() *sqlgen.SelectOptions { return &sqlgen.SelectOptions{ForUpdate: true} }
	case 5:
		n := r.Intn(2) // an index hint alone, or together with a Limit
		c.optKind, c.limit = fmt.Sprintf("ForceIndex+Limit(%d)", n), n
		if n == 0 {
			c.optKind = "UseIndex"
			c.opts = func() *sqlgen.SelectOptions { return &sqlgen.SelectOptions{UseIndex: []string{"PRIMARY"}} }
			return
		}
		c.opts = func() *sqlgen.SelectOptions { return &sqlgen.SelectOptions{ForceIndex: []string{"PRIMARY"}, Limit: n} }
	default:
		c.optKind = "empty"
		c.opts = func() *sqlgen.SelectOptions { return &sqlgen.SelectOptions{} }
	}
}

func keyOf(row interface{}) string {
	switch x := row.(type) {
	case *Item:
		return fmt.Sprint(x.Id)
	case *Label:
		return x.Code
	}
	return "?"
}

func normRow(row interface{}) interface{} {
	if it, ok := row.(*Item); ok {
		c := *it
		c.At = c.At.UTC()
		return c
	}
	return *(row.(*Label))
}

func runQuery(ctx context.Context, db *sqlgen.DB, c *qcall) (keys []string, rows map[string]interface{}, err error) {
	rows = map[string]interface{}{}
	var out []interface{}
	var opts *sqlgen.SelectOptions
	if c.opts != nil {
		opts = c.opts()
	}
	if c.table == "items" {
		if c.row {
			var it *Item
			err = db.QueryRow(ctx, &it, c.filter, opts)
			if err == nil && it != nil {
				out = append(out, it)
			}
		} else {
			var its []*Item
			err = db.Query(ctx, &its, c.filter, opts)
			for _, it := range its {
				out = append(out, it)
			}
		}
	} else {
		if c.row {
			var l *Label
			err = db.QueryRow(ctx, &l, c.filter, opts)
			if err == nil && l != nil {
				out = append(out, l)
			}
		} else {
			var ls []*Label
			err = db.Query(ctx, &ls, c.filter, opts)
			for _, l := range ls {
				out = append(out, l)
			}
		}
	}
	for _, o := range out {
		k := keyOf(o)
		keys = append(keys, k)
		rows[k] = normRow(o)
	}
	sort.Strings(keys)
	return keys, rows, err
}

func rowClass(keys []string, err error) string {
	switch {
	case err == nil && len(keys) == 1:
		return "one:" + keys[0]
	case err == sql.ErrNoRows:
		return "none"
	case err != nil:
		return "error"
	}
	return fmt.Sprintf("ok-with-%d-rows", len(keys))
}

func subset(a, b []string) bool {
	m := map[string]int{}
	for _, k := range b {
		m[k]++
	}
	for _, k := range a {
		if m[k] == 0 {
			return false
		}
		m[k]--
	}
	return true
}

// goKey models what thunder's batch dispatcher hashes for a value: one
// pointer dereference, []byte as string, everything else the raw Go value.
func goKey(v interface{}) interface{} {
	rv := reflect.ValueOf(v)
	if !rv.IsValid() || (rv.Kind() == reflect.Ptr && rv.IsNil()) {
		return nil
	}
	if rv.Kind() == reflect.Ptr {
		v = rv.Elem().Interface()
	}
	if b, ok := v.([]byte); ok {
		return string(b)
	}
	return v
}

func fieldByColumn(row interface{}, col string) interface{} {
	v := reflect.ValueOf(row)
	if v.Kind() == reflect.Ptr {
		v = v.Elem()
	}
	name := map[string]string{"id": "Id", "grp": "Grp", "small": "Small", "lvl": "Lvl", "name": "Name", "st": "St", "opt": "Opt", "opt_s": "OptS",
		"data": "Data", "flag": "Flag", "at": "At", "note": "Note", "code": "Code", "val": "Val"}[col]
	return v.FieldByName(name).Interface()
}

// goMatch: would a dispatcher that compares raw Go values hand this row to
// this filter?
func goMatch(filter sqlgen.Filter, row interface{}) bool {
	for col, fv := range filter {
		a, b := goKey(fv), goKey(fieldByColumn(row, col))
		if a == nil || b == nil {
			if a != b {
				return false
			}
			continue
		}
		if reflect.TypeOf(a) != reflect.TypeOf(b) || !reflect.TypeOf(a).Comparable() || a != b {
			return false
		}
	}
	return true
}

// classify decides whether the difference between the rows a call gets alone
// (ref) and what it got under batching is explained by the recorded defects:
// every row it lost is one the raw-Go-value dispatcher cannot hand over (or
// the filter has a NULL-denoting value, which the combined SELECT sends as
// `IN (NULL)` / `= NULL`), and every row it gained is one that dispatcher
// would hand over when another caller's disjunct fetched it. got == nil means
// the row set is not visible (QueryRow): gotClass is explained instead.
func classify(c *qcall, all map[string]interface{}, got []string, gotClass string) string {
	nullFilter := false
	for _, rp := range c.reps {
		if rp.isNull {
			nullFilter = true
		}
	}
	name := "batch-matcher-raw-go-values"
	if nullFilter {
		name = "batch-null-filter-not-is-null"
	}
	ref := map[string]bool{}
	for _, k := range c.refKeys {
		ref[k] = true
	}
	losable := func(k string) bool { return nullFilter || !goMatch(c.filter, all[k]) }
	gainable := func(k string) bool { return !ref[k] && all[k] != nil && goMatch(c.filter, all[k]) }
	if got != nil || gotClass == "" {
		seen := map[string]bool{}
		for _, k := range got {
			if seen[k] {
				return "" // duplicates are never explained
			}
			seen[k] = true
			if !ref[k] && !gainable(k) {
				return ""
			}
		}
		for k := range ref {
			if !seen[k] && !losable(k) {
				return ""
			}
		}
		return name
	}
	keep := 0 // rows of ref the call cannot have lost
	for k := range ref {
		if !losable(k) {
			keep++
		}
	}
	gain := 0
	for k := range all {
		if gainable(k) {
			gain++
		}
	}
	switch {
	case gotClass == "none":
		if keep == 0 {
			return name
		}
	case strings.HasPrefix(gotClass, "one:"):
		k := strings.TrimPrefix(gotClass, "one:")
		if ref[k] && (keep == 0 || (keep == 1 && !losable(k))) {
			return name
		}
		if gainable(k) && keep == 0 {
			return name
		}
	case gotClass == "many":
		if len(ref)+gain >= 2 {
			return name
		}
	}
	return ""
}

func runRound(run *vlib.Run, i int) {
	fmt.Println("CASE", i)
	r := run.Rand("round", i)
	// handle configurations and which call goes through which handle come from
	// a stream of their own
	r2 := run.Rand("handles", i)
	schema := newSchema()
	bg := context.Background()
	proto := "text"
	binary, parseTime, shuffle := false, false, r.Intn(2) == 0
	if r.Intn(2) == 0 {
		binary, parseTime, proto = true, r.Intn(2) == 0, "binary"
	} else if r.Intn(3) == 0 {
		parseTime = true
	}
	// one DB handle, or two handles on two engines (same *Schema, different
	// rows) whose callers share one batching context
	type handle struct {
		eng    *fakesql.Engine
		db     *sqlgen.DB
		items  []*Item
		labels []*Label
		views  []*view
	}
	nHandles := 1
	if r.Intn(4) == 0 {
		nHandles = 2
	}
	collide := r.Intn(4) == 0
	// tx rounds: handle 0 has an open transaction with uncommitted writes; some
	// callers of the shared batching context run inside it
	txRound := r.Intn(5) == 0
	var handles []*handle
	for k := 0; k < nHandles; k++ {
		eng := fakesql.New("", "verifdb")
		defer eng.Dispose()
		if binary {
			eng.SetProtocol(fakesql.Binary, parseTime)
		} else if parseTime {
			eng.SetProtocol(fakesql.Text, true)
		}
		if shuffle {
			eng.SetRowOrder(fakesql.ShuffledOrder, int64(i))
		}
		if err := eng.CreateSchemaTables(schema); err != nil {
			run.Broken(fmt.Sprintf("case %d: %v", i, err))
			return
		}
		conn := eng.Open()
		defer conn.Close()
		hd := &handle{eng: eng, db: sqlgen.NewDB(conn, schema), items: genItems(r), labels: genLabels(r)}
		if collide {
			// rows for both members of each colliding filter pair (see below)
			hd.items = append(hd.items,
				&Item{Name: "a,b", St: "x", At: times[0]}, &Item{Name: "a", St: "b,x", At: times[0]},
				&Item{Name: "a,b", OptS: pstr("p"), St: "y", At: times[1]}, &Item{Name: "a", OptS: pstr("b,p"), St: "y", At: times[1]})
		}
		if err := hd.db.InsertRows(bg, hd.items, 7); err != nil {
			run.Broken(fmt.Sprintf("case %d: seeding items: %v", i, err))
			return
		}
		if err := hd.db.InsertRows(bg, hd.labels, 100); err != nil {
			run.Broken(fmt.Sprintf("case %d: seeding labels: %v", i, err))
			return
		}
		// the handles callers use: the NewDB handle and, in a third of the rounds,
		// 1-3 handles derived from it (shard limit, dynamic limit, both), with
		// WithPanicOnNoIndex on all / one / none of them
		var err error
		if hd.views, err = buildViews(r2, hd.db); err != nil {
			run.Broken(fmt.Sprintf("case %d: deriving handles: %v", i, err))
			return
		}
		handles = append(handles, hd)
	}
	items, labels := handles[0].items, handles[0].labels
	// focus rounds: every call of an engine goes through one derived handle
	focus := make([]int, nHandles)
	for k, hd := range handles {
		focus[k] = -1
		if len(hd.views) > 1 {
			run.Count("rounds_with_derived_handles", 1)
			if r2.Intn(3) == 0 {
				focus[k] = 1 + r2.Intn(len(hd.views)-1)
			}
		}
		for _, v := range hd.views {
			if v.pnoi {
				run.Count("rounds_with_panic_on_no_index_handle", 1)
				break
			}
		}
	}
	if nHandles == 2 {
		run.Count("rounds_two_handles", 1)
	}

	// calls
	n := 2 + r.Intn(7)
	calls := make([]*qcall, 0, n)
	for k := 0; k < n; k++ {
		c := &qcall{table: "items", row: r.Intn(3) == 0, h: r.Intn(nHandles)}
		if r.Intn(6) == 0 {
			c.table = "labels"
		}
		if k > 0 && r.Intn(6) == 0 { // an equal filter from another caller (possibly of the other handle)
			prev := calls[r.Intn(len(calls))]
			c.table, c.filter, c.reps = prev.table, prev.filter, prev.reps
		} else {
			c.filter, c.reps = genFilter(r, c.table, len(items), len(labels))
		}
		if r.Intn(5) == 0 {
			genOptions(r, c, !txRound)
		}
		if txRound && c.h == 0 && r.Intn(2) == 0 {
			c.tx = true
		}
		vi := r2.Intn(len(handles[c.h].views))
		if focus[c.h] >= 0 {
			vi = focus[c.h]
		}
		c.through(vi, handles[c.h].views[vi])
		calls = append(calls, c)
	}

	if collide {
		// two different filters on the same two columns whose printed values
		// coincide: ("a,b", "x") / ("a", "b,x")
		own := func(v string, name string) rep { return rep{val: v, name: name} }
		var a, b *qcall
		if r.Intn(2) == 0 {
			a = &qcall{table: "items", filter: sqlgen.Filter{"name": "a,b", "st": Status("x")}, reps: map[string]rep{"name": own("a,b", "string"), "st": {val: Status("x"), name: "Status"}}}
			b = &qcall{table: "items", filter: sqlgen.Filter{"name": "a", "st": Status("b,x")}, reps: map[string]rep{"name": own("a", "string"), "st": {val: Status("b,x"), name: "Status"}}}
		} else {
			a = &qcall{table: "items", filter: sqlgen.Filter{"name": "a,b", "opt_s": "p"}, reps: map[string]rep{"name": own("a,b", "string"), "opt_s": own("p", "string")}}
			b = &qcall{table: "items", filter: sqlgen.Filter{"name": "a", "opt_s": "b,p"}, reps: map[string]rep{"name": own("a", "string"), "opt_s": own("b,p", "string")}}
		}
		a.h = r.Intn(nHandles)
		b.h = a.h
		a.through(0, handles[a.h].views[0])
		b.through(0, handles[a.h].views[0])
		calls = append(calls, a, b)
		r.Shuffle(len(calls), func(x, y int) { calls[x], calls[y] = calls[y], calls[x] })
		run.Count("rounds_with_colliding_tuple_pair", 1)
	}

	var txctx context.Context
	var tx *sql.Tx
	if txRound {
		var err error
		if txctx, tx, err = handles[0].db.WithTx(bg); err != nil {
			run.Broken(fmt.Sprintf("case %d: WithTx: %v", i, err))
			return
		}
		defer tx.Rollback()
		for _, it := range genItems(r)[:3] {
			handles[0].db.InsertRow(txctx, it)
		}
		handles[0].db.DeleteRow(txctx, &Item{Id: 1})
		handles[0].db.InsertRow(txctx, &Label{Code: "in-tx", Grp: 1})
		run.Count("rounds_with_open_transaction", 1)
	}

	// the table contents as structs (by handle and key), read without batching
	all := map[string]interface{}{}
	if txRound {
		for _, tb := range []string{"items", "labels"} {
			_, rows, err := runQuery(txctx, handles[0].db, &qcall{table: tb})
			if err != nil {
				run.Broken(fmt.Sprintf("case %d: reading %s in the transaction: %v", i, tb, err))
				return
			}
			for k, v := range rows {
				all[fmt.Sprintf("tx/%s/%s", tb, k)] = v
			}
		}
	}
	for hi, hd := range handles {
		for _, tb := range []string{"items", "labels"} {
			_, rows, err := runQuery(bg, hd.db, &qcall{table: tb})
			if err != nil {
				run.Broken(fmt.Sprintf("case %d: reading %s: %v", i, tb, err))
				return
			}
			for k, v := range rows {
				all[fmt.Sprintf("%d/%s/%s", hi, tb, k)] = v
			}
		}
	}
	// reference: one at a time, no batching. The row set comes from Query;
	// QueryRow's own unbatched outcome must agree with it (row / ErrNoRows /
	// another error exactly when Query returns more than one row).
	refCtx := func(c *qcall) context.Context {
		if c.tx {
			return txctx
		}
		return bg
	}
	for _, c := range calls {
		q := &qcall{table: c.table, filter: c.filter, h: c.h, tx: c.tx, v: c.v, view: c.view}
		if c.limit == 0 {
			q.opts, q.optKind = c.opts, c.optKind // same options; a Limit is judged by count (no ORDER BY)
		}
		c.refKeys, c.refRows, c.refErr = runQuery(refCtx(c), c.view.db, q)
		if c.refErr != nil {
			run.Broken(fmt.Sprintf("case %d: unbatched %s failed: %v", i, q.describe(), c.refErr))
			return
		}
		if !c.row {
			continue
		}
		switch len(c.refKeys) {
		case 0:
			c.refRowClass = "none"
		case 1:
			c.refRowClass = "one:" + c.refKeys[0]
		default:
			c.refRowClass = "many"
		}
		if c.limit > 0 {
			continue
		}
		keys, _, err := runQuery(refCtx(c), c.view.db, c)
		own := rowClass(keys, err)
		if own == "error" {
			own = "many"
		}
		if own != c.refRowClass {
			run.Violation(i, "", map[string]interface{}{"what": "unbatched QueryRow disagrees with unbatched Query", "call": c.describe(), "query_keys": c.refKeys, "queryrow": own, "error": fmt.Sprint(err)})
			return
		}
	}

	// batched: all callers concurrently on one batching context
	marks := make([]int64, nHandles)
	for hi, hd := range handles {
		marks[hi] = hd.eng.Mark("batched")
	}
	// fault rounds: every SELECT of the batched phase starts normally and its
	// result stream breaks after a few rows (connection lost mid-result, a
	// cancellation observed between two row reads)
	faultRound := r.Intn(6) == 0
	faultAfter := r.Intn(4)
	faultErr := []error{driver.ErrBadConn, context.Canceled, io.ErrUnexpectedEOF, context.DeadlineExceeded}[r.Intn(4)]
	if faultRound {
		for _, hd := range handles {
			hd.eng.SetHooks(fakesql.Hooks{Fault: func(st *fakesql.Stmt) *fakesql.Fault {
				if st.Kind == fakesql.SSelect {
					return &fakesql.Fault{RowsErr: faultErr, RowsErrAfter: faultAfter}
				}
				return nil
			}})
		}
	}
	bctx := batch.WithBatching(bg)
	txb := bctx
	if txRound {
		var err error
		if txb, err = handles[0].db.WithExistingTx(bctx, tx); err != nil {
			run.Broken(fmt.Sprintf("case %d: WithExistingTx: %v", i, err))
			return
		}
	}
	var wg sync.WaitGroup
	for _, c := range calls {
		wg.Add(1)
		go func(c *qcall) {
			defer wg.Done()
			defer func() {
				if p := recover(); p != nil {
					c.gotErr = fmt.Errorf("panic: %v", p)
				}
			}()
			ctx := bctx
			if c.tx {
				ctx = txb
			}
			c.gotKeys, c.gotRows, c.gotErr = runQuery(ctx, c.view.db, c)
		}(c)
	}
	wg.Wait()
	selects := 0
	var stmts []string
	faultFired := false
	type gkey struct {
		h     int
		table string
	}
	selBy := map[gkey]int{}
	for hi, hd := range handles {
		hd.eng.SetHooks(fakesql.Hooks{})
		if b := hd.eng.Broken(); len(b) > 0 {
			run.Broken(fmt.Sprintf("case %d: fake SQL engine: %s", i, strings.Join(b, " | ")))
			return
		}
		for _, st := range hd.eng.LogSince(marks[hi]) {
			if st.Kind == fakesql.SSelect {
				selects++
				selBy[gkey{hi, st.Table}]++
				if faultRound && st.RowsReturned > faultAfter {
					faultFired = true
				}
			}
			stmts = append(stmts, fmt.Sprintf("db%d: %s", hi, st.Summary()))
		}
	}
	combined := selects < len(calls)
	if !faultRound {
		groups, inel := map[gkey][]*qcall{}, map[gkey]int{}
		for _, c := range calls {
			k := gkey{c.h, c.table}
			if c.opts == nil && !c.tx {
				groups[k] = append(groups[k], c)
			} else {
				inel[k]++ // sent on its own: exactly one SELECT
			}
		}
		for k, g := range groups {
			if len(g) < 2 {
				continue
			}
			own := selBy[k] - inel[k]
			if own < 1 || own > len(g) {
				run.Count("combine_accounting_skipped", 1)
				continue
			}
			for _, cl := range groupClasses(g, nHandles, proto) {
				run.Count("combine_opportunity:"+cl, 1)
				if own < len(g) {
					run.Count("combine_observed:"+cl, 1)
					continue
				}
				notCombinedMu.Lock()
				if notCombinedSample[cl] == nil {
					var ds []string
					for _, c := range g {
						ds = append(ds, c.describe())
					}
					notCombinedSample[cl] = map[string]interface{}{"case": i, "eligible_calls_on_" + k.table: ds, "selects_on_table_for_them": own, "batched_statements": stmts}
				}
				notCombinedMu.Unlock()
			}
		}
	}
	if combined {
		run.Count("rounds_combined", 1)
	} else {
		run.Count("rounds_vacuous_not_combined", 1)
	}
	run.Count("calls", len(calls))
	run.Count("batched_selects", selects)
	run.Count("protocol:"+proto, 1)
	if faultRound {
		run.Count("rounds_with_broken_result_stream", 1)
		if faultFired {
			run.Count("rounds_with_broken_result_stream:fired", 1)
		}
		for k := range stmts {
			stmts[k] += fmt.Sprintf("  [result stream fails with %v after %d rows]", faultErr, faultAfter)
		}
	}

	shapes := make([]string, len(calls))
	for k, c := range calls {
		shapes[k] = c.shape()
		for col, rp := range c.reps {
			run.Count("filter_value:"+col+":"+rp.name, 1)
		}
		if len(c.filter) == 0 {
			run.Count("filter_empty", 1)
		}
		run.Count("call_through_handle:"+c.view.kind, 1)
		if c.view.pnoi {
			run.Count("call_through_handle:panic-on-no-index", 1)
		}
	}
	sort.Strings(shapes)
	run.Case(fmt.Sprintf("handles=%d;", nHandles)+strings.Join(shapes, ";"), combined && len(calls) >= 2)

	witness := func(c *qcall, what string) map[string]interface{} {
		var all []string
		for _, o := range calls {
			all = append(all, o.describe())
		}
		var tbl []string
		items, labels := handles[c.h].items, handles[c.h].labels
		if c.table == "items" {
			for k, it := range items {
				cp := *it
				cp.Id = int64(k + 1)
				tbl = append(tbl, rowString(&cp))
			}
		} else {
			for _, l := range labels {
				tbl = append(tbl, rowString(l))
			}
		}
		ge, re := "nil", "nil"
		if c.gotErr != nil {
			ge = c.gotErr.Error()
		}
		if c.refErr != nil {
			re = c.refErr.Error()
		}
		return map[string]interface{}{
			"what": what, "case": i, "call": c.describe(), "concurrent_calls": all,
			"unbatched_keys": c.refKeys, "unbatched_error": re, "batched_keys": c.gotKeys, "batched_error": ge,
			"batched_statements": stmts, "table_rows": tbl, "protocol": proto,
		}
	}
	allOf := func(c *qcall) map[string]interface{} {
		m := map[string]interface{}{}
		prefix := fmt.Sprintf("%d/%s/", c.h, c.table)
		if c.tx {
			prefix = fmt.Sprintf("tx/%s/", c.table)
		}
		for k, v := range all {
			if strings.HasPrefix(k, prefix) {
				m[strings.TrimPrefix(k, prefix)] = v
			}
		}
		return m
	}
	for _, c := range calls {
		if faultRound && c.gotErr != nil && c.gotErr != sql.ErrNoRows {
			// the stream broke and the call says so: fine. What must never
			// happen is a nil error (or ErrNoRows) with a different row set.
			run.Count("broken_stream:error_returned", 1)
			continue
		}
		if c.limit > 0 {
			// no ORDER BY: any `limit` of the matching rows are right
			want := len(c.refKeys)
			if want > c.limit {
				want = c.limit
			}
			ok := false
			switch {
			case c.row && want == 0:
				ok = c.gotErr == sql.ErrNoRows
			case c.row && want == 1:
				ok = c.gotErr == nil && len(c.gotKeys) == 1 && subset(c.gotKeys, c.refKeys)
			case c.row:
				ok = c.gotErr != nil && c.gotErr != sql.ErrNoRows
			default:
				ok = c.gotErr == nil && len(c.gotKeys) == want && subset(c.gotKeys, c.refKeys)
			}
			if ok {
				run.Count("agree:options:Limit", 1)
			} else {
				run.Count("mismatch:unclassified", 1)
				run.Violation(i, "", witness(c, fmt.Sprintf("a call with %s returns %d row(s) (err %v) where %d of the %d matching rows are due", c.optKind, len(c.gotKeys), c.gotErr, want, len(c.refKeys))))
			}
			continue
		}
		if c.row {
			c.gotClass = rowClass(c.gotKeys, c.gotErr)
			got := c.gotClass
			if got == "error" {
				got = "many" // an error other than ErrNoRows stands for "more than one row"
			}
			if got == c.refRowClass {
				if strings.HasPrefix(got, "one:") && !reflect.DeepEqual(c.gotRows[c.gotKeys[0]], c.refRows[c.refKeys[0]]) {
					run.Count("mismatch:row-content", 1)
					run.Violation(i, "", witness(c, "batched QueryRow returned a row with different content"))
				}
				run.Count("agree:QueryRow:"+strings.SplitN(got, ":", 2)[0], 1)
				continue
			}
			cls := ""
			if !strings.HasPrefix(c.gotClass, "ok-with") && c.optKind == "" {
				cls = classify(c, allOf(c), nil, got)
			}
			run.Count("mismatch:"+orUnclassified(cls), 1)
			run.Violation(i, cls, witness(c, fmt.Sprintf("QueryRow outcome differs under batching: alone %s, batched %s", c.refRowClass, c.gotClass)))
			continue
		}
		if c.gotErr != nil {
			run.Count("mismatch:error", 1)
			run.Violation(i, "", witness(c, "batched Query failed although it succeeds on its own"))
			continue
		}
		if len(c.gotKeys) == len(c.refKeys) && subset(c.gotKeys, c.refKeys) {
			same := true
			for _, k := range c.gotKeys {
				if !reflect.DeepEqual(c.gotRows[k], c.refRows[k]) {
					same = false
				}
			}
			if !same {
				run.Count("mismatch:row-content", 1)
				run.Violation(i, "", witness(c, "batched Query returned rows with different content"))
			}
			run.Count("agree:Query", 1)
			if len(c.refKeys) > 0 {
				run.Count("agree:Query:nonempty", 1)
			}
			continue
		}
		got := c.gotKeys
		if got == nil {
			got = []string{}
		}
		cls := ""
		if c.optKind == "" {
			cls = classify(c, allOf(c), got, "")
		}
		run.Count("mismatch:"+orUnclassified(cls), 1)
		run.Violation(i, cls, witness(c, "rows returned under batching differ from the rows returned on its own"))
	}
	if run.WantSample() && combined {
		var all []string
		for _, c := range calls {
			all = append(all, fmt.Sprintf("%s -> alone %v / batched %v", c.describe(), c.refKeys, c.gotKeys))
		}
		run.Sample(map[string]interface{}{"case": i, "calls": all, "batched_statements": stmts})
	}
}

func orUnclassified(c string) string {
	if c == "" {
		return "unclassified"
	}
	return c
}

func rowString(row interface{}) string {
	v := reflect.ValueOf(row).Elem()
	t := v.Type()
	var parts []string
	for i := 0; i < t.NumField(); i++ {
		parts = append(parts, t.Field(i).Name+"="+show(v.Field(i).Interface()))
	}
	return strings.Join(parts, " ")
}

// pinned runs the fixed reproducers of the recorded findings.
func pinned(run *vlib.Run) {
	type pin struct {
		class  string
		filter sqlgen.Filter
		what   string
	}
	nilp := (*int64)(nil)
	pins := []pin{
		{"batch-matcher-raw-go-values", sqlgen.Filter{"id": int(1)}, "Filter{id: int(1)} on an int64 column"},
		{"batch-matcher-raw-go-values", sqlgen.Filter{"at": times[0].In(zone)}, "Filter{at: <same instant in +05:30>} on a time.Time column"},
		{"batch-null-filter-not-is-null", sqlgen.Filter{"opt": nil}, "Filter{opt: nil} on a *int64 column holding NULL"},
		{"batch-null-filter-not-is-null", sqlgen.Filter{"opt": nilp, "grp": int64(0)}, "Filter{opt: (*int64)(nil), grp: int64(0)}"},
	}
	for k, p := range pins {
		eng := fakesql.New("", "verifdb")
		schema := newSchema()
		if err := eng.CreateSchemaTables(schema); err != nil {
			run.Broken("pinned: " + err.Error())
			return
		}
		conn := eng.Open()
		db := sqlgen.NewDB(conn, schema)
		bg := context.Background()
		if err := db.InsertRows(bg, []*Item{{At: times[0]}, {Opt: p64(3), At: times[1]}}, 10); err != nil {
			run.Broken("pinned: " + err.Error())
		}
		var alone, batched []*Item
		err1 := db.Query(bg, &alone, p.filter, nil)
		mark := eng.Mark("batched")
		err2 := db.Query(batch.WithBatching(bg), &batched, p.filter, nil)
		run.Case(fmt.Sprintf("pinned|%d", k), true)
		if err1 != nil || len(alone) != 1 {
			run.Broken(fmt.Sprintf("pinned %s: unbatched query returned %d rows, err %v", p.what, len(alone), err1))
		} else if err2 != nil || len(batched) != 1 {
			var stmts []string
			for _, st := range eng.LogSince(mark) {
				stmts = append(stmts, st.Summary())
			}
			run.Violation(-1, p.class, map[string]interface{}{
				"what":               "pinned reproducer: " + p.what + " returns 1 row on its own and " + fmt.Sprint(len(batched)) + " rows under batch.WithBatching",
				"batched_error":      fmt.Sprint(err2),
				"batched_statements": stmts,
			})
		}
		conn.Close()
		eng.Dispose()
	}
}

func TestCheck(t *testing.T) {
	run := vlib.Start(t, "C10", "exploration")
	defer run.Finish()
	run.Rule("round = fresh fake-SQL engine (text or binary protocol, insertion or shuffled row order) with table items (4-17 rows; int64/int32/named-int/string/named-string/*int64/*string/[]byte/bool/time/implicitnull columns, small value domains, NULLs) and labels (string key); " +
		"2-8 calls Query/QueryRow with filters over 0-3 columns (nil and empty filters, equal filters from different callers, different column sets, two tables) whose values are written as the field type, other int widths, named types, pointers, nil / typed nil pointers, []byte vs string, times in another zone; " +
		"each call runs alone without batching (reference), then all run concurrently on one batch.WithBatching context; rows compared as sets keyed by primary key plus content, QueryRow by outcome (row / sql.ErrNoRows / more-than-one, the latter recognised through an unbatched Query, not the error text). " +
		"Handles: callers reach an engine through the NewDB handle or (a third of the rounds) through 1-3 handles derived from it - WithShardLimit(grp=g), WithDynamicLimit (refusing or continuing), both - with WithPanicOnNoIndex on all, one or none of them; sibling handles with different limits and the base handle are used concurrently in one batching context (filters through a limited handle carry its limit), or every call goes through one derived handle. " +
		"Combination: per class of calls (operation, table, handle configuration, protocol, engines) the groups of >= 2 eligible concurrent calls on one table are counted and how many of them reached the driver as fewer SELECTs than calls; a class with >= 20 such opportunities and none combined, while the other calls of the run were combined in at least half of theirs, violates 'are combined into fewer SELECT statements'. " +
		"Evaluation = one round; non-trivial = the statement log shows fewer SELECTs than calls; distinct = multiset of (op, table, column=representation, handle configuration) of the round.")
	run.Assume("fakesql evaluates WHERE like MySQL for the argument forms sqlgen sends (three-valued logic, numeric comparison of ints, bytewise strings, DATETIME(6) in UTC); unbatched thunder against it is the reference")
	run.Assume("fakesql compares strings bytewise (binary collation, no PAD SPACE) and serialises writers with one engine-wide lock (READ COMMITTED for plain SELECTs)")
	run.Assume("filters are restricted to values the unbatched path accepts (no stringly numbers, no sub-microsecond times)")
	run.Assume("fakesql answers EXPLAIN SELECT with a plan that names the primary key, so WithPanicOnNoIndex never panics; EXPLAIN statements are not counted as SELECTs")
	run.Assume("whether concurrent calls share a SELECT depends on the batcher's timers: no verdict on a single round, only on a class of calls that is never combined in >= 20 opportunities of a run whose other calls are")
	pinned(run)
	n := run.N(3000, 600000)
	run.Each(n, 8, func(i int) { runRound(run, i) })
	if _, only := run.Only(); !only {
		combineVerdicts(run)
	}
	if _, only := run.Only(); !only && run.Counter("rounds_combined") == 0 {
		run.Inconclusive("no round combined calls into fewer SELECTs: batching was never observed")
		run.Broken("all rounds vacuous")
	}
}
