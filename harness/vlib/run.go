// Package vlib is the shared plumbing of the runtime-monitoring harness:
// seeded case lists, evidence/replay/known-finding bookkeeping, the yield-hook
// controller, the stuck-vs-slow classifier and the goroutine-leak monitor.
package vlib

import (
	"crypto/sha256"
	"encoding/binary"
	"encoding/hex"
	"encoding/json"
	"fmt"
	"math/rand"
	"os"
	"path/filepath"
	"sort"
	"strconv"
	"sync"
	"sync/atomic"
	"testing"
	"time"
)

// Run is one execution of one property check. All methods are safe for
// concurrent use.
type Run struct {
	T     *testing.T
	Prop  string
	Level string

	seed   int64
	tier   string
	shard  int
	shards int
	only   int // -1 = all cases

	evidencePath string
	replayDir    string
	known        []knownFinding

	start time.Time

	mu           sync.Mutex
	evaluations  int64
	hashes       map[string]struct{}
	samples      []interface{}
	maxSamples   int
	counters     map[string]int64
	extra        map[string]interface{}
	assumptions  []string
	rule         string
	inconclusive []string
	violations   int
	violationSeq int
	knownHit     map[string]string
	printedViol  int
	broken       []string
	classPrinted map[string]int
}

type knownFinding struct {
	Property string `json:"property"`
	Key      string `json:"key"`
	Status   string `json:"status"`
	Commit   string `json:"commit,omitempty"`
	What     string `json:"what"`
}

func envInt(name string, def int64) int64 {
	if s := os.Getenv(name); s != "" {
		if v, err := strconv.ParseInt(s, 10, 64); err == nil {
			return v
		}
	}
	return def
}

// Start begins a run. level is the evidence level ("exploration" or
// "fault_enumeration").
func Start(t *testing.T, prop, level string) *Run {
	r := &Run{
		T: t, Prop: prop, Level: level,
		seed:       envInt("VERIF_SEED", 1),
		tier:       os.Getenv("VERIF_TIER"),
		shard:      int(envInt("VERIF_SHARD", 0)),
		shards:     int(envInt("VERIF_SHARDS", 1)),
		only:       int(envInt("VERIF_ONLY_CASE", -1)),
		start:      time.Now(),
		hashes:     map[string]struct{}{},
		counters:   map[string]int64{},
		extra:      map[string]interface{}{},
		knownHit:   map[string]string{},
		maxSamples: 6,
	}
	if r.tier != "thorough" {
		r.tier = "quick"
	}
	if r.shards < 1 {
		r.shards = 1
	}
	root := os.Getenv("VERIF_ROOT")
	if root == "" {
		root = "/verif"
	}
	r.evidencePath = os.Getenv("VERIF_EVIDENCE")
	if r.evidencePath == "" {
		r.evidencePath = filepath.Join(root, "evidence", prop+".json")
	}
	r.replayDir = os.Getenv("VERIF_REPLAY_DIR")
	if r.replayDir == "" {
		r.replayDir = filepath.Join(root, "replay")
	}
	kf := os.Getenv("VERIF_KNOWN")
	if kf == "" {
		kf = filepath.Join(root, "known_findings.json")
	}
	if b, err := os.ReadFile(kf); err == nil {
		var doc struct {
			Findings []knownFinding `json:"findings"`
		}
		if err := json.Unmarshal(b, &doc); err != nil {
			r.Broken("known_findings.json unreadable: " + err.Error())
		}
		r.known = doc.Findings
	}
	return r
}

func (r *Run) Seed() int64    { return r.seed }
func (r *Run) Tier() string   { return r.tier }
func (r *Run) Thorough() bool { return r.tier == "thorough" }

// N picks the case count for the tier.
func (r *Run) N(quick, thorough int) int {
	if r.Thorough() {
		return thorough
	}
	return quick
}

// Rand returns a PRNG that is a pure function of (VERIF_SEED, stream, i).
func (r *Run) Rand(stream string, i int) *rand.Rand {
	h := sha256.New()
	var b [16]byte
	binary.LittleEndian.PutUint64(b[:8], uint64(r.seed))
	binary.LittleEndian.PutUint64(b[8:], uint64(i))
	h.Write(b[:])
	h.Write([]byte(r.Prop))
	h.Write([]byte{0})
	h.Write([]byte(stream))
	s := h.Sum(nil)
	return rand.New(rand.NewSource(int64(binary.LittleEndian.Uint64(s[:8]))))
}

// Only reports the single case index requested by a replay, if any.
func (r *Run) Only() (int, bool) { return r.only, r.only >= 0 }

// Each runs f(i) for every case index i in [0,n) that belongs to this shard
// (or only the replayed one), with up to par goroutines.
func (r *Run) Each(n, par int, f func(i int)) {
	if par < 1 {
		par = 1
	}
	var idx []int
	for i := 0; i < n; i++ {
		if r.only >= 0 {
			if i == r.only {
				idx = append(idx, i)
			}
			continue
		}
		if i%r.shards == r.shard {
			idx = append(idx, i)
		}
	}
	if r.only >= 0 {
		rep := int(envInt("VERIF_REPEAT", 1))
		for k := 0; k < rep; k++ {
			for _, i := range idx {
				f(i)
			}
		}
		return
	}
	if par == 1 {
		for _, i := range idx {
			f(i)
		}
		return
	}
	var next int64 = -1
	var wg sync.WaitGroup
	for w := 0; w < par; w++ {
		wg.Add(1)
		go func() {
			defer wg.Done()
			for {
				k := int(atomic.AddInt64(&next, 1))
				if k >= len(idx) {
					return
				}
				f(idx[k])
			}
		}()
	}
	wg.Wait()
}

// Case records one evaluated case. shape identifies the case up to
// "distinctness"; nontrivial says whether it meets the property's rule.
func (r *Run) Case(shape string, nontrivial bool) {
	var key string
	if nontrivial {
		s := sha256.Sum256([]byte(shape))
		key = hex.EncodeToString(s[:8])
	}
	r.mu.Lock()
	r.evaluations++
	if nontrivial {
		r.hashes[key] = struct{}{}
	}
	r.mu.Unlock()
}

// Sample keeps v as one of the written-out samples (first few only).
func (r *Run) Sample(v interface{}) {
	r.mu.Lock()
	if len(r.samples) < r.maxSamples {
		r.samples = append(r.samples, v)
	}
	r.mu.Unlock()
}

// WantSample is true while more samples are wanted.
func (r *Run) WantSample() bool {
	r.mu.Lock()
	defer r.mu.Unlock()
	return len(r.samples) < r.maxSamples
}

// Count adds to a named counter reported under coverage.counters.
func (r *Run) Count(key string, delta int) {
	r.mu.Lock()
	r.counters[key] += int64(delta)
	r.mu.Unlock()
}

func (r *Run) Counter(key string) int64 {
	r.mu.Lock()
	defer r.mu.Unlock()
	return r.counters[key]
}

// Set stores an extra coverage key.
func (r *Run) Set(key string, v interface{}) {
	r.mu.Lock()
	r.extra[key] = v
	r.mu.Unlock()
}

func (r *Run) Rule(s string) { r.mu.Lock(); r.rule = s; r.mu.Unlock() }
func (r *Run) Assume(s string) {
	r.mu.Lock()
	r.assumptions = append(r.assumptions, s)
	r.mu.Unlock()
}

// Inconclusive records something that could not be decided. It is neither a
// violation nor counted as held.
func (r *Run) Inconclusive(what string) {
	r.mu.Lock()
	if len(r.inconclusive) < 50 {
		r.inconclusive = append(r.inconclusive, what)
	}
	r.counters["inconclusive"]++
	r.mu.Unlock()
	fmt.Printf("INCONCLUSIVE property=%s %s\n", r.Prop, what)
}

// Broken records that the machinery itself failed (not a property verdict).
func (r *Run) Broken(what string) {
	r.mu.Lock()
	r.broken = append(r.broken, what)
	r.mu.Unlock()
	fmt.Printf("VERIF-BROKEN property=%s %s\n", r.Prop, what)
}

// Violation records a witnessed refutation. class is the name of the
// classifier that recognised the witness ("" when none did); a class listed
// as "known" in known_findings.json is reported as KNOWN-FINDING instead.
func (r *Run) Violation(caseIdx int, class string, witness interface{}) {
	r.mu.Lock()
	defer r.mu.Unlock()
	if class != "" {
		for _, k := range r.known {
			if k.Property == r.Prop && k.Key == class && k.Status == "known" {
				if _, ok := r.knownHit[class]; !ok {
					r.knownHit[class] = k.What
				}
				r.counters["known_finding_hits:"+class]++
				return
			}
		}
	}
	r.violations++
	r.counters["violation_class:"+class]++
	if r.classPrinted == nil {
		r.classPrinted = map[string]int{}
	}
	r.classPrinted[class]++
	if r.printedViol >= int(envInt("VERIF_MAX_REPLAYS", 40)) || r.classPrinted[class] > int(envInt("VERIF_MAX_PER_CLASS", 3)) {
		return
	}
	r.printedViol++
	r.violationSeq++
	_ = os.MkdirAll(r.replayDir, 0o755)
	pkg := os.Getenv("VERIF_PKG")
	if pkg != "" {
		pkg = "-" + pkg
	}
	name := fmt.Sprintf("%s%s-%d-%s-s%d-%d.json", r.Prop, pkg, r.seed, r.tier, r.shard, r.violationSeq)
	path := filepath.Join(r.replayDir, name)
	doc := map[string]interface{}{
		"property": r.Prop, "seed": r.seed, "tier": r.tier, "case": caseIdx,
		"class": class, "witness": witness, "pkg": os.Getenv("VERIF_PKG"),
	}
	b, err := json.MarshalIndent(doc, "", " ")
	if err != nil {
		b, _ = json.MarshalIndent(map[string]interface{}{
			"property": r.Prop, "seed": r.seed, "tier": r.tier, "case": caseIdx,
			"class": class, "witness": fmt.Sprintf("%+v", witness),
		}, "", " ")
	}
	_ = os.WriteFile(path, b, 0o644)
	fmt.Printf("VIOLATION property=%s replay=%s\n", r.Prop, path)
}

func (r *Run) Violations() int {
	r.mu.Lock()
	defer r.mu.Unlock()
	return r.violations
}

// Finish writes the evidence file and fails the test on violations or on a
// run that observed nothing.
func (r *Run) Finish() {
	r.mu.Lock()
	defer r.mu.Unlock()
	classes := make([]string, 0, len(r.knownHit))
	for c := range r.knownHit {
		classes = append(classes, c)
	}
	sort.Strings(classes)
	for _, c := range classes {
		fmt.Printf("KNOWN-FINDING: property=%s %s: %s\n", r.Prop, c, r.knownHit[c])
	}
	cov := map[string]interface{}{}
	for k, v := range r.extra {
		cov[k] = v
	}
	cov["evaluations"] = r.evaluations
	cov["distinct_nontrivial"] = len(r.hashes)
	cov["rule"] = r.rule
	samples := r.samples
	if samples == nil {
		samples = []interface{}{}
	}
	cov["samples"] = samples
	cov["counters"] = r.counters
	cov["inconclusive"] = r.inconclusive
	cov["known_findings_observed"] = classes
	ev := map[string]interface{}{
		"property_id": r.Prop,
		"tier":        r.tier,
		"seed":        r.seed,
		"level":       r.Level,
		"coverage":    cov,
		"assumptions": r.assumptions,
		"wall_s":      time.Since(r.start).Seconds(),
		"violations":  r.violations,
	}
	if ev["assumptions"] == nil {
		ev["assumptions"] = []string{}
	}
	path := r.evidencePath
	if os.Getenv("VERIF_EVIDENCE") != "" {
		// the driver merges parts (shards / packages) and strips _hashes
		hs := make([]string, 0, len(r.hashes))
		for h := range r.hashes {
			hs = append(hs, h)
		}
		sort.Strings(hs)
		ev["_hashes"] = hs
	}
	if r.only < 0 {
		_ = os.MkdirAll(filepath.Dir(path), 0o755)
		b, err := json.MarshalIndent(ev, "", " ")
		if err != nil {
			fmt.Printf("VERIF-BROKEN property=%s evidence not serialisable: %v\n", r.Prop, err)
			r.T.Fail()
		} else if err := os.WriteFile(path, b, 0o644); err != nil {
			fmt.Printf("VERIF-BROKEN property=%s cannot write evidence: %v\n", r.Prop, err)
			r.T.Fail()
		}
	}
	fmt.Printf("SUMMARY property=%s tier=%s seed=%d shard=%d/%d evaluations=%d distinct_nontrivial=%d violations=%d inconclusive=%d known=%d wall=%.1fs\n",
		r.Prop, r.tier, r.seed, r.shard, r.shards, r.evaluations, len(r.hashes), r.violations, len(r.inconclusive), len(classes), time.Since(r.start).Seconds())
	if r.violations > 0 {
		r.T.Fail()
	}
	if len(r.broken) > 0 {
		r.T.Fail()
	}
	if r.only < 0 && r.violations == 0 && (r.evaluations == 0 || (os.Getenv("VERIF_EVIDENCE") == "" && len(r.hashes) < 2)) {
		fmt.Printf("VERIF-BROKEN property=%s run observed nothing non-trivial (evaluations=%d distinct=%d)\n", r.Prop, r.evaluations, len(r.hashes))
		r.T.Fail()
	}
}
