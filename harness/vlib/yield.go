//go:build verif

package vlib

import (
	"hash/fnv"
	"runtime"
	"sort"
	"sync"
	"sync/atomic"
	"time"

	"github.com/samsarahq/thunder/internal/verifhook"
)

// Injection starts Act in its own goroutine when the Visit-th (1-based) visit
// to Point happens, and holds the visiting goroutine there until some
// goroutine visits Until after that (or Act returned, when Until is ""), or
// Timeout passes. This gives "X lands exactly between A and B" orders where
// they are possible and degrades to a delay where they are not.
type Injection struct {
	Point   string
	Visit   int
	Act     func()
	Until   string
	Timeout time.Duration

	fired   int32
	release chan struct{}
	once    sync.Once
}

// Yielder is the handler behind thunder's verif hook points: seeded schedule
// perturbation, hit counting, trace hashing and targeted injection.
type Yielder struct {
	seed      uint64
	intensity uint64 // 0..100: percentage of visits that are perturbed
	maxSleep  time.Duration

	mu     sync.Mutex
	counts map[string]*int64
	trace  uint64
	events int64
	injs   []*Injection
	armed  []*Injection // fired injections waiting for their Until point
}

// NewYielder makes a yielder. intensity is the percentage (0..100) of hook
// visits at which the visitor is delayed.
func NewYielder(seed int64, intensity int) *Yielder {
	return &Yielder{seed: uint64(seed), intensity: uint64(intensity), maxSleep: 200 * time.Microsecond,
		counts: map[string]*int64{}, trace: 14695981039346656037}
}

// Install makes y the process-wide hook handler.
func (y *Yielder) Install() { verifhook.Set(y.handle) }

// Uninstall removes any handler.
func Uninstall() { verifhook.Set(nil) }

// Inject registers a targeted injection.
func (y *Yielder) Inject(in *Injection) {
	if in.Timeout == 0 {
		in.Timeout = 2 * time.Millisecond
	}
	in.release = make(chan struct{})
	y.mu.Lock()
	y.injs = append(y.injs, in)
	y.mu.Unlock()
}

// Fired reports whether the injection's point was reached.
func (in *Injection) Fired() bool { return atomic.LoadInt32(&in.fired) != 0 }

func splitmix(x uint64) uint64 {
	x += 0x9e3779b97f4a7c15
	x = (x ^ (x >> 30)) * 0xbf58476d1ce4e5b9
	x = (x ^ (x >> 27)) * 0x94d049bb133111eb
	return x ^ (x >> 31)
}

func (y *Yielder) handle(point string) {
	y.mu.Lock()
	c := y.counts[point]
	if c == nil {
		c = new(int64)
		y.counts[point] = c
	}
	*c++
	n := *c
	y.events++
	h := fnv.New64a()
	h.Write([]byte(point))
	y.trace = (y.trace ^ h.Sum64()) * 1099511628211
	var fire *Injection
	for _, in := range y.injs {
		if in.Point == point && in.Visit == int(n) && atomic.CompareAndSwapInt32(&in.fired, 0, 1) {
			fire = in
			break
		}
	}
	// release injections waiting for this point
	if len(y.armed) > 0 {
		keep := y.armed[:0]
		for _, in := range y.armed {
			if in.Until == point && in != fire {
				in.once.Do(func() { close(in.release) })
			} else {
				keep = append(keep, in)
			}
		}
		y.armed = keep
	}
	if fire != nil && fire.Until != "" {
		y.armed = append(y.armed, fire)
	}
	ph := h.Sum64()
	y.mu.Unlock()

	if fire != nil {
		done := make(chan struct{})
		go func() {
			defer close(done)
			fire.Act()
		}()
		t := time.NewTimer(fire.Timeout)
		if fire.Until == "" {
			select {
			case <-done:
			case <-t.C:
			}
		} else {
			select {
			case <-fire.release:
			case <-t.C:
			}
		}
		t.Stop()
		return
	}
	if y.intensity == 0 {
		return
	}
	r := splitmix(y.seed ^ ph ^ uint64(n)*0x2545f4914f6cdd1d)
	if r%100 >= y.intensity {
		return
	}
	r = splitmix(r)
	switch r % 4 {
	case 0, 1:
		for i := uint64(0); i <= (r>>8)%4; i++ {
			runtime.Gosched()
		}
	case 2:
		time.Sleep(time.Duration(1+(r>>8)%20) * time.Microsecond)
	default:
		time.Sleep(time.Duration(1+(r>>8)%uint64(y.maxSleep/time.Microsecond)) * time.Microsecond)
	}
}

// Events is the total number of hook visits (an activity counter).
func (y *Yielder) Events() int64 {
	y.mu.Lock()
	defer y.mu.Unlock()
	return y.events
}

// Hits returns the visit count per hook point.
func (y *Yielder) Hits() map[string]int64 {
	y.mu.Lock()
	defer y.mu.Unlock()
	out := make(map[string]int64, len(y.counts))
	for k, v := range y.counts {
		out[k] = *v
	}
	return out
}

// TraceHash identifies the order in which hook points were visited.
func (y *Yielder) TraceHash() uint64 {
	y.mu.Lock()
	defer y.mu.Unlock()
	return y.trace
}

// Points lists the hook points seen, sorted.
func (y *Yielder) Points() []string {
	y.mu.Lock()
	defer y.mu.Unlock()
	var ps []string
	for k := range y.counts {
		ps = append(ps, k)
	}
	sort.Strings(ps)
	return ps
}

// HitAgg accumulates hook hit counts and distinct trace hashes over many
// scenarios, for the evidence file.
type HitAgg struct {
	mu     sync.Mutex
	hits   map[string]int64
	traces map[uint64]struct{}
}

func NewHitAgg() *HitAgg { return &HitAgg{hits: map[string]int64{}, traces: map[uint64]struct{}{}} }

func (a *HitAgg) Add(y *Yielder) {
	h := y.Hits()
	t := y.TraceHash()
	a.mu.Lock()
	for k, v := range h {
		a.hits[k] += v
	}
	a.traces[t] = struct{}{}
	a.mu.Unlock()
}

func (a *HitAgg) Report(r *Run) {
	a.mu.Lock()
	defer a.mu.Unlock()
	hits := map[string]int64{}
	for k, v := range a.hits {
		hits[k] = v
	}
	r.Set("hook_hits", hits)
	r.Set("distinct_hook_traces", len(a.traces))
}
