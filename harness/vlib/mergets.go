package vlib

import (
	"fmt"
	"strconv"
)

// Undefined is JavaScript's undefined in the port of client/src/merge.ts.
type Undefined struct{}

// MergeTS is a line-by-line Go port of client/src/merge.ts (the documented
// client for thunder's delta format). It works on JSON-form values
// (map[string]interface{}, []interface{}, float64, string, bool, nil).
// update is not modified (the TypeScript deletes update.$; the port skips it).
// Behaviour that would throw or produce holes/NaN indices in JavaScript is
// returned as an error.
func MergeTS(original, update interface{}) (interface{}, error) {
	if arr, ok := update.([]interface{}); ok {
		if len(arr) == 0 {
			return Undefined{}, nil
		}
		return arr[0], nil
	}
	m, ok := update.(map[string]interface{})
	if !ok {
		return update, nil // scalars and null
	}
	if orig, ok := original.([]interface{}); ok {
		merged := []interface{}{}
		at := func(i float64) interface{} {
			if i != float64(int(i)) || i < 0 || int(i) >= len(orig) {
				return Undefined{}
			}
			return orig[int(i)]
		}
		var seq []interface{}
		d, has := m["$"]
		truthy := has
		switch x := d.(type) {
		case nil:
			truthy = false
		case bool:
			truthy = x
		case float64:
			truthy = x != 0
		case string:
			truthy = x != ""
		}
		if truthy {
			s, ok := d.([]interface{})
			if !ok {
				return nil, fmt.Errorf("merge.ts: update.$ is not iterable: %v", d)
			}
			seq = s
		} else {
			seq = []interface{}{[]interface{}{float64(0), float64(len(orig))}}
		}
		for _, x := range seq {
			if run, ok := x.([]interface{}); ok {
				if len(run) < 2 {
					return nil, fmt.Errorf("merge.ts: run %v has no length", run)
				}
				s, ok1 := run[0].(float64)
				c, ok2 := run[1].(float64)
				if !ok1 || !ok2 {
					return nil, fmt.Errorf("merge.ts: non-numeric run %v", run)
				}
				for i := s; i < s+c; i++ {
					merged = append(merged, at(i))
				}
			} else {
				// `merged[x] === -1` in the original is never true for
				// values produced by Diff; original[x] is undefined for -1.
				f, ok := x.(float64)
				if !ok {
					return nil, fmt.Errorf("merge.ts: non-numeric index %v", x)
				}
				merged = append(merged, at(f))
			}
		}
		for key, val := range m {
			if key == "$" {
				continue
			}
			idx, err := strconv.Atoi(key)
			if err != nil || idx < 0 || idx >= len(merged) {
				return nil, fmt.Errorf("merge.ts: array delta key %q outside merged array of length %d", key, len(merged))
			}
			var o interface{} = merged[idx]
			nv, err := MergeTS(o, val)
			if err != nil {
				return nil, err
			}
			merged[idx] = nv
		}
		return merged, nil
	}
	merged := map[string]interface{}{}
	if om, ok := original.(map[string]interface{}); ok {
		for k, v := range om {
			merged[k] = v
		}
	}
	for key, value := range m {
		if arr, ok := value.([]interface{}); ok && len(arr) == 0 {
			delete(merged, key)
			continue
		}
		var o interface{} = Undefined{}
		if x, ok := merged[key]; ok {
			o = x
		}
		nv, err := MergeTS(o, value)
		if err != nil {
			return nil, err
		}
		merged[key] = nv
	}
	return merged, nil
}

// HasUndefined reports whether a merged value still contains undefined.
func HasUndefined(v interface{}) bool {
	switch v := v.(type) {
	case Undefined:
		return true
	case map[string]interface{}:
		for _, x := range v {
			if HasUndefined(x) {
				return true
			}
		}
	case []interface{}:
		for _, x := range v {
			if HasUndefined(x) {
				return true
			}
		}
	}
	return false
}
