package vlib

import (
	"bytes"
	"encoding/json"
	"fmt"
)

// ToJSONForm round-trips v through encoding/json (maps become
// map[string]interface{}, numbers float64, []byte base64 strings).
func ToJSONForm(v interface{}) (interface{}, error) {
	b, err := json.Marshal(v)
	if err != nil {
		return nil, err
	}
	var out interface{}
	dec := json.NewDecoder(bytes.NewReader(b))
	if err := dec.Decode(&out); err != nil {
		return nil, err
	}
	return out, nil
}

// Canon renders v as canonical JSON text (sorted object keys, normalised
// numbers). Values that cannot be serialised render as an error marker that
// never equals a proper value.
func Canon(v interface{}) string {
	j, err := ToJSONForm(v)
	if err != nil {
		return fmt.Sprintf("<<unserialisable: %v>>", err)
	}
	b, err := json.Marshal(j)
	if err != nil {
		return fmt.Sprintf("<<unserialisable: %v>>", err)
	}
	return string(b)
}

// DeepCopyJSON copies a tree of map[string]interface{} / []interface{} /
// []byte; other values are copied by assignment.
func DeepCopyJSON(v interface{}) interface{} {
	switch v := v.(type) {
	case map[string]interface{}:
		m := make(map[string]interface{}, len(v))
		for k, x := range v {
			m[k] = DeepCopyJSON(x)
		}
		return m
	case []interface{}:
		if v == nil {
			return v
		}
		a := make([]interface{}, len(v))
		for i, x := range v {
			a[i] = DeepCopyJSON(x)
		}
		return a
	case []byte:
		if v == nil {
			return v
		}
		return append([]byte{}, v...)
	default:
		return v
	}
}

// Trunc shortens s for evidence samples / witnesses.
func Trunc(s string, n int) string {
	if len(s) <= n {
		return s
	}
	return s[:n] + fmt.Sprintf("…(+%d bytes)", len(s)-n)
}
