package vlib

import (
	"bytes"
	"regexp"
	"runtime"
	"runtime/pprof"
	"strings"
	"sync/atomic"
	"time"
)

// Outcome of waiting for a logical condition.
type Outcome int

const (
	Reached      Outcome = iota // the condition became true
	QuiescentNot                // the system went quiet with the condition false: a verdict
	Undecided                   // still busy at the hard deadline: inconclusive
)

func (o Outcome) String() string {
	return [...]string{"reached", "quiescent-with-condition-false", "undecided"}[o]
}

// WaitCond polls cond until it holds. After soft it starts classifying: if
// activity() (a monotone counter of everything that moves: hook visits,
// compute entries, writes, statements ...) does not change over three samples
// 150 ms apart and cond is still false, the system is quiescent and wrong.
// If activity keeps moving until hard, the result is Undecided.
func WaitCond(cond func() bool, activity func() int64, soft, hard time.Duration) Outcome {
	start := time.Now()
	sleep := 50 * time.Microsecond
	for {
		if cond() {
			return Reached
		}
		el := time.Since(start)
		if el > soft {
			break
		}
		time.Sleep(sleep)
		if sleep < 2*time.Millisecond {
			sleep *= 2
		}
	}
	for time.Since(start) < hard {
		a0 := activity()
		stable := true
		// Unchanged counters are a wall-clock observation: on an overloaded
		// machine a goroutine can sit in a 100 µs sleep or in the run queue
		// for hundreds of milliseconds. A probe goroutine measures how late
		// short sleeps wake up during the window; a window in which the
		// scheduler was that late decides nothing.
		probeStop := make(chan struct{})
		var worstLag int64
		go func() {
			for {
				select {
				case <-probeStop:
					return
				default:
				}
				t0 := time.Now()
				time.Sleep(100 * time.Microsecond)
				if lag := int64(time.Since(t0)); lag > atomic.LoadInt64(&worstLag) {
					atomic.StoreInt64(&worstLag, lag)
				}
			}
		}()
		for k := 0; k < 3; k++ {
			t0 := time.Now()
			time.Sleep(150 * time.Millisecond)
			if lag := int64(time.Since(t0)) - int64(150*time.Millisecond); lag > atomic.LoadInt64(&worstLag) {
				atomic.StoreInt64(&worstLag, lag)
			}
			if cond() {
				close(probeStop)
				return Reached
			}
			if activity() != a0 {
				stable = false
				break
			}
		}
		close(probeStop)
		if stable && atomic.LoadInt64(&worstLag) > int64(25*time.Millisecond) {
			stable = false // scheduler too late to trust this window
		}
		if stable {
			if cond() {
				return Reached
			}
			if StrictGoroutineGuard && BusyGoroutines() > 0 {
				continue
			}
			return QuiescentNot
		}
	}
	if cond() {
		return Reached
	}
	return Undecided
}

// Stacks returns all goroutine stacks (debug=2 format).
func Stacks() string {
	buf := make([]byte, 1<<20)
	for {
		n := runtime.Stack(buf, true)
		if n < len(buf) {
			return string(buf[:n])
		}
		buf = make([]byte, 2*len(buf))
	}
}

var thunderFrame = regexp.MustCompile(`(?m)^github\.com/samsarahq/thunder/([a-z]+)`)

// ThunderGoroutines returns the stacks of goroutines that have at least one
// frame inside thunder (not the harness). Goroutines whose stack contains any
// of the ignore substrings are skipped.
func ThunderGoroutines(ignore ...string) []string {
	var out []string
	for _, g := range strings.Split(Stacks(), "\n\n") {
		ok := false
		for _, m := range thunderFrame.FindAllStringSubmatch(g, -1) {
			if m[1] != "verifharness" {
				ok = true
				break
			}
		}
		if !ok {
			continue
		}
		skip := false
		for _, ig := range ignore {
			if strings.Contains(g, ig) {
				skip = true
			}
		}
		if !skip {
			out = append(out, g)
		}
	}
	return out
}

// WaitNoThunderGoroutines polls until no goroutine with a thunder frame is
// left (other than ignored ones) and returns the leftovers after the last
// poll. polls * 5 ms is the settle budget.
func WaitNoThunderGoroutines(polls int, ignore ...string) []string {
	var left []string
	for i := 0; i < polls; i++ {
		left = ThunderGoroutines(ignore...)
		if len(left) == 0 {
			return nil
		}
		time.Sleep(5 * time.Millisecond)
	}
	return left
}

// GoroutineCount returns the number of goroutines per pprof.
func GoroutineCount() int {
	var b bytes.Buffer
	_ = pprof.Lookup("goroutine").WriteTo(&b, 0)
	return runtime.NumGoroutine()
}

var goroutineHeader = regexp.MustCompile(`^goroutine \d+ \[([^\],:]+)`)

// StrictGoroutineGuard, when set by a check that runs one scenario at a time
// per process, additionally requires that no goroutine with a thunder or
// harness frame is running, runnable or sleeping before a quiescent verdict.
var StrictGoroutineGuard = false

// BusyGoroutines counts goroutines (other than the caller of WaitCond) that
// have a thunder or harness frame and are not parked on a channel, lock,
// condition variable or timer-less wait: states running, runnable, sleep,
// syscall. A parked system has none.
func BusyGoroutines() int {
	n := 0
	for _, g := range strings.Split(Stacks(), "\n\n") {
		if !strings.Contains(g, "samsarahq/thunder") {
			continue
		}
		if strings.Contains(g, "vlib.BusyGoroutines") {
			continue
		}
		m := goroutineHeader.FindStringSubmatch(g)
		if m == nil {
			continue
		}
		switch strings.TrimSpace(m[1]) {
		case "running", "runnable", "sleep", "syscall":
			n++
		}
	}
	return n
}

// BusyThunderGoroutines counts goroutines that have a frame inside thunder
// itself (not only the harness) and are running, runnable, sleeping or in a
// system call. Harness goroutines that merely wait for thunder (pollers,
// WaitCond callers) have no such frame and are not counted.
func BusyThunderGoroutines() int {
	n := 0
	for _, g := range ThunderGoroutines() {
		m := goroutineHeader.FindStringSubmatch(g)
		if m == nil {
			continue
		}
		switch strings.TrimSpace(m[1]) {
		case "running", "runnable", "sleep", "syscall":
			n++
		}
	}
	return n
}

// AwaitOrParked waits for done. After soft it starts asking whether the
// process is parked: three consecutive samples, 200 ms apart, in which done is
// false, activity() is unchanged and no goroutine with a thunder frame is busy,
// taken while the scheduler was not lagging. Then it returns QuiescentNot: the
// awaited call can no longer make progress. If that never happens before hard,
// the call is slow, not stuck: Undecided.
func AwaitOrParked(done func() bool, activity func() int64, soft, hard time.Duration) Outcome {
	start := time.Now()
	sleep := 100 * time.Microsecond
	for time.Since(start) < soft {
		if done() {
			return Reached
		}
		time.Sleep(sleep)
		if sleep < 5*time.Millisecond {
			sleep *= 2
		}
	}
	clean := 0
	last := activity()
	for time.Since(start) < hard {
		if done() {
			return Reached
		}
		t0 := time.Now()
		time.Sleep(200 * time.Millisecond)
		lag := time.Since(t0) - 200*time.Millisecond
		a := activity()
		if a != last || lag > 25*time.Millisecond || BusyThunderGoroutines() > 0 {
			clean, last = 0, a
			continue
		}
		clean++
		if clean >= 3 {
			if done() {
				return Reached
			}
			return QuiescentNot
		}
	}
	if done() {
		return Reached
	}
	return Undecided
}
