package vlib

import (
	"bytes"
	"regexp"
	"runtime"
	"runtime/pprof"
	"strings"
	"time"
)

// Outcome of waiting for a logical condition.
type Outcome int

const (
	Reached      Outcome = iota // the condition became true
	QuiescentNot                // the system went quiet with the condition false: a verdict
	Undecided                   // still busy at the hard deadline: inconclusive
)

func (o Outcome) String() string {
	return [...]string{"reached", "quiescent-with-condition-false", "undecided"}[o]
}

// WaitCond polls cond until it holds. After soft it starts classifying: if
// activity() (a monotone counter of everything that moves: hook visits,
// compute entries, writes, statements ...) does not change over three samples
// 150 ms apart and cond is still false, the system is quiescent and wrong.
// If activity keeps moving until hard, the result is Undecided.
func WaitCond(cond func() bool, activity func() int64, soft, hard time.Duration) Outcome {
	start := time.Now()
	sleep := 50 * time.Microsecond
	for {
		if cond() {
			return Reached
		}
		el := time.Since(start)
		if el > soft {
			break
		}
		time.Sleep(sleep)
		if sleep < 2*time.Millisecond {
			sleep *= 2
		}
	}
	for time.Since(start) < hard {
		a0 := activity()
		stable := true
		for k := 0; k < 3; k++ {
			time.Sleep(150 * time.Millisecond)
			if cond() {
				return Reached
			}
			if activity() != a0 {
				stable = false
				break
			}
		}
		if stable {
			if cond() {
				return Reached
			}
			return QuiescentNot
		}
	}
	if cond() {
		return Reached
	}
	return Undecided
}

// Stacks returns all goroutine stacks (debug=2 format).
func Stacks() string {
	buf := make([]byte, 1<<20)
	for {
		n := runtime.Stack(buf, true)
		if n < len(buf) {
			return string(buf[:n])
		}
		buf = make([]byte, 2*len(buf))
	}
}

var thunderFrame = regexp.MustCompile(`(?m)^github\.com/samsarahq/thunder/([a-z]+)`)

// ThunderGoroutines returns the stacks of goroutines that have at least one
// frame inside thunder (not the harness). Goroutines whose stack contains any
// of the ignore substrings are skipped.
func ThunderGoroutines(ignore ...string) []string {
	var out []string
	for _, g := range strings.Split(Stacks(), "\n\n") {
		ok := false
		for _, m := range thunderFrame.FindAllStringSubmatch(g, -1) {
			if m[1] != "verifharness" {
				ok = true
				break
			}
		}
		if !ok {
			continue
		}
		skip := false
		for _, ig := range ignore {
			if strings.Contains(g, ig) {
				skip = true
			}
		}
		if !skip {
			out = append(out, g)
		}
	}
	return out
}

// WaitNoThunderGoroutines polls until no goroutine with a thunder frame is
// left (other than ignored ones) and returns the leftovers after the last
// poll. polls * 5 ms is the settle budget.
func WaitNoThunderGoroutines(polls int, ignore ...string) []string {
	var left []string
	for i := 0; i < polls; i++ {
		left = ThunderGoroutines(ignore...)
		if len(left) == 0 {
			return nil
		}
		time.Sleep(5 * time.Millisecond)
	}
	return left
}

// GoroutineCount returns the number of goroutines per pprof.
func GoroutineCount() int {
	var b bytes.Buffer
	_ = pprof.Lookup("goroutine").WriteTo(&b, 0)
	return runtime.NumGoroutine()
}
