//go:build verif

// Package c04 monitors property C04: no lost invalidation (a stale computation
// is always re-run), runs of one rerunner never overlap, and once Stop returns
// no run is in progress and none ever starts.
package c04

import (
	"fmt"
	"strings"
	"testing"

	"github.com/samsarahq/thunder/verifharness/reactx"
	"github.com/samsarahq/thunder/verifharness/vlib"
)

var actions = []string{reactx.WInvalidate, reactx.WStrobe, "stop", reactx.WDouble, "restrobe"}

// owned lists the finding kinds that are verdicts of C04.
var owned = map[string]bool{
	reactx.KOverlap: true, reactx.KRunAfterStop: true, reactx.KInflightStop: true,
	reactx.KStale: true, reactx.KLivelock: true, reactx.KInvalidDep: true,
}

func TestCheck(t *testing.T) {
	run := vlib.Start(t, "C04", "fault_enumeration")
	defer run.Finish()
	run.Rule("Two drivers over the real reactive package (reactive.WriteThenReadDelay seeded per scenario: 0 in ~40%, else 0.3-2 ms; minRerunInterval 200-1000us). " +
		"Cached children can hang off a 'switch' cell (used only while its version is odd), so cache keys drop out of a computation - the child is released while possibly still cached - and come back; the matrix base workload switches two such children off, changes their leaves and switches them on again. " +
		"Non-reactive readers (reactive.AddDependency with a context without rerunner) read shared cells concurrently with the rerunners, and some compute functions spawn a goroutine that outlives its run and calls AddDependency with the old context after the computation was superseded, failed or stopped (both are already-released dependants; before such a call the monitor notes whether the resource has a zero-holder moment, in which case thunder may legitimately release it). " +
		"Some optional cached children are requested, in early runs, through reactive.Cache with a derived context that is already cancelled or is cancelled a few microseconds into the call; the error is tolerated and later runs use the live context again. " +
		"When the delay is non-zero, Stops are aimed at the write-then-read delay of a re-run (write to a cell the rerunner reads, sleep part of the delay, Stop). " +
		"TARGETED: the complete matrix {19 reactive/rerunner/cache hook points} x {invalidate-of-a-read-cell, strobe, Stop, double invalidate, restrobe = [make rerunner 0 re-run and register the strobed cell afresh, wait for that run, bump + Strobe the same long-lived resource again; at reactive.strobe.snapshot this is aimed at the last strobe pass of the scenario]} x {visit 1..3} x {alwaysSpawnGoroutine false,true}: " +
		"the action is started at the k-th visit of the point and the visitor is held until the action's goroutine passed reactive.invalidate.unlocked / reactive.strobe.snapshot / rerunner.stop.cancelled (2 ms fallback); " +
		"base workload = 3 rerunners over 5 cells with cached children (depth 2, key shared by siblings), a conditional leaf, one planned RetrySentinelError, 6+ paced writes of both styles, one Stop half-way; a cell whose injection did not fire is retried with up to 2 more schedules. " +
		"RANDOM: 1-4 rerunners x 1-5 cells (shared), random plans (direct leaves, conditional leaves, cached children depth<=2, concurrent children), <=3 planned retries and at most one fatal error per rerunner, 1-3 writer goroutines issuing invalidate/strobe/double-invalidate writes, Stops, at seeded moments, yield intensity 30-60%. " +
		"STORM (high-contention leg for windows without a hook point): 4-12 rerunners, each reading cell 0 directly and through 0-10 concurrently evaluated cached children, equal minRerunInterval; a chain of 8-16 storm writes: readers that have picked the cell's current resource park at a harness gate in front of AddDependency, the write swaps the resource and calls Invalidate on the old one at the moment the gate opens (staggered wake-ups or a spin barrier, order varied); stat registrations_released_with_an_invalidate counts the overlapped registrations. " +
		"STOP-WITHOUT-COMPUTATION leg: a rerunner whose first 4-9 runs return RetrySentinelError (no successful computation yet), 3-12 goroutines hammering the public RerunImmediately (every retry wakes at once; run goroutines contend with the callers between their context check and r.mu), Stop at a seeded moment of that phase, optionally a second ordinary rerunner and a write afterwards. " +
		"About a quarter of the cells of random/matrix scenarios (and half of the storm scenarios) follow the fetch-then-register discipline instead: (version, resource) fetched as one pair, the fetched resource registered afterwards, writes always replace + Invalidate; random writers also call RerunImmediately. " +
		"PINNED-STOPS family (forced order, no luck involved): the 1st-3rd run of a rerunner parks inside the compute function at a harness gate (ignoring its context), Stop #1 is started and observed past the rerunner.stop.cancelled hook, 1-3 further Stops are called from other goroutines, then the run is released; both alwaysSpawnGoroutine modes; verdict by clause (ii): no Stop call may return while the run is still in progress. " +
		"Oracles: (i) in-flight count 0 at every compute entry; (ii) no entry after Stop returned, in-flight 0 when Stop returns; (iii) after the last write, within <=50 runs per rerunner and at quiescence the last successful run of every live rerunner read exactly the current version of every cell it read and did not register any cell resource on which Invalidate was called (the property's own wording: invalidated dependency => re-run). " +
		"Non-trivial = the injection fired (targeted) or at least one write landed while a compute function was running and >=2 successful runs happened (random); distinct = scenario shape + hook-visit trace hash.")
	run.Assume("harness cells follow the documented discipline: readers AddDependency and then read the version; writers bump the version and then Invalidate (replacing the resource) or Strobe")
	run.Assume("a resource thunder already released (Cleanup ran) is replaced by a fresh one at the next read, because release implies invalidation by design")
	run.Assume("hook points only delay goroutines or start public-API calls in separate goroutines; they never run harness actions synchronously under thunder locks")
	run.Assume("quiescence = no hook visit, compute entry, write, stop or cleanup during 3 samples 150 ms apart (vlib.WaitCond); still busy at the 6 s hard deadline = inconclusive")

	reactx.SetDelays(0)
	matrix := reactx.Matrix(reactx.Points, actions)
	M := len(matrix)
	variants := run.N(2, 100)
	nRandom := run.N(500, 120000)
	nStorm := run.N(280, 12000)
	nNoComp := run.N(300, 20000)
	nPinned := run.N(160, 8000)
	total := M*variants + nRandom + nStorm + nNoComp + nPinned
	agg := vlib.NewHitAgg()
	pf := reactx.Profile{}
	opt := reactx.Options{}
	fired := map[string]int64{}
	unfired := map[string]int64{}
	for _, p := range reactx.Points {
		fired[p] = 0
	}

	reached := map[string]int64{} // 1 = this shard visited the point at least once (summed over shards by the driver)
	for _, p := range reactx.Points {
		reached[p] = 0
	}
	report := func(i int, sc *reactx.Scenario, res *reactx.Result) {
		for p, n := range res.Hits {
			if n > 0 {
				reached[p] = 1
			}
		}
		for _, f := range res.Findings {
			if strings.HasPrefix(f.Kind, reactx.KUndecided) {
				run.Inconclusive(fmt.Sprintf("case %d: %s: %s", i, f.Kind, f.What))
				continue
			}
			if !owned[f.Kind] {
				run.Count("other_property_finding:"+f.Kind, 1)
				continue
			}
			run.Violation(i, "", map[string]interface{}{
				"kind": f.Kind, "what": f.What, "scenario": sc, "detail": f.Detail,
				"expected": "C04: stale computation re-run; runs never overlap; nothing runs after Stop returned",
			})
		}
		run.Count("runs_total", sum(res.Runs))
		run.Count("runs_ok", res.OKRuns)
		run.Count("writes_while_running", res.WritesWhile)
		for k, v := range res.Stats {
			run.Count("stat:"+k, v)
		}
		for _, rr := range sc.RRs {
			if rr.Spawn {
				run.Count("feature:alwaysSpawnGoroutine", 1)
			} else {
				run.Count("feature:inlineRerun", 1)
			}
		}
	}

	run.Each(total, 1, func(i int) {
		if _, replay := run.Only(); !replay && run.Violations() >= 6 {
			// a broken tree costs ~2 s of quiescence classification per
			// violating scenario; six witnesses per shard are enough
			run.Count("cases_skipped_after_6_violations", 1)
			return
		}
		if i < M*variants {
			cell := matrix[i%M]
			variant := i / M
			ok := false
			for attempt := 0; attempt < 3 && !ok; attempt++ {
				r := run.Rand(fmt.Sprintf("matrix.%d.%d", variant, attempt), i%M)
				sc := reactx.GenMatrix(r, cell, pf)
				fmt.Printf("CASE %d matrix %s variant=%d attempt=%d\n", i, cell, variant, attempt)
				res := reactx.Run(sc, opt, agg)
				ok = res.InjFired
				run.Case(fmt.Sprintf("%s|%x", sc.Shape(), res.Trace), res.InjFired)
				report(i, sc, res)
				if run.WantSample() && res.InjFired && i%97 == 0 {
					run.Sample(map[string]interface{}{"case": i, "scenario": sc, "runs": res.Runs, "hook_hits": res.Hits, "wall_ms": res.WallMS})
				}
			}
			if ok {
				fired[cell.Point]++
				run.Count("matrix_cells_fired", 1)
			} else {
				unfired[cell.String()]++
				run.Count("matrix_cells_never_fired", 1)
			}
			return
		}
		j := i - M*variants
		if j >= nRandom+nStorm+nNoComp {
			j -= nRandom + nStorm + nNoComp
			sc := reactx.GenPinnedStops(run.Rand("pinned", j))
			fmt.Printf("CASE %d pinned-stops %d\n", i, j)
			res := reactx.Run(sc, opt, agg)
			run.Case(fmt.Sprintf("%s|%x", sc.Shape(), res.Trace), res.Stats["pinned_stop_families"] > 0)
			report(i, sc, res)
			return
		}
		if j >= nRandom+nStorm {
			j -= nRandom + nStorm
			sc := reactx.GenNoComp(run.Rand("nocomp", j))
			fmt.Printf("CASE %d stop-without-computation %d\n", i, j)
			res := reactx.Run(sc, opt, agg)
			run.Case(fmt.Sprintf("%s|%x", sc.Shape(), res.Trace), res.Stats["runs_retry"] > 0)
			report(i, sc, res)
			return
		}
		if j >= nRandom {
			j -= nRandom
			sc := reactx.GenStorm(run.Rand("storm", j))
			fmt.Printf("CASE %d storm %d\n", i, j)
			res := reactx.Run(sc, opt, agg)
			run.Case(fmt.Sprintf("%s|%x", sc.Shape(), res.Trace), res.Stats["registrations_released_with_an_invalidate"] > 0)
			report(i, sc, res)
			return
		}
		r := run.Rand("random", j)
		sc := reactx.GenRandom(r, pf)
		fmt.Printf("CASE %d random %d\n", i, j)
		res := reactx.Run(sc, opt, agg)
		run.Case(fmt.Sprintf("%s|%x", sc.Shape(), res.Trace), res.WritesWhile > 0 && res.OKRuns >= 2)
		report(i, sc, res)
		if run.WantSample() && j%29 == 0 {
			run.Sample(map[string]interface{}{"case": i, "scenario": sc, "runs": res.Runs, "writes_while_running": res.WritesWhile, "wall_ms": res.WallMS})
		}
	})
	agg.Report(run)
	run.Set("matrix_size", fmt.Sprint(M))
	run.Set("hook_points_reached_in_n_shards", reached)
	run.Set("matrix_fired_by_point", fired)
	run.Set("matrix_cells_never_fired", unfired)
}

func sum(xs []int) int {
	s := 0
	for _, x := range xs {
		s += x
	}
	return s
}
