// Package c11 monitors property C11: thunder-managed pagination partitions
// the (filtered, sorted) list — pages are complete, ordered and disjoint, and
// totalCount / hasNextPage / hasPrevPage / startCursor / endCursor follow the
// rule of the property statement.
package c11

import (
	"context"
	"errors"
	"runtime"
	"strconv"
	"sync/atomic"
	"time"

	"github.com/samsarahq/thunder/batch"
	"github.com/samsarahq/thunder/graphql"
	"github.com/samsarahq/thunder/graphql/schemabuilder"
)

// Attr is the payload every list element carries: four sort values of the
// four supported sort kinds and three filter texts.
type Attr struct {
	N int64
	S string
	F float64
	U uint16
	B int64  // big: clusters above 2^53 whose members differ by less than the float64 spacing
	W uint64 // big: clusters above 2^53 / 2^63
	I int32  // contrast kinds
	V uint32
	G float32
	T [3]string
}

// ItemI is a list element with an int key, ItemS one with a string key.
type ItemI struct {
	Id         int64
	N          int64
	S          string
	F          float64
	U          uint16
	B          int64
	W          uint64
	I          int32
	V          uint32
	G          float32
	T0, T1, T2 string
}

type ItemS struct {
	Id         string
	N          int64
	S          string
	F          float64
	U          uint16
	B          int64
	W          uint64
	I          int32
	V          uint32
	G          float32
	T0, T1, T2 string
}

func (i ItemI) attr() Attr {
	return Attr{i.N, i.S, i.F, i.U, i.B, i.W, i.I, i.V, i.G, [3]string{i.T0, i.T1, i.T2}}
}
func (i ItemS) attr() Attr {
	return Attr{i.N, i.S, i.F, i.U, i.B, i.W, i.I, i.V, i.G, [3]string{i.T0, i.T1, i.T2}}
}

// Less common key types the builder accepts: time.Time (sub-second
// differences, several locations), uint64 (near the maximum), a named string
// type and a named int32 type.
type Code string
type Rank int32

type ItemT struct {
	Id         time.Time
	N          int64
	S          string
	F          float64
	U          uint16
	B          int64
	W          uint64
	I          int32
	V          uint32
	G          float32
	T0, T1, T2 string
}

type ItemU struct {
	Id         uint64
	N          int64
	S          string
	F          float64
	U          uint16
	B          int64
	W          uint64
	I          int32
	V          uint32
	G          float32
	T0, T1, T2 string
}

type ItemC struct {
	Id         Code
	N          int64
	S          string
	F          float64
	U          uint16
	B          int64
	W          uint64
	I          int32
	V          uint32
	G          float32
	T0, T1, T2 string
}

type ItemR struct {
	Id         Rank
	N          int64
	S          string
	F          float64
	U          uint16
	B          int64
	W          uint64
	I          int32
	V          uint32
	G          float32
	T0, T1, T2 string
}

func (i ItemT) attr() Attr {
	return Attr{i.N, i.S, i.F, i.U, i.B, i.W, i.I, i.V, i.G, [3]string{i.T0, i.T1, i.T2}}
}
func (i ItemU) attr() Attr {
	return Attr{i.N, i.S, i.F, i.U, i.B, i.W, i.I, i.V, i.G, [3]string{i.T0, i.T1, i.T2}}
}
func (i ItemC) attr() Attr {
	return Attr{i.N, i.S, i.F, i.U, i.B, i.W, i.I, i.V, i.G, [3]string{i.T0, i.T1, i.T2}}
}
func (i ItemR) attr() Attr {
	return Attr{i.N, i.S, i.F, i.U, i.B, i.W, i.I, i.V, i.G, [3]string{i.T0, i.T1, i.T2}}
}

// key is the element's identity as the monitor sees it in node.id of the
// JSON response (a time.Time is sent as RFC 3339 with nanoseconds).
func (i ItemT) key() string { return i.Id.Format(time.RFC3339Nano) }
func (i ItemU) key() string { return strconv.FormatUint(i.Id, 10) }
func (i ItemC) key() string { return string(i.Id) }
func (i ItemR) key() string { return strconv.FormatInt(int64(i.Id), 10) }

func (i ItemI) key() string { return strconv.FormatInt(i.Id, 10) }
func (i ItemS) key() string { return i.Id }

type item interface {
	ItemI | ItemS | ItemT | ItemU | ItemC | ItemR
	attr() Attr
	key() string
}

// implKind is the way a filter / sort field is implemented.
type implKind int

const (
	kPlain implKind = iota
	kExpensive
	kBatch
	kBatchFallback
)

var kindNames = []string{"plain", "exp", "batch", "bf"}

// call counters (evidence that each implementation path really ran)
const (
	cFilterPlain = iota
	cFilterExp
	cFilterBatch
	cFilterFallback
	cSortPlain
	cSortExp
	cSortBatch
	cSortFallback
	cResolver
	nCounters
)

var counterNames = []string{"filter_plain", "filter_expensive", "filter_batch", "filter_bf_fallback", "sort_plain", "sort_expensive", "sort_batch", "sort_bf_fallback", "list_resolver"}

// caseEnv travels in the context of every Execute call: the list the
// paginated resolvers return, the batch-with-fallback flags, call counters.
type caseEnv struct {
	itemsI []ItemI
	itemsS []ItemS
	// list of the connections with the less common key types ([]ItemT, []ItemU, []ItemC or []ItemR)
	itemsX interface{}
	// what the NumParallelInvocationsFunc option of every batch filter / sort
	// field answers (0 = option answers 1)
	parallel int
	// elements of the first half of the list: a batch invocation yields the
	// processor a few times per such element before it returns, so that — if
	// the nodes are ever split over several concurrent invocations — the
	// invocations holding later nodes tend to finish first. Read-only while a
	// query runs.
	slow map[string]bool
	// the batch-with-fallback flags: not necessarily constant (see flagSource)
	filterFlag flagSource
	sortFlag   flagSource
	// harness switch: while failID is non-empty every per-element filter func
	// (plain, Expensive, fallback) returns an error for the element with that
	// key; with failBatch the batch filter funcs do too. Only set between
	// executions of the owning case.
	failID    string
	failBatch bool
	calls     [nCounters]int64
}

// flagSource is a "use the batch function?" switch as an application would
// wire it to a rollout system: its answer may change from one evaluation to
// the next. Whatever it answers, batch function and fallback compute the same
// value, so the page must not depend on it.
type flagSource struct {
	mode  int   // flagConstTrue ...
	k     int64 // flagFlipOnce: number of evaluations before the answer flips
	seed  uint64
	evals int64 // atomic: evaluations so far (over the whole case)
}

const (
	flagConstTrue = iota
	flagConstFalse
	flagAlternateFromFalse // false, true, false, true ...
	flagAlternateFromTrue
	flagRandom          // pseudo-random per evaluation
	flagFlipOnceToTrue  // false for the first k evaluations of the case, then true
	flagFlipOnceToFalse // true for the first k evaluations, then false
	nFlagModes
)

var flagModeNames = []string{"const_true", "const_false", "alternate_from_false", "alternate_from_true", "random_per_call", "flip_once_to_true", "flip_once_to_false"}

func (f *flagSource) eval() bool {
	n := atomic.AddInt64(&f.evals, 1) - 1
	switch f.mode {
	case flagConstTrue:
		return true
	case flagConstFalse:
		return false
	case flagAlternateFromFalse:
		return n%2 == 1
	case flagAlternateFromTrue:
		return n%2 == 0
	case flagRandom:
		x := (uint64(n) + f.seed) * 0x9E3779B97F4A7C15
		x ^= x >> 29
		x *= 0xBF58476D1CE4E5B9
		return (x>>33)&1 == 1
	case flagFlipOnceToTrue:
		return n >= f.k
	default:
		return n < f.k
	}
}

// setConst makes the flag constant (used by the failing-query histories,
// which need a definite implementation for each of their two queries).
func (f *flagSource) setConst(v bool) {
	if v {
		f.mode = flagConstTrue
	} else {
		f.mode = flagConstFalse
	}
}

type envKey struct{}

func envOf(ctx context.Context) *caseEnv { return ctx.Value(envKey{}).(*caseEnv) }
func note(ctx context.Context, c int)    { atomic.AddInt64(&envOf(ctx).calls[c], 1) }

var errInjected = errors.New("c11: injected filter failure")

// parallelOpt is attached to every batch filter / sort field.
var parallelOpt = schemabuilder.NumParallelInvocationsFunc(func(ctx context.Context, numNodes int) int {
	if p := envOf(ctx).parallel; p > 0 {
		return p
	}
	return 1
})

// dawdle is called by a batch invocation with the number of "slow" elements
// it was handed. It only influences the order in which concurrent invocations
// finish; no verdict depends on it.
func dawdle(ctx context.Context, slowElems int) {
	if envOf(ctx).parallel <= 1 {
		return
	}
	n := 6 * slowElems
	if n > 48 {
		n = 48
	}
	for i := 0; i < n; i++ {
		runtime.Gosched()
	}
}

func failFor(ctx context.Context, key string) bool {
	e := envOf(ctx)
	return e.failID != "" && e.failID == key
}

// filterOpt registers filter field `name` reading text T[idx]. Filter funcs
// take *T (so value-node connections exercise thunder's copy-to-pointer path).
func filterOpt[T item](name string, idx int, kind implKind) schemabuilder.FieldFuncOption {
	plain := func(ctx context.Context, it *T) (string, error) {
		note(ctx, cFilterPlain)
		if failFor(ctx, (*it).key()) {
			return "", errInjected
		}
		return (*it).attr().T[idx], nil
	}
	exp := func(ctx context.Context, it *T) (string, error) {
		note(ctx, cFilterExp)
		if failFor(ctx, (*it).key()) {
			return "", errInjected
		}
		return (*it).attr().T[idx], nil
	}
	fallback := func(ctx context.Context, it *T) (string, error) {
		note(ctx, cFilterFallback)
		if failFor(ctx, (*it).key()) {
			return "", errInjected
		}
		return (*it).attr().T[idx], nil
	}
	batchFn := func(ctx context.Context, its map[batch.Index]*T) (map[batch.Index]string, error) {
		note(ctx, cFilterBatch)
		out := make(map[batch.Index]string, len(its))
		slow := 0
		for i, it := range its {
			if envOf(ctx).failBatch && failFor(ctx, (*it).key()) {
				return nil, errInjected
			}
			if envOf(ctx).slow[(*it).key()] {
				slow++
			}
			out[i] = (*it).attr().T[idx]
		}
		dawdle(ctx, slow)
		return out, nil
	}
	switch kind {
	case kPlain:
		return schemabuilder.FilterField(name, plain)
	case kExpensive:
		return schemabuilder.FilterField(name, exp, schemabuilder.Expensive)
	case kBatch:
		return schemabuilder.BatchFilterField(name, batchFn, parallelOpt)
	default:
		return schemabuilder.BatchFilterFieldWithFallback(name, batchFn, fallback,
			func(ctx context.Context) bool { return envOf(ctx).filterFlag.eval() }, parallelOpt)
	}
}

// sortOpt registers sort field `name` with sort value get(attr). Sort funcs
// take T by value (so pointer-node connections exercise the deref path).
func sortOpt[T item, V any](name string, get func(Attr) V, kind implKind) schemabuilder.FieldFuncOption {
	plain := func(ctx context.Context, it T) V {
		note(ctx, cSortPlain)
		return get(it.attr())
	}
	exp := func(ctx context.Context, it T) (V, error) {
		note(ctx, cSortExp)
		return get(it.attr()), nil
	}
	fallback := func(ctx context.Context, it T) (V, error) {
		note(ctx, cSortFallback)
		return get(it.attr()), nil
	}
	batchFn := func(ctx context.Context, its map[batch.Index]T) (map[batch.Index]V, error) {
		note(ctx, cSortBatch)
		out := make(map[batch.Index]V, len(its))
		slow := 0
		for i, it := range its {
			if envOf(ctx).slow[it.key()] {
				slow++
			}
			out[i] = get(it.attr())
		}
		dawdle(ctx, slow)
		return out, nil
	}
	switch kind {
	case kPlain:
		return schemabuilder.SortField(name, plain)
	case kExpensive:
		return schemabuilder.SortField(name, exp, schemabuilder.Expensive)
	case kBatch:
		return schemabuilder.BatchSortField(name, batchFn, parallelOpt)
	default:
		return schemabuilder.BatchSortFieldWithFallback(name, batchFn, fallback,
			func(ctx context.Context) bool { return envOf(ctx).sortFlag.eval() }, parallelOpt)
	}
}

const (
	keyTime = 1 + iota
	keyUint64
	keyCode
	keyRank
)

// filterSpec is one registered filter field of a connection.
type filterSpec struct {
	name string
	text int // index into Attr.T
	kind implKind
}

// connSpec describes one paginated field of the test schema.
type connSpec struct {
	name      string
	stringKey bool
	keyKind   int // 0 = int64 / string (stringKey); else keyTime ...
	ptrNodes  bool
	filters   []filterSpec
}

// sort kinds: n int64 (small), s string, f float64, u uint16, b int64 (huge), w uint64 (huge), i int32, v uint32, g float32
var sortTypes = []string{"n", "s", "f", "u", "b", "w", "i", "v", "g"}

func sortName(typ string, kind implKind) string { return typ + "_" + kindNames[kind] }

func allFilters() []filterSpec {
	var fs []filterSpec
	for t := 0; t < 3; t++ {
		for k := kPlain; k <= kBatchFallback; k++ {
			fs = append(fs, filterSpec{name: "t" + string(rune('0'+t)) + "_" + kindNames[k], text: t, kind: k})
		}
	}
	return fs
}

// The four connections: value/pointer nodes x int/string key, with different
// sets of registered filter fields (so that the default "all registered
// fields" filter differs between them).
var conns = []connSpec{
	{name: "vi", filters: allFilters()},
	{name: "pi", ptrNodes: true, filters: []filterSpec{{"t0_plain", 0, kPlain}, {"t1_exp", 1, kExpensive}, {"t2_batch", 2, kBatch}, {"t0_bf", 0, kBatchFallback}}},
	{name: "vs", stringKey: true, filters: []filterSpec{{"t0_plain", 0, kPlain}, {"t0_exp", 0, kExpensive}, {"t0_batch", 0, kBatch}, {"t0_bf", 0, kBatchFallback}}},
	{name: "ps", stringKey: true, ptrNodes: true, filters: []filterSpec{{"t1_batch", 1, kBatch}, {"t2_bf", 2, kBatchFallback}}},
	// less common key types
	{name: "vt", keyKind: keyTime, filters: []filterSpec{{"t0_plain", 0, kPlain}, {"t1_batch", 1, kBatch}, {"t2_bf", 2, kBatchFallback}}},
	{name: "pu", keyKind: keyUint64, ptrNodes: true, filters: []filterSpec{{"t0_exp", 0, kExpensive}, {"t1_batch", 1, kBatch}, {"t2_bf", 2, kBatchFallback}}},
	{name: "vc", keyKind: keyCode, filters: []filterSpec{{"t0_plain", 0, kPlain}, {"t1_batch", 1, kBatch}, {"t2_bf", 2, kBatchFallback}}},
	{name: "pr", keyKind: keyRank, ptrNodes: true, filters: []filterSpec{{"t0_plain", 0, kPlain}, {"t1_batch", 1, kBatch}, {"t2_bf", 2, kBatchFallback}}},
}

// valueList / pointerList are the paginated resolvers of the connections with
// the less common key types.
func valueList[T item](ctx context.Context) []T {
	note(ctx, cResolver)
	l, _ := envOf(ctx).itemsX.([]T)
	return l
}

func pointerList[T item](ctx context.Context) []*T {
	note(ctx, cResolver)
	src, _ := envOf(ctx).itemsX.([]T)
	out := make([]*T, len(src))
	for i := range src {
		v := src[i]
		out[i] = &v
	}
	return out
}

func options[T item](c connSpec) []schemabuilder.FieldFuncOption {
	opts := []schemabuilder.FieldFuncOption{schemabuilder.Paginated}
	for _, f := range c.filters {
		opts = append(opts, filterOpt[T](f.name, f.text, f.kind))
	}
	for k := kPlain; k <= kBatchFallback; k++ {
		opts = append(opts,
			sortOpt[T](sortName("n", k), func(a Attr) int64 { return a.N }, k),
			sortOpt[T](sortName("s", k), func(a Attr) string { return a.S }, k),
			sortOpt[T](sortName("f", k), func(a Attr) float64 { return a.F }, k),
			sortOpt[T](sortName("u", k), func(a Attr) uint16 { return a.U }, k),
			sortOpt[T](sortName("b", k), func(a Attr) int64 { return a.B }, k),
			sortOpt[T](sortName("w", k), func(a Attr) uint64 { return a.W }, k),
			sortOpt[T](sortName("i", k), func(a Attr) int32 { return a.I }, k),
			sortOpt[T](sortName("v", k), func(a Attr) uint32 { return a.V }, k),
			sortOpt[T](sortName("g", k), func(a Attr) float32 { return a.G }, k),
		)
	}
	return opts
}

type root struct{}

type userArgs struct {
	Tag *string
}

func buildSchema() (*graphql.Schema, error) {
	schema := schemabuilder.NewSchema()
	query := schema.Query()
	query.FieldFunc("root", func() root { return root{} })

	oi := schema.Object("itemI", ItemI{})
	oi.Key("id")
	os := schema.Object("itemS", ItemS{})
	os.Key("id")

	r := schema.Object("root", root{})
	// vi: value nodes, int key, plain resolver
	r.FieldFunc("vi", func(ctx context.Context) []ItemI {
		note(ctx, cResolver)
		return envOf(ctx).itemsI
	}, options[ItemI](conns[0])...)
	// pi: pointer nodes, int key, Expensive resolver with user args and error return
	r.FieldFunc("pi", func(ctx context.Context, args userArgs) ([]*ItemI, error) {
		note(ctx, cResolver)
		src := envOf(ctx).itemsI
		out := make([]*ItemI, len(src))
		for i := range src {
			v := src[i]
			out[i] = &v
		}
		return out, nil
	}, append(options[ItemI](conns[1]), schemabuilder.Expensive)...)
	// vs: value nodes, string key, error return
	r.FieldFunc("vs", func(ctx context.Context) ([]ItemS, error) {
		note(ctx, cResolver)
		return envOf(ctx).itemsS, nil
	}, options[ItemS](conns[2])...)
	// ps: pointer nodes, string key
	r.FieldFunc("ps", func(ctx context.Context) []*ItemS {
		note(ctx, cResolver)
		src := envOf(ctx).itemsS
		out := make([]*ItemS, len(src))
		for i := range src {
			v := src[i]
			out[i] = &v
		}
		return out
	}, options[ItemS](conns[3])...)
	ot := schema.Object("itemT", ItemT{})
	ot.Key("id")
	ou := schema.Object("itemU", ItemU{})
	ou.Key("id")
	oc := schema.Object("itemC", ItemC{})
	oc.Key("id")
	or := schema.Object("itemR", ItemR{})
	or.Key("id")
	r.FieldFunc("vt", func(ctx context.Context) []ItemT { return valueList[ItemT](ctx) }, options[ItemT](conns[4])...)
	r.FieldFunc("pu", func(ctx context.Context) []*ItemU { return pointerList[ItemU](ctx) }, options[ItemU](conns[5])...)
	r.FieldFunc("vc", func(ctx context.Context) []ItemC { return valueList[ItemC](ctx) }, options[ItemC](conns[6])...)
	r.FieldFunc("pr", func(ctx context.Context) []*ItemR { return pointerList[ItemR](ctx) }, options[ItemR](conns[7])...)
	return schema.Build()
}
