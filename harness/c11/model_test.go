package c11

import (
	"reflect"
	"testing"
	"unicode"
)

// Unit tests of the reference model (not run by the driver).

func TestModelTokenize(t *testing.T) {
	cases := []struct {
		in   string
		want []string
		ok   bool
	}{
		{``, nil, true},
		{`   `, nil, true},
		{`ab`, []string{"ab"}, true},
		{` ab  cd `, []string{"ab", "cd"}, true},
		{`"san fran"`, []string{"san fran"}, true},
		{`"san fran" and`, []string{"san fran", "and"}, true},
		{`""`, []string{""}, true},
		{`a "" b`, []string{"a", "", "b"}, true},
		{"a\tb\nc\fd\re", []string{"a", "b", "c", "d", "e"}, true},
		{"a\u00A0b c\vd\u3000e\u2028f", []string{"a\u00A0b", "c\vd\u3000e\u2028f"}, true},
		{"\u00A0", []string{"\u00A0"}, true},
		{`a"b"`, nil, false},
		{`"a"b`, nil, false},
		{`"abc`, nil, false},
	}
	for _, c := range cases {
		got, ok := tokenize(c.in)
		if ok != c.ok || (ok && !reflect.DeepEqual(got, c.want)) {
			t.Errorf("tokenize(%q) = %q,%v want %q,%v", c.in, got, ok, c.want, c.ok)
		}
	}
}

// The documented examples of internal/filter's own test, restated.
func TestModelMatches(t *testing.T) {
	cases := []struct {
		str, query string
		want       bool
	}{
		{"hi, san francisco", `"san fran"`, true},
		{"hi, San Francisco", `"san fran"`, true},
		{"hi, San Francisco", `"SAN FRAN"`, true},
		{"hi, san francisco", `"san fran" and`, true},
		{"hi, sandy francisco", `"san fran"`, false},
		{"hi, sandy francisco", `"san fran" and`, true},
		{"hi, sandy francisco", ``, true},
		{"hi, sandy francisco", `""`, false},
	}
	for _, c := range cases {
		toks, ok := tokenize(c.query)
		if !ok {
			t.Fatalf("tokenize(%q) out of scope", c.query)
		}
		if got := matches([]string{c.str}, toks); got != c.want {
			t.Errorf("matches(%q, %q) = %v want %v", c.str, c.query, got, c.want)
		}
	}
}

// Non-ASCII letters: the model's fold table against the Unicode mapping, and a
// few matches in the spirit of the documented case-insensitive filter.
func TestModelLowerNonASCII(t *testing.T) {
	for up, lo := range lowerTable {
		if unicode.ToLower(up) != lo {
			t.Errorf("table %q -> %q, unicode.ToLower gives %q", up, lo, unicode.ToLower(up))
		}
	}
	for _, r := range unicodeLetters {
		if modelLower(string(unicode.ToUpper(r))) != string(r) {
			t.Errorf("modelLower(upper(%q)) = %q", r, modelLower(string(unicode.ToUpper(r))))
		}
	}
	cases := []struct {
		str, query string
		want       bool
	}{
		{"École normale", "école", true},
		{"ÉCOLE", "école", true},
		{"Москва", "МОСКВА", true},
		{"xⱥy", "\u023A", true},
		{"x\u023Ay", "ⱥy", true},
		{"\u212Am", "km", true},
		{"kilo", "\u212AILO", true},
		{"\u0130d", "id", true},
		{"école", "ecole", false},
	}
	for _, c := range cases {
		toks, _ := tokenize(c.query)
		if got := matches([]string{c.str}, toks); got != c.want {
			t.Errorf("matches(%q, %q) = %v want %v", c.str, c.query, got, c.want)
		}
	}
}

func ip(i int) *int { return &i }

func TestModelSlice(t *testing.T) {
	cases := []struct {
		name             string
		m                int
		a                pageArgs
		lo, hi           int
		hasNext, hasPrev bool
	}{
		{"all", 5, pageArgs{}, 0, 5, false, false},
		{"first2", 5, pageArgs{first: ip(2)}, 0, 2, true, false},
		{"first5", 5, pageArgs{first: ip(5)}, 0, 5, false, false},
		{"first0", 5, pageArgs{first: ip(0)}, 0, 0, true, false},
		{"first0 empty", 0, pageArgs{first: ip(0)}, 0, 0, false, false},
		{"last2", 5, pageArgs{last: ip(2)}, 3, 5, false, true},
		{"first2 after idx2 (thunder snapshot: 4,5 / next false / prev true)", 5, pageArgs{first: ip(2), hasAfter: true, afterPos: 2}, 3, 5, false, true},
		{"after first element", 5, pageArgs{hasAfter: true, afterPos: 0}, 1, 5, false, false},
		{"last2 before idx2 (thunder snapshot: 1,2 / next true / prev false)", 5, pageArgs{last: ip(2), hasBefore: true, beforePos: 2}, 0, 2, true, false},
		{"before last element", 5, pageArgs{hasBefore: true, beforePos: 4}, 0, 4, false, false},
		{"unknown cursors", 5, pageArgs{hasAfter: true, afterPos: -1, hasBefore: true, beforePos: -1}, 0, 5, false, false},
		{"after 0 before 3 of 4 (DESIGN witness)", 4, pageArgs{hasAfter: true, afterPos: 0, hasBefore: true, beforePos: 3}, 1, 3, false, false},
		{"after 1 before 3 of 5", 5, pageArgs{hasAfter: true, afterPos: 1, hasBefore: true, beforePos: 3}, 2, 3, true, true},
		{"adjacent", 5, pageArgs{hasAfter: true, afterPos: 1, hasBefore: true, beforePos: 2}, 2, 2, true, true},
	}
	for _, c := range cases {
		p := slice(c.m, c.a)
		if p.lo != c.lo || p.hi != c.hi || p.hasNext != c.hasNext || p.hasPrev != c.hasPrev {
			t.Errorf("%s: got [%d:%d] next=%v prev=%v, want [%d:%d] next=%v prev=%v", c.name, p.lo, p.hi, p.hasNext, p.hasPrev, c.lo, c.hi, c.hasNext, c.hasPrev)
		}
	}
	if p := slice(5, pageArgs{hasAfter: true, afterPos: 3, hasBefore: true, beforePos: 1}); !p.inverted || p.lo != 4 || p.hi != 5 {
		t.Errorf("inverted: %+v", p)
	}
}

func TestModelStableSort(t *testing.T) {
	items := []mItem{{"a", Attr{N: 2}}, {"b", Attr{N: 1}}, {"c", Attr{N: 2}}, {"d", Attr{N: 1}}, {"e", Attr{N: 3}}}
	asc := view{hasSortBy: true, sortType: "n"}.apply(conns[0], items)
	if got := ids(asc); !reflect.DeepEqual(got, []string{"b", "d", "a", "c", "e"}) {
		t.Errorf("asc: %v", got)
	}
	desc := view{hasSortBy: true, sortType: "n", hasSortOrder: true, desc: true}.apply(conns[0], items)
	if got := ids(desc); !reflect.DeepEqual(got, []string{"e", "a", "c", "b", "d"}) {
		t.Errorf("desc: %v", got)
	}
}

// TestWitnessDesign replays the minimal witness of FINDINGS.md against the
// real code and logs what thunder answers (informational, never fails on the
// flag itself).
func TestWitnessDesign(t *testing.T) {
	schema, err := buildSchema()
	if err != nil {
		t.Fatal(err)
	}
	ex := &executor{schema: schema}
	env := &caseEnv{itemsI: []ItemI{{Id: 1}, {Id: 2}, {Id: 3}, {Id: 4}}}
	cd := &caseData{conn: conns[0], env: env}
	q := `{ root { vi(after: "MQ==", before: "NA==") ` + selection + ` } }`
	obs, raw, err := ex.run(cd, q, nil)
	if err != nil {
		t.Fatal(err)
	}
	t.Logf("list [1,2,3,4], after=cursor(1), before=cursor(4): edges=%v hasNextPage=%v (property: false) hasPrevPage=%v (property: false)\n%s", obs.ids, obs.hasNext, obs.hasPrev, raw)
	q = `{ root { vi(before: "NA==") ` + selection + ` } }`
	obs, _, err = ex.run(cd, q, nil)
	if err != nil {
		t.Fatal(err)
	}
	t.Logf("same list, only before=cursor(4): edges=%v hasNextPage=%v", obs.ids, obs.hasNext)
}
