package c11

import (
	"bytes"
	"context"
	"encoding/base64"
	"encoding/json"
	"fmt"
	"math"
	"math/rand"
	"reflect"
	"strconv"
	"strings"
	"sync/atomic"
	"testing"
	"time"
	"unicode"

	"github.com/samsarahq/thunder/batch"
	"github.com/samsarahq/thunder/graphql"
	"github.com/samsarahq/thunder/verifharness/vlib"
)

// classifier key of the one defect this monitor is known to hit (see
// FINDINGS.md): `after` names an element, `before` names the LAST element of
// the filtered list and lies after `after`; thunder answers hasNextPage=true
// although nothing exists beyond `before`; everything else on the page is
// right.
const classBeforeLast = "hasNextPage-true-with-after-and-before-at-last-element"

// ---------------------------------------------------------------- generator

var wordAlphabet = []rune("abcd")

func word(r *rand.Rand, maxLen int) string {
	n := 1 + r.Intn(maxLen)
	b := make([]rune, n)
	for i := range b {
		b[i] = wordAlphabet[r.Intn(len(wordAlphabet))]
	}
	return string(b)
}

// Letters for filter texts and node texts. Besides ASCII: Latin-1, Cyrillic
// and Greek letters (two bytes in either case), U+2C65/U+023A (lower case is
// three bytes, upper case two), and — as upper-case variants of k and i — the
// Kelvin sign U+212A (three bytes, lower case "k") and U+0130 (two bytes,
// lower case "i"). Case-insensitive matching is documented for the default
// filter (CHANGELOG #209); the model folds exactly these letters with its own
// table (modelLower).
var unicodeLetters = []rune{'a', 'b', 'é', 'ü', 'ж', 'λ', 'ⱥ', 'k', 'i', 'ñ', 'д'}

// genAlphabet picks the four letters a case draws its words from.
func genAlphabet(r *rand.Rand) []rune {
	if r.Intn(2) == 0 {
		return []rune("abcd")
	}
	perm := r.Perm(len(unicodeLetters))
	out := make([]rune, 4)
	for i := range out {
		out[i] = unicodeLetters[perm[i]]
	}
	return out
}

func fword(r *rand.Rand, alpha []rune, maxLen int) string {
	n := 1 + r.Intn(maxLen)
	b := make([]rune, n)
	for i := range b {
		b[i] = alpha[r.Intn(len(alpha))]
	}
	return string(b)
}

func randCase(r *rand.Rand, s string) string {
	rs := []rune(s)
	for i := range rs {
		if r.Intn(3) == 0 {
			switch {
			case rs[i] == 'k' && r.Intn(2) == 0:
				rs[i] = '\u212A' // Kelvin sign, lower-cases to k
			case rs[i] == 'i' && r.Intn(2) == 0:
				rs[i] = '\u0130' // dotted capital I, lower-cases to i
			default:
				rs[i] = unicode.ToUpper(rs[i])
			}
		}
	}
	return string(rs)
}

// oddSpaces are white-space runes that are NOT token separators for the
// default filter (only space, \t, \n, \f, \r are): inside a filter text they
// are ordinary characters of a token, inside a node text ordinary characters
// to be matched.
var oddSpaces = []string{"\u00A0", "\u3000", "\v", "\u2028", "\u0085", "\u1680", "\u2003"}

// realSeps are the separators.
var realSeps = []string{" ", "  ", "\t", "\n", "\f", "\r", " \t"}

func text(r *rand.Rand, alpha []rune, odd bool) string {
	n := r.Intn(4)
	var sb strings.Builder
	for i := 0; i < n; i++ {
		if i > 0 {
			switch {
			case odd && r.Intn(3) == 0:
				sb.WriteString(oddSpaces[r.Intn(len(oddSpaces))])
			case odd && r.Intn(6) == 0:
				sb.WriteString(realSeps[r.Intn(len(realSeps))])
			default:
				sb.WriteString(" ")
			}
		}
		sb.WriteString(randCase(r, fword(r, alpha, 3)))
	}
	return sb.String()
}

// oddWord: two short words glued by a non-separator white-space rune.
func oddWord(r *rand.Rand, alpha []rune) string {
	return fword(r, alpha, 2) + oddSpaces[r.Intn(len(oddSpaces))] + fword(r, alpha, 2)
}

var stringKeyPool = []string{"a", "A", "b", "ab", "AB", "a b", "1", "01", "10", "2", "-1", "x\"y", "k/é", "MQ==", "BAD", "z z z", "null", "0", "true", "Ab", "ü", "k_1", "k-2", "k.3", "{}", "[1]", "q?", "p&q", "tab\tkey", "née", "日本", "$v", "#h", "\\n", "a,b", "first", "after", "x:y", "é", "~", "`", "'", "''", "(", ")", "*", "+", "=", "|", "<>"}

type caseData struct {
	conn     connSpec
	poolM    []mItem // every element generated for the case; items/env hold the current state of the mutable store
	poolI    []ItemI
	poolS    []ItemS
	poolX    interface{} // typed pool of the connections with the less common key types
	items    []mItem
	env      *caseEnv
	batching bool
	v        view
	alpha    []rune // letters the case's filter texts and node texts are made of
	odd      bool   // unusual white-space runes in texts and filter texts
}

var bigInt64Bases = []int64{1 << 60, math.MaxInt64 - 64, -(1 << 60), math.MinInt64 + 8, 1 << 53, 1<<62 + 1<<40}
var bigUint64Bases = []uint64{1 << 63, math.MaxUint64 - 64, 1 << 60, 1<<63 + 1<<62, 1 << 53}

// listShape fixes, per list, how the "huge" sort values cluster: all values
// of a list come from one or two bases plus deltas far below the float64
// spacing at that magnitude (128..2048), so an order computed through float64
// cannot tell them apart.
type listShape struct {
	alpha  []rune // letters of the filter texts
	odd    bool   // texts and filter texts also use unusual white-space runes
	bBases []int64
	wBases []uint64
	rng    int
}

func genShape(r *rand.Rand, n int) listShape {
	sh := listShape{rng: 1 + n*(1+r.Intn(3))/3, alpha: genAlphabet(r), odd: r.Intn(3) == 0}
	sh.bBases = []int64{bigInt64Bases[r.Intn(len(bigInt64Bases))]}
	sh.wBases = []uint64{bigUint64Bases[r.Intn(len(bigUint64Bases))]}
	if r.Intn(3) == 0 {
		sh.bBases = append(sh.bBases, bigInt64Bases[r.Intn(len(bigInt64Bases))])
		sh.wBases = append(sh.wBases, bigUint64Bases[r.Intn(len(bigUint64Bases))])
	}
	return sh
}

func genAttr(r *rand.Rand, sh listShape) Attr {
	rng := sh.rng
	a := Attr{
		N: int64(r.Intn(rng)) - int64(rng/2),
		S: word(r, 1+r.Intn(2)),
		F: float64(r.Intn(rng)-rng/2) / 2,
		U: uint16(r.Intn(rng)),
		B: sh.bBases[r.Intn(len(sh.bBases))] + int64(r.Intn(rng+1)),
		W: sh.wBases[r.Intn(len(sh.wBases))] + uint64(r.Intn(rng+1)),
		I: int32(r.Intn(rng)) - int32(rng/2),
		V: math.MaxUint32 - uint32(r.Intn(rng)),
		G: float32(r.Intn(rng)-rng/2) / 4,
	}
	if r.Intn(8) == 0 {
		a.I = math.MinInt32 + int32(r.Intn(3))
	}
	for i := range a.T {
		a.T[i] = text(r, sh.alpha, sh.odd)
	}
	return a
}

func mkI(id int64, a Attr) ItemI {
	return ItemI{Id: id, N: a.N, S: a.S, F: a.F, U: a.U, B: a.B, W: a.W, I: a.I, V: a.V, G: a.G, T0: a.T[0], T1: a.T[1], T2: a.T[2]}
}

func mkS(id string, a Attr) ItemS {
	return ItemS{Id: id, N: a.N, S: a.S, F: a.F, U: a.U, B: a.B, W: a.W, I: a.I, V: a.V, G: a.G, T0: a.T[0], T1: a.T[1], T2: a.T[2]}
}

var timeZones = []*time.Location{time.UTC, time.FixedZone("CET", 3600), time.FixedZone("", -(5*3600 + 1800)), time.FixedZone("X", 14*3600)}

// genOddKeys makes n elements with unique keys of one of the less common key
// types; the printed forms of the keys are deliberately close to each other.
func genOddKeys(r *rand.Rand, kind, n int, sh listShape) ([]mItem, interface{}) {
	items := make([]mItem, 0, n)
	switch kind {
	case keyTime:
		// distinct instants, most of them inside the same one or two seconds
		// (milli/micro/nanosecond apart), in several locations
		base := time.Unix(1600000000+int64(r.Intn(1000000)), 0)
		usedNs := map[int64]bool{}
		var out []ItemT
		for i := 0; i < n; i++ {
			var off int64
			for {
				switch r.Intn(4) {
				case 0:
					off = int64(r.Intn(1000)) * 1e6 // another millisecond of the same second
				case 1:
					off = int64(r.Intn(50)) // a few nanoseconds apart
				case 2:
					off = 1e9 + int64(r.Intn(1000))*1e3 // next second, microseconds
				default:
					off = int64(r.Intn(5))*1e9 + int64(r.Intn(3))*5e8
				}
				if !usedNs[off] {
					break
				}
			}
			usedNs[off] = true
			t := base.Add(time.Duration(off)).In(timeZones[r.Intn(len(timeZones))])
			a := genAttr(r, sh)
			it := ItemT{Id: t, N: a.N, S: a.S, F: a.F, U: a.U, B: a.B, W: a.W, I: a.I, V: a.V, G: a.G, T0: a.T[0], T1: a.T[1], T2: a.T[2]}
			out = append(out, it)
			items = append(items, mItem{id: it.key(), attr: a})
		}
		return items, out
	case keyUint64:
		used := map[uint64]bool{}
		var out []ItemU
		for i := 0; i < n; i++ {
			var id uint64
			for {
				switch r.Intn(4) {
				case 0:
					id = math.MaxUint64 - uint64(r.Intn(2*n+2))
				case 1:
					id = 1<<63 + uint64(r.Intn(2*n+2))
				case 2:
					id = 1<<53 + uint64(r.Intn(2*n+2))
				default:
					id = uint64(r.Intn(2*n + 2))
				}
				if !used[id] {
					break
				}
			}
			used[id] = true
			a := genAttr(r, sh)
			it := ItemU{Id: id, N: a.N, S: a.S, F: a.F, U: a.U, B: a.B, W: a.W, I: a.I, V: a.V, G: a.G, T0: a.T[0], T1: a.T[1], T2: a.T[2]}
			out = append(out, it)
			items = append(items, mItem{id: it.key(), attr: a})
		}
		return items, out
	case keyCode:
		used := map[string]bool{}
		perm := r.Perm(len(stringKeyPool))
		var out []ItemC
		for i := 0; i < n; i++ {
			var id string
			if i < len(perm) && r.Intn(3) != 0 {
				id = stringKeyPool[perm[i]]
			} else {
				id = fmt.Sprintf("c%d %s", i, randCase(r, fword(r, sh.alpha, 3)))
			}
			if used[id] {
				id = fmt.Sprintf("u%d", i)
			}
			used[id] = true
			a := genAttr(r, sh)
			it := ItemC{Id: Code(id), N: a.N, S: a.S, F: a.F, U: a.U, B: a.B, W: a.W, I: a.I, V: a.V, G: a.G, T0: a.T[0], T1: a.T[1], T2: a.T[2]}
			out = append(out, it)
			items = append(items, mItem{id: it.key(), attr: a})
		}
		return items, out
	default: // keyRank
		used := map[int32]bool{}
		var out []ItemR
		for i := 0; i < n; i++ {
			var id int32
			for {
				switch r.Intn(4) {
				case 0:
					id = math.MinInt32 + int32(r.Intn(2*n+2))
				case 1:
					id = math.MaxInt32 - int32(r.Intn(2*n+2))
				case 2:
					id = -int32(r.Intn(2*n + 2))
				default:
					id = int32(r.Intn(2*n+2)) - int32(n)
				}
				if !used[id] {
					break
				}
			}
			used[id] = true
			a := genAttr(r, sh)
			it := ItemR{Id: Rank(id), N: a.N, S: a.S, F: a.F, U: a.U, B: a.B, W: a.W, I: a.I, V: a.V, G: a.G, T0: a.T[0], T1: a.T[1], T2: a.T[2]}
			out = append(out, it)
			items = append(items, mItem{id: it.key(), attr: a})
		}
		return items, out
	}
}

// subsetAny picks pool[idx...] out of a typed slice held in an interface.
func subsetAny(pool interface{}, idx []int) interface{} {
	pv := reflect.ValueOf(pool)
	if !pv.IsValid() {
		return nil
	}
	out := reflect.MakeSlice(pv.Type(), 0, len(idx))
	for _, p := range idx {
		out = reflect.Append(out, pv.Index(p))
	}
	return out.Interface()
}

func genList(r *rand.Rand, c connSpec) ([]mItem, *caseEnv, listShape) {
	var n int
	switch x := r.Intn(20); {
	case x == 0:
		n = 0
	case x == 1:
		n = 1
	case x < 10:
		n = 2 + r.Intn(7)
	default:
		n = 9 + r.Intn(32)
	}
	env := &caseEnv{}
	sh := genShape(r, n)
	items := make([]mItem, 0, n)
	usedS := map[string]bool{}
	if c.keyKind != 0 {
		items, env.itemsX = genOddKeys(r, c.keyKind, n, sh)
	} else if c.stringKey {
		perm := r.Perm(len(stringKeyPool))
		for i := 0; i < n; i++ {
			var id string
			if i < len(perm) && r.Intn(4) != 0 {
				id = stringKeyPool[perm[i]]
			} else {
				id = fmt.Sprintf("g%d-%s", i, word(r, 3))
			}
			if usedS[id] {
				id = fmt.Sprintf("u%d", i)
			}
			usedS[id] = true
			a := genAttr(r, sh)
			env.itemsS = append(env.itemsS, mkS(id, a))
			items = append(items, mItem{id: id, attr: a})
		}
	} else {
		used := map[int64]bool{}
		for i := 0; i < n; i++ {
			var id int64
			for {
				switch r.Intn(3) {
				case 0:
					id = int64(r.Intn(2*n+2)) - int64(n/2)
				case 1:
					id = int64(i + 1)
				default:
					id = int64(r.Intn(2000000)) - 1000000
				}
				if !used[id] {
					break
				}
			}
			used[id] = true
			a := genAttr(r, sh)
			env.itemsI = append(env.itemsI, mkI(id, a))
			ids := strconv.FormatInt(id, 10)
			items = append(items, mItem{id: ids, attr: a})
		}
	}
	genFlag := func() flagSource {
		f := flagSource{seed: r.Uint64(), k: int64(1 + r.Intn(60))}
		if r.Intn(2) == 0 {
			f.mode = r.Intn(2) // constant
		} else {
			f.mode = 2 + r.Intn(nFlagModes-2)
		}
		return f
	}
	env.filterFlag = genFlag()
	env.sortFlag = genFlag()
	env.parallel = []int{0, 0, 1, 2, 2, 3, 3, 7, 1000}[r.Intn(9)]
	return items, env, sh
}

func genFilterText(r *rand.Rand, alpha []rune, odd bool) string {
	switch r.Intn(12) {
	case 0:
		return "" // documented: empty text does not filter
	case 1:
		return strings.Repeat(" ", 1+r.Intn(3)) // no token: does not filter
	case 2:
		return `""` // only an empty token: matches nothing
	}
	n := 1 + r.Intn(3)
	toks := make([]string, n)
	for i := range toks {
		switch r.Intn(8) {
		case 0: // quoted phrase of two words
			toks[i] = `"` + randCase(r, fword(r, alpha, 2)+" "+fword(r, alpha, 2)) + `"`
		case 1: // quoted single word
			toks[i] = `"` + randCase(r, fword(r, alpha, 3)) + `"`
		case 2:
			toks[i] = `""`
		default:
			toks[i] = randCase(r, fword(r, alpha, 1+r.Intn(3)))
		}
		if odd {
			switch r.Intn(6) {
			case 0, 1: // a bare token with a non-separator white-space rune inside
				toks[i] = randCase(r, oddWord(r, alpha))
			case 2: // the same inside a quoted phrase
				toks[i] = `"` + randCase(r, oddWord(r, alpha)) + `"`
			}
		}
	}
	var sb strings.Builder
	for i, t := range toks {
		if i > 0 {
			if odd {
				sb.WriteString(realSeps[r.Intn(len(realSeps))])
			} else {
				sb.WriteString(strings.Repeat(" ", 1+r.Intn(2)))
			}
		}
		sb.WriteString(t)
	}
	s := sb.String()
	if r.Intn(6) == 0 {
		s = " " + s
	}
	if r.Intn(6) == 0 {
		s += " "
	}
	return s
}

func genView(r *rand.Rand, c connSpec, alpha []rune, odd bool) view {
	var v view
	if r.Intn(100) < 55 {
		v.hasFilterText = true
		v.filterText = genFilterText(r, alpha, odd)
		if r.Intn(2) == 0 {
			v.hasFields = true
			// non-empty subset of the registered names; sometimes an unknown
			// name in addition (ignored, as thunder's own tests show)
			perm := r.Perm(len(c.filters))
			k := 1 + r.Intn(len(c.filters))
			if r.Intn(2) == 0 {
				k = 1 + r.Intn(2)
				if k > len(c.filters) {
					k = len(c.filters)
				}
			}
			for _, p := range perm[:k] {
				v.fields = append(v.fields, c.filters[p].name)
			}
			if r.Intn(6) == 0 {
				v.fields = append(v.fields, "wug")
			}
		}
	} else if r.Intn(10) == 0 {
		// fields without text: no filtering
		v.hasFields = true
		v.fields = []string{c.filters[0].name}
	}
	if r.Intn(100) < 65 {
		v.hasSortBy = true
		v.sortType = sortTypes[r.Intn(len(sortTypes))]
		v.sortKind = implKind(r.Intn(4))
		if r.Intn(4) != 0 {
			v.hasSortOrder = true
			v.desc = r.Intn(2) == 0
		}
	} else if r.Intn(8) == 0 {
		// sortOrder without sortBy: no sorting
		v.hasSortOrder = true
		v.desc = r.Intn(2) == 0
	}
	return v
}

// ------------------------------------------------------------- query layer

// wireArgs are the arguments as sent.
type wireArgs struct {
	first, last   *int
	after, before *string
}

func lit(s string) string {
	b, _ := json.Marshal(s) // JSON string escapes are valid GraphQL string escapes
	// json.Marshal escapes <,>,& as < ... which GraphQL also accepts
	return string(b)
}

const selection = `{ totalCount edges { node { id } cursor } pageInfo { hasNextPage hasPrevPage startCursor endCursor } }`

func render(c connSpec, v view, w wireArgs, useVars bool) (string, map[string]interface{}) {
	var args []string
	var decl []string
	vars := map[string]interface{}{}
	add := func(name, typ string, val interface{}, literal string) {
		if useVars {
			decl = append(decl, "$"+name+": "+typ)
			vars[name] = val
			args = append(args, name+": $"+name)
		} else {
			args = append(args, name+": "+literal)
		}
	}
	if w.first != nil {
		add("first", "int64", float64(*w.first), strconv.Itoa(*w.first))
	}
	if w.last != nil {
		add("last", "int64", float64(*w.last), strconv.Itoa(*w.last))
	}
	if w.after != nil {
		add("after", "string", *w.after, lit(*w.after))
	}
	if w.before != nil {
		add("before", "string", *w.before, lit(*w.before))
	}
	if v.hasFilterText {
		add("filterText", "string", v.filterText, lit(v.filterText))
	}
	if v.hasFields {
		var l []interface{}
		var ls []string
		for _, f := range v.fields {
			l = append(l, f)
			ls = append(ls, lit(f))
		}
		add("filterTextFields", "[string!]", l, "["+strings.Join(ls, ", ")+"]")
	}
	if v.hasSortBy {
		n := sortName(v.sortType, v.sortKind)
		add("sortBy", "string", n, lit(n))
	}
	if v.hasSortOrder {
		o := "asc"
		if v.desc {
			o = "desc"
		}
		add("sortOrder", "SortOrder", o, lit(o))
	}
	if c.name == "pi" {
		args = append(args, `tag: "x"`)
	}
	q := "query Q"
	if len(decl) > 0 {
		q += "(" + strings.Join(decl, ", ") + ")"
	}
	q += " { root { " + c.name
	if len(args) > 0 {
		q += "(" + strings.Join(args, ", ") + ")"
	}
	q += " " + selection + " } }"
	return q, vars
}

// observed is the connection as returned.
type observed struct {
	total            int64
	ids              []string
	cursors          []string
	hasNext, hasPrev bool
	start, end       string
	raw              string
}

type executor struct {
	schema *graphql.Schema
}

func (e *executor) ctx(cd *caseData) context.Context {
	ctx := context.WithValue(context.Background(), envKey{}, cd.env)
	if cd.batching {
		ctx = batch.WithBatching(ctx)
	}
	return ctx
}

// prepare parses and prepares a query ONCE; the returned object can be
// executed any number of times (as thunder's live queries do).
func (e *executor) prepare(cd *caseData, q string, vars map[string]interface{}) (parsed *graphql.Query, err error) {
	defer func() {
		if p := recover(); p != nil {
			err = fmt.Errorf("panic: %v", p)
		}
	}()
	parsed, err = graphql.Parse(q, vars)
	if err != nil {
		return nil, fmt.Errorf("parse: %v", err)
	}
	if err := graphql.PrepareQuery(e.ctx(cd), e.schema.Query, parsed.SelectionSet); err != nil {
		return nil, fmt.Errorf("prepare: %v", err)
	}
	return parsed, nil
}

func (e *executor) run(cd *caseData, q string, vars map[string]interface{}) (obs *observed, raw string, err error) {
	parsed, err := e.prepare(cd, q, vars)
	if err != nil {
		return nil, "", err
	}
	return e.exec(cd, parsed)
}

func (e *executor) exec(cd *caseData, parsed *graphql.Query) (obs *observed, raw string, err error) {
	defer func() {
		if p := recover(); p != nil {
			err = fmt.Errorf("panic: %v", p)
		}
	}()
	ex := graphql.NewExecutor(graphql.NewImmediateGoroutineScheduler())
	val, err := ex.Execute(e.ctx(cd), e.schema.Query, nil, parsed)
	if err != nil {
		return nil, "", fmt.Errorf("execute: %v", err)
	}
	b, err := json.Marshal(val)
	if err != nil {
		return nil, "", fmt.Errorf("marshal: %v", err)
	}
	raw = string(b)
	var doc struct {
		Root map[string]struct {
			TotalCount *int64 `json:"totalCount"`
			Edges      []struct {
				Node struct {
					Id interface{} `json:"id"`
				} `json:"node"`
				Cursor *string `json:"cursor"`
			} `json:"edges"`
			PageInfo *struct {
				HasNextPage *bool   `json:"hasNextPage"`
				HasPrevPage *bool   `json:"hasPrevPage"`
				StartCursor *string `json:"startCursor"`
				EndCursor   *string `json:"endCursor"`
			} `json:"pageInfo"`
		} `json:"root"`
	}
	dec := json.NewDecoder(bytes.NewReader(b))
	dec.UseNumber()
	if err := dec.Decode(&doc); err != nil {
		return nil, raw, fmt.Errorf("decode: %v", err)
	}
	conn, ok := doc.Root[cd.conn.name]
	if !ok {
		return nil, raw, fmt.Errorf("connection missing in response")
	}
	if conn.TotalCount == nil || conn.PageInfo == nil || conn.PageInfo.HasNextPage == nil || conn.PageInfo.HasPrevPage == nil ||
		conn.PageInfo.StartCursor == nil || conn.PageInfo.EndCursor == nil {
		return nil, raw, fmt.Errorf("connection field missing or null")
	}
	o := &observed{total: *conn.TotalCount, hasNext: *conn.PageInfo.HasNextPage, hasPrev: *conn.PageInfo.HasPrevPage,
		start: *conn.PageInfo.StartCursor, end: *conn.PageInfo.EndCursor, raw: raw}
	for _, e := range conn.Edges {
		if e.Cursor == nil {
			return nil, raw, fmt.Errorf("edge without cursor")
		}
		switch id := e.Node.Id.(type) {
		case json.Number:
			o.ids = append(o.ids, id.String())
		case string:
			o.ids = append(o.ids, id)
		default:
			return nil, raw, fmt.Errorf("edge node id of unexpected type %T", e.Node.Id)
		}
		o.cursors = append(o.cursors, *e.Cursor)
	}
	return o, raw, nil
}

// ------------------------------------------------------------------ checks

type checker struct {
	run  *vlib.Run
	ex   *executor
	i    int
	cd   *caseData
	l    []mItem        // filtered + sorted (model)
	pos  map[string]int // id -> position in l
	cur  map[string]string
	dup  bool
	fact bool // filter has tokens
}

func ids(l []mItem) []string {
	out := make([]string, len(l))
	for i, it := range l {
		out[i] = it.id
	}
	return out
}

func eqStrings(a, b []string) bool {
	if len(a) != len(b) {
		return false
	}
	for i := range a {
		if a[i] != b[i] {
			return false
		}
	}
	return true
}

func (c *checker) witness(what, q string, vars map[string]interface{}, extra map[string]interface{}) map[string]interface{} {
	w := map[string]interface{}{
		"what":              what,
		"connection":        c.cd.conn.name,
		"query":             q,
		"variables":         vars,
		"with_batching_ctx": c.cd.batching,
		"filter_bf_flag":    fmt.Sprintf("%s k=%d seed=%d", flagModeNames[c.cd.env.filterFlag.mode], c.cd.env.filterFlag.k, c.cd.env.filterFlag.seed),
		"sort_bf_flag":      fmt.Sprintf("%s k=%d seed=%d", flagModeNames[c.cd.env.sortFlag.mode], c.cd.env.sortFlag.k, c.cd.env.sortFlag.seed),
		"filtered_sorted":   ids(c.l),
	}
	switch {
	case c.cd.conn.keyKind != 0:
		w["list"] = c.cd.env.itemsX
	case c.cd.conn.stringKey:
		w["list"] = c.cd.env.itemsS
	default:
		w["list"] = c.cd.env.itemsI
	}
	w["num_parallel_invocations_option"] = c.cd.env.parallel
	for k, v := range extra {
		w[k] = v
	}
	return w
}

func posKind(p, m int) string {
	switch {
	case p < 0:
		return "unknown"
	case p == 0 && m == 1:
		return "only"
	case p == 0:
		return "firstElem"
	case p == m-1:
		return "lastElem"
	}
	return "middle"
}

func relKind(v *int, m int) string {
	switch {
	case v == nil:
		return "-"
	case *v == 0:
		return "0"
	case *v < m:
		return "lt"
	case *v == m:
		return "eq"
	}
	return "gt"
}

func bucket(n int) string {
	switch {
	case n == 0:
		return "0"
	case n == 1:
		return "1"
	case n <= 5:
		return "2-5"
	case n <= 15:
		return "6-15"
	}
	return "16+"
}

// checkPage runs one query and compares it with the model. It returns the
// observation (nil when the query failed).
func (c *checker) checkPage(kind string, w wireArgs, a pageArgs, useVars bool) *observed {
	return c.checkPagePrepared(kind, w, a, useVars, nil, nil)
}

// preparedQuery is a query parsed + prepared once and executed repeatedly.
type preparedQuery struct {
	q      string
	vars   map[string]interface{}
	parsed *graphql.Query
	runs   int
}

// checkPagePrepared is checkPage on an already prepared query object (pq) when
// given; extra is added to the witness.
func (c *checker) checkPagePrepared(kind string, w wireArgs, a pageArgs, useVars bool, pq *preparedQuery, extra map[string]interface{}) *observed {
	cd := c.cd
	var q string
	var vars map[string]interface{}
	var obs *observed
	var raw string
	var err error
	if pq != nil {
		q, vars = pq.q, pq.vars
		obs, raw, err = c.ex.exec(cd, pq.parsed)
		pq.runs++
	} else {
		q, vars = render(cd.conn, cd.v, w, useVars)
		obs, raw, err = c.ex.run(cd, q, vars)
	}
	m := len(c.l)
	exp := slice(m, a)
	both := a.hasAfter && a.hasBefore
	nontrivial := exp.cutFirst || exp.cutLast || c.fact || c.dup || both
	afterK, beforeK := "-", "-"
	if a.hasAfter {
		afterK = posKind(a.afterPos, m)
	}
	if a.hasBefore {
		beforeK = posKind(a.beforePos, m)
	}
	order := "-"
	if both && a.afterPos >= 0 && a.beforePos >= 0 {
		switch {
		case a.beforePos == a.afterPos:
			order = "same"
		case a.beforePos < a.afterPos:
			order = "inverted"
		case a.beforePos == a.afterPos+1:
			order = "adjacent"
		default:
			order = "ordered"
		}
	}
	v := cd.v
	sortShape := "-"
	if v.hasSortBy {
		sortShape = fmt.Sprintf("%s/%s/order=%v,%v/dup=%v", v.sortType, kindNames[v.sortKind], v.hasSortOrder, v.desc, c.dup)
	}
	shape := fmt.Sprintf("%s|%s|n=%s|m=%s|filter=%v,fields=%v|sort=%s|first=%s|last=%s|after=%s|before=%s|order=%s|page=%s|next=%v|prev=%v|vars=%v|batchctx=%v",
		kind, cd.conn.name, bucket(len(cd.items)), bucket(m), c.fact, v.hasFields, sortShape,
		relKind(a.first, exp.avail), relKind(a.last, exp.avail), afterK, beforeK, order,
		bucket(exp.hi-exp.lo), exp.hasNext, exp.hasPrev, useVars, cd.batching)
	c.run.Case(shape, nontrivial)
	c.run.Count("query_kind:"+kind, 1)
	c.run.Count("after:"+afterK, 1)
	c.run.Count("before:"+beforeK, 1)
	if order != "-" {
		c.run.Count("both_cursors:"+order, 1)
	}
	if exp.cutFirst {
		c.run.Count("page:cut_by_first", 1)
	}
	if exp.cutLast {
		c.run.Count("page:cut_by_last", 1)
	}
	if exp.hi == exp.lo {
		c.run.Count("page:empty", 1)
	}
	if a.first != nil && *a.first == 0 {
		c.run.Count("arg:first=0", 1)
	}
	if a.last != nil && *a.last == 0 {
		c.run.Count("arg:last=0", 1)
	}
	if a.first != nil && *a.first > m {
		c.run.Count("arg:first>len", 1)
	}
	if a.last != nil && *a.last > m {
		c.run.Count("arg:last>len", 1)
	}
	if nontrivial {
		c.run.Count("nontrivial_queries", 1)
	}

	withExtra := func(m map[string]interface{}) map[string]interface{} {
		for k, v := range extra {
			m[k] = v
		}
		return m
	}
	if err != nil {
		c.run.Violation(c.i, "", c.witness("query failed", q, vars, withExtra(map[string]interface{}{"error": err.Error(), "response": vlib.Trunc(raw, 2000)})))
		return nil
	}
	expIDs := ids(c.l[exp.lo:exp.hi])
	var bad []string
	if !eqStrings(obs.ids, expIDs) {
		bad = append(bad, "edges")
	}
	if obs.total != int64(m) {
		bad = append(bad, "totalCount")
	}
	// every edge cursor is the element's cursor (as first listed)
	cursorsOK := true
	for k, id := range obs.ids {
		if want, ok := c.cur[id]; !ok || want != obs.cursors[k] {
			cursorsOK = false
		}
	}
	if !cursorsOK {
		bad = append(bad, "edge cursor")
	}
	if len(obs.ids) > 0 {
		if obs.start != obs.cursors[0] {
			bad = append(bad, "startCursor")
		}
		if obs.end != obs.cursors[len(obs.cursors)-1] {
			bad = append(bad, "endCursor")
		}
	}
	nextBad := false
	if exp.inverted {
		// ambiguous in the statement (see model.go): only "true although the
		// literal reading says false" is a violation
		c.run.Count("inverted_cursors:hasNextPage_checked_one_sided", 1)
		if obs.hasNext != exp.hasNext {
			c.run.Count("inverted_cursors:hasNextPage_differs_from_literal_reading", 1)
		}
		if obs.hasNext && !exp.hasNext {
			nextBad = true
		}
	} else if obs.hasNext != exp.hasNext {
		nextBad = true
	}
	if nextBad {
		bad = append(bad, "hasNextPage")
	}
	if obs.hasPrev != exp.hasPrev {
		bad = append(bad, "hasPrevPage")
	}
	if len(bad) > 0 {
		class := ""
		if len(bad) == 1 && bad[0] == "hasNextPage" && obs.hasNext && !exp.hasNext &&
			a.hasAfter && a.afterPos >= 0 && a.hasBefore && a.beforePos == m-1 && a.beforePos > a.afterPos {
			class = classBeforeLast
		}
		c.run.Violation(c.i, class, c.witness("page differs from the reference model: "+strings.Join(bad, ", "), q, vars, withExtra(map[string]interface{}{
			"response": vlib.Trunc(obs.raw, 4000),
			"expected": map[string]interface{}{
				"ids": expIDs, "totalCount": m, "hasNextPage": exp.hasNext, "hasPrevPage": exp.hasPrev,
				"after_names_position": a.afterPos, "before_names_position": a.beforePos, "has_after": a.hasAfter, "has_before": a.hasBefore,
			},
		})))
	}
	if c.run.WantSample() && nontrivial && both && exp.hi > exp.lo {
		c.run.Sample(map[string]interface{}{"query": q, "variables": vars, "filtered_sorted": ids(c.l), "response": vlib.Trunc(obs.raw, 600)})
	}
	return obs
}

// walk pages through the whole list as a client would: forward with
// first/after from endCursor while hasNextPage, or backward with last/before
// from startCursor while hasPrevPage. The oracle here is the partition
// property itself: the concatenation of the pages is the filtered+sorted list.
func (c *checker) walk(forward bool, k int, startEmptyCursor, useVars bool) {
	m := len(c.l)
	var visited []string
	var cursor *string
	cursorPos := -1
	if startEmptyCursor {
		s := "" // doc/pagination.md starts with `after: ""`
		cursor = &s
	}
	kind := "walk_backward"
	if forward {
		kind = "walk_forward"
	}
	pages := 0
	var trail []string
	for {
		if pages > m+2 {
			c.run.Violation(c.i, "", c.witness(kind+" does not terminate", "", nil, map[string]interface{}{"page_size": k, "trail": trail}))
			return
		}
		w := wireArgs{}
		a := pageArgs{}
		kk := k
		if forward {
			w.first, a.first = &kk, &kk
			if cursor != nil {
				w.after, a.hasAfter, a.afterPos = cursor, true, cursorPos
			}
		} else {
			w.last, a.last = &kk, &kk
			if cursor != nil {
				w.before, a.hasBefore, a.beforePos = cursor, true, cursorPos
			}
		}
		obs := c.checkPage(kind, w, a, useVars)
		if obs == nil {
			return
		}
		pages++
		trail = append(trail, strings.Join(obs.ids, ","))
		if forward {
			visited = append(visited, obs.ids...)
		} else {
			visited = append(append([]string{}, obs.ids...), visited...)
		}
		more := obs.hasNext
		next := obs.end
		if !forward {
			more = obs.hasPrev
			next = obs.start
		}
		if !more {
			break
		}
		if len(obs.ids) == 0 {
			c.run.Violation(c.i, "", c.witness(kind+": empty page claims more pages; a client cannot continue", "", nil, map[string]interface{}{"page_size": k, "trail": trail}))
			return
		}
		nc := next
		cursor = &nc
		// position named by the returned cursor, per the model
		cursorPos = -1
		for id, cu := range c.cur {
			if cu == nc {
				if p, ok := c.pos[id]; ok {
					cursorPos = p
				}
			}
		}
	}
	c.run.Count("walk_pages", pages)
	if !eqStrings(visited, ids(c.l)) {
		c.run.Violation(c.i, "", c.witness(kind+" did not visit every filtered element exactly once in order", "", nil, map[string]interface{}{
			"page_size": k, "pages": trail, "visited": visited,
		}))
	}
}

func b64(s string) string { return base64.StdEncoding.EncodeToString([]byte(s)) }

// genCursor picks a cursor for an absolute-position query.
func (c *checker) genCursor(r *rand.Rand) (*string, int, string) {
	m := len(c.l)
	x := r.Intn(100)
	if x < 62 && m > 0 {
		var p int
		switch r.Intn(5) {
		case 0:
			p = 0
		case 1:
			p = m - 1
		default:
			p = r.Intn(m)
		}
		s := c.cur[c.l[p].id]
		return &s, p, "valid"
	}
	// cursors that name no element of the filtered list
	var s string
	var what string
	switch r.Intn(5) {
	case 0:
		s, what = "BAD", "garbage"
	case 1:
		s, what = "", "empty"
	case 2:
		s, what = b64("no-such-key-"+strconv.Itoa(r.Intn(1000))), "b64_of_missing_key"
	default:
		// an element of the raw list that the filter removed
		var out []string
		for _, it := range c.cd.items {
			if _, in := c.pos[it.id]; !in {
				out = append(out, it.id)
			}
		}
		if len(out) == 0 {
			s, what = "Tk9QRQ==", "garbage"
		} else {
			s, what = c.cur[out[r.Intn(len(out))]], "filtered_out_element"
		}
	}
	// make sure it really names nothing in the filtered list
	for id, cu := range c.cur {
		if cu == s {
			if p, in := c.pos[id]; in {
				return &s, p, "valid"
			}
		}
	}
	return &s, -1, what
}

func genLimit(r *rand.Rand, m int) *int {
	var v int
	switch r.Intn(7) {
	case 0:
		v = 0
	case 1:
		v = m
	case 2:
		v = m + 1 + r.Intn(5)
	case 3:
		v = 1
	default:
		v = r.Intn(m + 2)
	}
	return &v
}

func (c *checker) absolute(r *rand.Rand) {
	m := len(c.l)
	var w wireArgs
	var a pageArgs
	switch x := r.Intn(10); {
	case x < 4:
		w.first = genLimit(r, m)
		a.first = w.first
	case x < 8:
		w.last = genLimit(r, m)
		a.last = w.last
	}
	switch x := r.Intn(10); {
	case x < 4: // both cursors
		var k1, k2 string
		w.after, a.afterPos, k1 = c.genCursor(r)
		w.before, a.beforePos, k2 = c.genCursor(r)
		a.hasAfter, a.hasBefore = true, true
		// favour the ordered situation (inverted pairs stay in, less often)
		if a.afterPos >= 0 && a.beforePos >= 0 && a.beforePos <= a.afterPos && r.Intn(3) != 0 {
			w.after, w.before = w.before, w.after
			a.afterPos, a.beforePos = a.beforePos, a.afterPos
			k1, k2 = k2, k1
		}
		c.run.Count("cursor_kind:"+k1, 1)
		c.run.Count("cursor_kind:"+k2, 1)
	case x < 6:
		var k string
		w.after, a.afterPos, k = c.genCursor(r)
		a.hasAfter = true
		c.run.Count("cursor_kind:"+k, 1)
	case x < 8:
		var k string
		w.before, a.beforePos, k = c.genCursor(r)
		a.hasBefore = true
		c.run.Count("cursor_kind:"+k, 1)
	}
	c.checkPage("absolute", w, a, r.Intn(3) == 0)
}

// setState makes the mutable store (what the paginated resolvers read) hold
// the pool elements idx, in that order, and re-derives the model's view.
func (c *checker) setState(idx []int) {
	cd := c.cd
	cd.items = make([]mItem, 0, len(idx))
	var is []ItemI
	var ss []ItemS
	for _, p := range idx {
		cd.items = append(cd.items, cd.poolM[p])
		switch {
		case cd.conn.keyKind != 0:
		case cd.conn.stringKey:
			ss = append(ss, cd.poolS[p])
		default:
			is = append(is, cd.poolI[p])
		}
	}
	cd.env.itemsI, cd.env.itemsS = is, ss
	if cd.conn.keyKind != 0 {
		cd.env.itemsX = subsetAny(cd.poolX, idx)
	}
	c.setSlow()
	c.setList()
}

// setSlow marks the first half of the current list (see caseEnv.slow).
func (c *checker) setSlow() {
	slow := make(map[string]bool, len(c.cd.items)/2+1)
	for i := 0; i < (len(c.cd.items)+1)/2; i++ {
		slow[c.cd.items[i].id] = true
	}
	c.cd.env.slow = slow
}

// setList re-derives the filtered+sorted list of the current view from the
// current store.
func (c *checker) setList() {
	c.l = c.cd.v.apply(c.cd.conn, c.cd.items)
	c.pos = map[string]int{}
	for p, it := range c.l {
		c.pos[it.id] = p
	}
	c.dup = c.cd.v.hasDupSortValues(c.l)
	c.fact = c.cd.v.filterActive()
}

// posOfCursor: position in the current filtered+sorted list of the element
// the cursor names, -1 when it names none of them.
func (c *checker) posOfCursor(cu string) int {
	for id, x := range c.cur {
		if x == cu {
			if p, ok := c.pos[id]; ok {
				return p
			}
		}
	}
	return -1
}

// sequence parses + prepares ONE query and executes that same object several
// times while the list behind the resolver grows and shrinks — what a live
// query (websocket subscription, reactive re-run) does. Every execution is
// compared with the model evaluated on the list as it is at that moment.
func (c *checker) sequence(r *rand.Rand) {
	cd := c.cd
	pool := len(cd.poolM)
	if pool < 2 {
		return
	}
	all := make([]int, pool)
	for i := range all {
		all[i] = i
	}
	defer c.setState(all)

	// initial state: usually small
	var size0 int
	switch r.Intn(6) {
	case 0:
		size0 = 0
	case 1:
		size0 = 1
	case 2:
		size0 = 2
	case 3:
		size0 = pool
	default:
		size0 = r.Intn(pool/2 + 1)
	}
	perm := r.Perm(pool)
	state := append([]int(nil), perm[:size0]...)
	present := make([]bool, pool)
	for _, p := range state {
		present[p] = true
	}
	c.setState(state)
	m := len(c.l)

	var w wireArgs
	limit := 1 + r.Intn(pool+2)
	mode := r.Intn(6)
	switch mode {
	case 0: // first only
		w.first = &limit
	case 1: // parked at the tail: first + after the newest element
		w.first = &limit
		if m > 0 {
			cu := c.cur[c.l[m-1].id]
			w.after = &cu
		}
	case 2: // last only
		w.last = &limit
	case 3: // parked at the head: last + before the oldest element
		w.last = &limit
		if m > 0 {
			cu := c.cur[c.l[0].id]
			w.before = &cu
		}
	default:
		if r.Intn(2) == 0 {
			w.first = genLimit(r, pool)
		} else {
			w.last = genLimit(r, pool)
		}
		if r.Intn(2) == 0 {
			w.after, _, _ = c.genCursor(r)
		}
		if r.Intn(2) == 0 {
			w.before, _, _ = c.genCursor(r)
		}
	}
	useVars := r.Intn(3) == 0
	q, vars := render(cd.conn, cd.v, w, useVars)
	parsed, err := c.ex.prepare(cd, q, vars)
	if err != nil {
		c.run.Violation(c.i, "", c.witness("query failed", q, vars, map[string]interface{}{"error": err.Error()}))
		return
	}
	pq := &preparedQuery{q: q, vars: vars, parsed: parsed}
	c.run.Count("prepared:sequences", 1)

	var history [][]string
	minStarved := -1 // fewest edges that were available at an execution where first/last asked for more
	steps := 4 + r.Intn(3)
	for step := 0; step < steps; step++ {
		a := pageArgs{first: w.first, last: w.last}
		if w.after != nil {
			a.hasAfter, a.afterPos = true, c.posOfCursor(*w.after)
		}
		if w.before != nil {
			a.hasBefore, a.beforePos = true, c.posOfCursor(*w.before)
		}
		exp := slice(len(c.l), a)
		lim := -1
		if w.first != nil {
			lim = *w.first
		} else if w.last != nil {
			lim = *w.last
		}
		if minStarved >= 0 && exp.avail > minStarved && lim > minStarved {
			c.run.Count("prepared:rerun_with_more_edges_than_at_an_earlier_starved_run", 1)
		}
		if lim > exp.avail && (minStarved < 0 || exp.avail < minStarved) {
			minStarved = exp.avail
			if exp.avail == 0 {
				c.run.Count("prepared:run_with_zero_edges_available", 1)
			}
		}
		history = append(history, ids(cd.items))
		kind := "prepared_first_run"
		if step > 0 {
			kind = "prepared_rerun"
		}
		obs := c.checkPagePrepared(kind, w, a, useVars, pq, map[string]interface{}{
			"same_prepared_query_object_execution_no": step + 1,
			"store_at_each_execution":                 history,
		})
		if obs == nil {
			return
		}
		// the store changes between executions
		grow := r.Intn(4) != 0
		if len(state) == 0 {
			grow = true
		}
		if len(state) == pool {
			grow = false
		}
		if grow {
			k := 1 + r.Intn(4)
			for _, p := range r.Perm(pool) {
				if k == 0 {
					break
				}
				if present[p] {
					continue
				}
				present[p] = true
				k--
				switch x := r.Intn(20); {
				case x < 12:
					state = append(state, p)
				case x < 15:
					state = append([]int{p}, state...)
				default:
					at := r.Intn(len(state) + 1)
					state = append(state[:at:at], append([]int{p}, state[at:]...)...)
				}
			}
			c.run.Count("prepared:store_grew", 1)
		} else {
			k := 1 + r.Intn(2)
			for ; k > 0 && len(state) > 0; k-- {
				at := r.Intn(len(state))
				present[state[at]] = false
				state = append(state[:at:at], state[at+1:]...)
			}
			c.run.Count("prepared:store_shrank", 1)
		}
		c.setState(state)
	}
}

// failHistory runs histories of two queries: (1) a filtered query that FAILS
// part-way — a harness switch makes the per-element filter funcs return an
// error for one late element after earlier elements already matched a broad
// filter text (its error is expected and not judged); (2) immediately
// afterwards a query filtered through batch filter fields with a text that
// few elements match, compared with the model as usual. Whatever the failed
// query had matched must not leak into the second one.
func (c *checker) failHistory(r *rand.Rand, reps int) {
	cd := c.cd
	if len(cd.items) < 2 {
		return
	}
	savedView, savedMode := cd.v, cd.env.filterFlag.mode
	defer func() {
		cd.v, cd.env.filterFlag.mode = savedView, savedMode
		cd.env.failID, cd.env.failBatch = "", false
		c.setList()
	}()
	var perNode, batchOnly, bf []filterSpec
	for _, f := range cd.conn.filters {
		switch f.kind {
		case kBatch:
			batchOnly = append(batchOnly, f)
		case kBatchFallback:
			bf = append(bf, f)
		default:
			perNode = append(perNode, f)
		}
	}
	for rep := 0; rep < reps; rep++ {
		// (1) the failing query; batch-with-fallback fields run their per-element fallback
		cd.env.filterFlag.setConst(false)
		cands := append(append([]filterSpec{}, perNode...), bf...)
		broad := make([]string, len(cd.alpha))
		for k, l := range cd.alpha {
			broad[k] = string(l)
		}
		fv := view{hasFilterText: true, filterText: strings.Join(broad, " "), hasFields: true}
		fv.fields = []string{cands[r.Intn(len(cands))].name}
		if r.Intn(2) == 0 {
			fv.fields = append(fv.fields, cands[r.Intn(len(cands))].name)
		}
		if len(batchOnly) > 0 && r.Intn(2) == 0 {
			fv.fields = append(fv.fields, batchOnly[r.Intn(len(batchOnly))].name)
		}
		late := len(cd.items) - 1 - r.Intn(2)
		cd.env.failID = cd.items[late].id
		cd.env.failBatch = r.Intn(4) == 0
		var w wireArgs
		if r.Intn(2) == 0 {
			w.first = genLimit(r, len(cd.items))
		}
		q, vars := render(cd.conn, fv, w, r.Intn(3) == 0)
		_, _, err := c.ex.run(cd, q, vars)
		if err != nil {
			c.run.Count("history:failing_query_returned_error", 1)
		} else {
			c.run.Count("history:failing_query_succeeded", 1)
		}
		cd.env.failID, cd.env.failBatch = "", false

		// (2) the query under observation: batch-filtered, narrow text
		cd.env.filterFlag.setConst(true)
		vv := view{hasFilterText: true}
		switch r.Intn(10) {
		case 0, 1, 2:
			vv.filterText = `""` // empty token: nothing passes
		case 3, 4, 5:
			vv.filterText = `"` + randCase(r, fword(r, cd.alpha, 2)+" "+fword(r, cd.alpha, 2)) + `"`
		default:
			vv.filterText = randCase(r, fword(r, cd.alpha, 3))
		}
		if r.Intn(10) < 7 {
			vv.hasFields = true
			bc := append(append([]filterSpec{}, batchOnly...), bf...)
			vv.fields = []string{bc[r.Intn(len(bc))].name}
			if r.Intn(3) == 0 {
				vv.fields = append(vv.fields, bc[r.Intn(len(bc))].name)
			}
		}
		cd.v = vv
		c.setList()
		c.run.Count("history:pairs", 1)
		if len(c.l) < len(cd.items) {
			c.run.Count("history:observed_query_filter_removes_elements", 1)
		}
		if r.Intn(3) == 0 {
			c.walk(true, 1+r.Intn(len(cd.items)), false, false)
		} else {
			var w2 wireArgs
			var a2 pageArgs
			if r.Intn(2) == 0 {
				w2.first = genLimit(r, len(cd.items))
				a2.first = w2.first
			}
			c.checkPage("after_failed_query", w2, a2, r.Intn(3) == 0)
		}
	}
}

func runCase(run *vlib.Run, ex *executor, i int) {
	r := run.Rand("case", i)
	ci := r.Intn(4)
	if r.Intn(10) < 3 {
		ci = 4 + r.Intn(len(conns)-4)
	}
	conn := conns[ci]
	items, env, sh := genList(r, conn)
	cd := &caseData{conn: conn, items: items, env: env, batching: r.Intn(2) == 0, alpha: sh.alpha, odd: sh.odd}
	cd.poolM, cd.poolI, cd.poolS, cd.poolX = items, env.itemsI, env.itemsS, env.itemsX

	c := &checker{run: run, ex: ex, i: i, cd: cd}
	c.setSlow()
	run.Count(fmt.Sprintf("num_parallel_invocations_option:%d", env.parallel), 1)

	// Step 0: plain listing (no arguments): every element once, in the order
	// the resolver returned them; learn each element's cursor from the edges
	// (cursors are opaque to the monitor).
	c.l = items
	c.pos = map[string]int{}
	for p, it := range items {
		c.pos[it.id] = p
	}
	q, vars := render(conn, view{}, wireArgs{}, false)
	obs, raw, err := ex.run(cd, q, vars)
	if err != nil {
		run.Violation(i, "", c.witness("plain listing failed", q, vars, map[string]interface{}{"error": err.Error(), "response": vlib.Trunc(raw, 2000)}))
		return
	}
	run.Case("listing|"+conn.name+"|n="+bucket(len(items)), false)
	if !eqStrings(obs.ids, ids(items)) || obs.total != int64(len(items)) || obs.hasNext || obs.hasPrev {
		run.Violation(i, "", c.witness("plain listing is not the resolver's list", q, vars, map[string]interface{}{"response": vlib.Trunc(obs.raw, 4000)}))
		return
	}
	c.cur = map[string]string{}
	seen := map[string]bool{}
	for k, id := range obs.ids {
		c.cur[id] = obs.cursors[k]
		if seen[obs.cursors[k]] {
			run.Violation(i, "", c.witness("two elements with unique keys share a cursor", q, vars, map[string]interface{}{"response": vlib.Trunc(obs.raw, 4000)}))
			return
		}
		seen[obs.cursors[k]] = true
	}
	if len(obs.ids) > 0 && (obs.start != obs.cursors[0] || obs.end != obs.cursors[len(obs.cursors)-1]) {
		run.Violation(i, "", c.witness("plain listing: start/end cursor are not those of the first/last edge", q, vars, map[string]interface{}{"response": vlib.Trunc(obs.raw, 4000)}))
	}

	// One view per list, sometimes a second one.
	views := []view{genView(r, conn, cd.alpha, cd.odd)}
	if r.Intn(4) == 0 {
		views = append(views, genView(r, conn, cd.alpha, cd.odd))
	}
	for _, v := range views {
		cd.v = v
		c.setList()
		m := len(c.l)

		run.Count("conn:"+conn.name, 1)
		run.Count("bf_flag_filter:"+flagModeNames[env.filterFlag.mode], 1)
		run.Count("bf_flag_sort:"+flagModeNames[env.sortFlag.mode], 1)
		run.Count("raw_len:"+bucket(len(items)), 1)
		run.Count("filtered_len:"+bucket(m), 1)
		if c.fact {
			run.Count("filter:active", 1)
			if cd.odd {
				run.Count("filter:case_with_unusual_white_space_runes", 1)
				if strings.ContainsAny(v.filterText, "\u00A0\u3000\v\u2028\u0085\u1680\u2003") {
					run.Count("filter:text_has_non_separator_white_space", 1)
				}
				if strings.ContainsAny(v.filterText, "\t\n\f\r") {
					run.Count("filter:text_has_tab_newline_formfeed_cr_separator", 1)
				}
			}
			if string(cd.alpha) != "abcd" {
				run.Count("filter:non_ascii_letters_in_alphabet", 1)
				if len(v.applyFold(conn, cd.items, asciiLower)) != m {
					run.Count("filter:result_depends_on_folding_a_non_ascii_letter", 1)
				}
			}
			if m < len(items) {
				run.Count("filter:removes_elements", 1)
			}
			if v.hasFields {
				run.Count("filter:explicit_fields", 1)
			} else {
				run.Count("filter:default_fields", 1)
			}
			for _, f := range conn.filters {
				use := !v.hasFields
				for _, n := range v.fields {
					if n == f.name {
						use = true
					}
				}
				if use {
					run.Count("filter_impl_in_query:"+kindNames[f.kind], 1)
				}
			}
		} else if v.hasFilterText {
			run.Count("filter:text_without_tokens", 1)
		}
		if v.hasSortBy {
			o := "default_asc"
			if v.hasSortOrder {
				o = "asc"
				if v.desc {
					o = "desc"
				}
			}
			run.Count("sort:"+v.sortType+"/"+kindNames[v.sortKind]+"/"+o, 1)
			if c.dup {
				run.Count("sort:duplicate_values", 1)
			}
		}

		// whole-list query with the view only
		c.checkPage("view_only", wireArgs{}, pageArgs{}, r.Intn(3) == 0)

		// forward and backward walks
		for _, fwd := range []bool{true, false} {
			var k int
			switch r.Intn(5) {
			case 0:
				k = 1
			case 1:
				k = m + r.Intn(3)
				if k == 0 {
					k = 1
				}
			default:
				k = 1 + r.Intn(m/2+2)
			}
			c.walk(fwd, k, r.Intn(3) == 0, r.Intn(4) == 0)
		}

		// absolute positions
		nAbs := 10
		for j := 0; j < nAbs; j++ {
			c.absolute(r)
		}

		// one prepared query object executed repeatedly while the list changes
		for j := 0; j < 2; j++ {
			c.sequence(r)
		}
	}
	// histories: a filtered query that fails, then a batch-filtered query
	c.failHistory(r, 3)

	for k := 0; k < nCounters; k++ {
		run.Count("calls:"+counterNames[k], int(atomic.LoadInt64(&env.calls[k])))
	}
}

func TestCheck(t *testing.T) {
	run := vlib.Start(t, "C11", "exploration")
	defer run.Finish()
	run.Rule("case = one list (0-40 elements, unique int64 or string keys — in 30 % of the cases keys of a less common type with close printed forms: time.Time (distinct instants milli/micro/nanoseconds apart within one second, four locations), uint64 near 2^64 / 2^63 / 2^53, a named string type, a named int32 type near its limits —, sort values with duplicates, three mixed-case filter texts per element) served by one of eight thunder-managed paginated fields " +
		"(value/pointer nodes x int/string key, plus four fields for the other key types; every batch filter / sort field (and the batch leg of the with-fallback ones) carries the NumParallelInvocationsFunc option answering 1, 2, 3, 7 or 1000 per case, and a batch invocation yields the processor in proportion to the number of first-half elements it holds, so that concurrent invocations over later nodes would finish first; filter fields plain/Expensive/batch/batch-with-fallback, 36 sort fields = int64/string/float64/uint16/int32/uint32/float32 + int64 and uint64 with clusters of values above 2^53 (1<<60+d, MaxInt64-d, MinInt64+d, 1<<63+d, MaxUint64-d; d far below the float64 spacing) x plain/Expensive/batch/batch-with-fallback, fallback flags random; the model compares every sort value exactly in its own type) " +
		"x 1-2 views (filterText of space-separated words / quoted phrases / empty tokens, words and node texts in mixed case over a per-case 4-letter alphabet that in half of the cases contains non-ASCII letters (Latin-1, Cyrillic, Greek, letters whose two cases differ in encoded length: U+023A/U+2C65, Kelvin sign, U+0130), in a third of the cases also white-space runes that do not separate tokens (NBSP, U+3000, \\v, U+2028, U+0085, U+1680, U+2003) inside bare and quoted tokens and between the words of node texts, and \\t \\n \\f \\r as token separators; optional filterTextFields subset incl. an unknown name, sortBy/sortOrder asc/desc/default). " +
		"Per view: the whole list, a forward walk (first/after from endCursor while hasNextPage), a backward walk (last/before from startCursor while hasPrevPage), 10 absolute-position queries " +
		"(first or last in {0,1,<len,=len,>len}; after/before valid first/middle/last, unknown = garbage / empty / base64 of a missing key / cursor of a filtered-out element; both cursors ordered, adjacent, same, inverted), " +
		"and 2 prepared-query sequences: Parse + PrepareQuery ONCE, then 4-6 executions of the same *graphql.Query object while the mutable store behind the resolver grows (append / prepend / insert) and shrinks between executions " +
		"(first only, first + after the newest element, last only, last + before the oldest element, random; initial store often empty or smaller than first/last), each execution compared with the model on the then-current list; " +
		"and 3 two-query histories per case: a filtered query made to FAIL part-way (harness switch: per-element plain/Expensive/fallback filter funcs, sometimes batch funcs, return an error for a late element after earlier ones matched a broad text; its error is not judged) immediately followed by a batch-filtered first-page query or forward walk with a narrow text, compared with the model; cases run 8 at a time in one process; " +
		"arguments as literals or as variables; with and without batch.WithBatching. " +
		"One evaluation = one executed query compared with the reference model. Non-trivial = page cut short by first/last, or filter text with tokens, or duplicate sort values among the listed elements, or both cursors given; " +
		"distinct = (query kind, connection, list/filtered size buckets, filter/sort configuration, argument pattern, expected page shape).")
	run.Assume("keys are unique within a list and non-empty; first and last are never sent together and never negative (thunder rejects those by design)")
	run.Assume("filter texts stay inside the documented shapes: tokens separated by white space, quotes balanced, ASCII letters; filterTextFields, when sent, names at least one registered field; sort strings are lower-case ASCII")
	run.Assume("a cursor that names no element of the filtered list is ignored (thunder's snapshot tests 'after/before that doesn't match anything')")
	run.Assume("when both cursors name elements and `before` does not come after `after` (Relay: no before-edge among the remaining edges) hasNextPage is only checked one-sidedly; occurrences are counted under inverted_cursors:*")
	run.Assume("start/end cursor of an empty page are not constrained")

	schema, err := buildSchema()
	if err != nil {
		run.Broken("schema does not build: " + err.Error())
		return
	}
	ex := &executor{schema: schema}
	n := run.N(1000, 100000)
	run.Each(n, 8, func(i int) { runCase(run, ex, i) })
}
