package c11

import (
	"sort"
	"strings"
	"unicode"
)

// ---- reference model: filter -> stable sort -> Relay slicing -------------
//
// Nothing here calls thunder. The text-matching semantics are restated from
// doc/pagination.md, CHANGELOG ("filtering is case-insensitive") and the
// intent recorded in internal/filter's tests:
//   * the filter text is split at ASCII white space (space, \t, \n, \f, \r) into words; a double-quoted
//     phrase is one token (and may contain white space);
//   * an element passes when ANY non-empty token is a case-insensitive
//     substring of ANY of the considered filter fields' texts;
//   * an empty token ("") never matches; a filter text without any token
//     (empty / white space only) does not filter at all.
// The generator only emits filter texts whose tokens are separated by white
// space (a word glued to a quote has no documented meaning).

// mItem is the model's view of one list element.
type mItem struct {
	id   string // fmt %v of the key, unique
	attr Attr
}

// isSep: the characters that separate tokens. internal/filter splits with the
// regexp class \s, which (RE2) is exactly tab, newline, form feed, carriage
// return and space. Every other rune — including vertical tab, NBSP U+00A0,
// U+0085, U+1680, U+2003, U+2028, U+3000 — is an ordinary token character.
func isSep(r rune) bool {
	return r == ' ' || r == '\t' || r == '\n' || r == '\f' || r == '\r'
}

// tokenize splits a filter text. ok=false when the text is outside the
// documented shapes (word glued to a quoted phrase, unterminated quote).
func tokenize(text string) (tokens []string, ok bool) {
	rs := []rune(text)
	i := 0
	for i < len(rs) {
		if isSep(rs[i]) {
			i++
			continue
		}
		if rs[i] == '"' {
			j := i + 1
			for j < len(rs) && rs[j] != '"' {
				j++
			}
			if j == len(rs) {
				return nil, false // unterminated
			}
			tokens = append(tokens, string(rs[i+1:j]))
			i = j + 1
			if i < len(rs) && !isSep(rs[i]) {
				return nil, false // glued
			}
			continue
		}
		j := i
		for j < len(rs) && !isSep(rs[j]) {
			if rs[j] == '"' {
				return nil, false // glued
			}
			j++
		}
		tokens = append(tokens, string(rs[i:j]))
		i = j
	}
	return tokens, true
}

// lowerTable is the model's own case folding for the non-ASCII letters the
// generator uses (upper case -> lower case, per the Unicode simple lower-case
// mapping; note that some pairs differ in encoded length).
var lowerTable = map[rune]rune{
	'É': 'é', 'Ü': 'ü', 'Ñ': 'ñ', 'Ж': 'ж', 'Д': 'д', 'Λ': 'λ',
	'\u023A': '\u2C65', // Ⱥ (2 bytes) -> ⱥ (3 bytes)
	'\u212A': 'k',      // Kelvin sign (3 bytes) -> k
	'\u0130': 'i',      // İ (2 bytes) -> i
}

// modelLower lower-cases rune by rune: ASCII A-Z, the table above, anything
// else through the Unicode simple mapping.
func modelLower(s string) string {
	rs := []rune(s)
	for i, r := range rs {
		switch {
		case r >= 'A' && r <= 'Z':
			rs[i] = r + ('a' - 'A')
		case r < 0x80:
		default:
			if l, ok := lowerTable[r]; ok {
				rs[i] = l
			} else {
				rs[i] = unicode.ToLower(r)
			}
		}
	}
	return string(rs)
}

func matches(texts []string, tokens []string) bool {
	return matchesFold(texts, tokens, modelLower)
}

// asciiLower folds A-Z only (used to COUNT the views in which the folding of
// a non-ASCII letter decides the result; never used as the oracle).
func asciiLower(s string) string {
	b := []byte(s)
	for i, c := range b {
		if c >= 'A' && c <= 'Z' {
			b[i] = c + ('a' - 'A')
		}
	}
	return string(b)
}

func matchesFold(texts []string, tokens []string, lower func(string) string) bool {
	if len(tokens) == 0 {
		return true
	}
	for _, tok := range tokens {
		if tok == "" {
			continue
		}
		lt := lower(tok)
		for _, t := range texts {
			if strings.Contains(lower(t), lt) {
				return true
			}
		}
	}
	return false
}

// view is the filter + sort configuration of a query.
type view struct {
	hasFilterText bool
	filterText    string
	hasFields     bool
	fields        []string // as sent (may contain unknown names)
	hasSortBy     bool
	sortType      string // n s f u
	sortKind      implKind
	hasSortOrder  bool
	desc          bool
}

// filterActive says whether the filter text carries at least one token.
func (v view) filterActive() bool {
	if !v.hasFilterText {
		return false
	}
	toks, _ := tokenize(v.filterText)
	return len(toks) > 0
}

// apply returns the filtered and sorted list.
func (v view) apply(c connSpec, items []mItem) []mItem {
	return v.applyFold(c, items, modelLower)
}

func (v view) applyFold(c connSpec, items []mItem, lower func(string) string) []mItem {
	out := items
	if v.hasFilterText && v.filterText != "" {
		tokens, ok := tokenize(v.filterText)
		if !ok {
			panic("generator produced an out-of-scope filter text: " + v.filterText)
		}
		// considered fields -> indices of texts
		var textIdx []int
		for _, f := range c.filters {
			use := !v.hasFields
			for _, n := range v.fields {
				if n == f.name {
					use = true
				}
			}
			if use {
				textIdx = append(textIdx, f.text)
			}
		}
		out = nil
		for _, it := range items {
			texts := make([]string, 0, len(textIdx))
			for _, ti := range textIdx {
				texts = append(texts, it.attr.T[ti])
			}
			if matchesFold(texts, tokens, lower) {
				out = append(out, it)
			}
		}
	}
	if v.hasSortBy {
		out = append([]mItem(nil), out...)
		less := func(a, b Attr) bool { return lessBy(v.sortType, a, b) }
		desc := v.hasSortOrder && v.desc
		// insertion sort: obviously stable, lists are short
		for i := 1; i < len(out); i++ {
			for j := i; j > 0; j-- {
				var swap bool
				if desc {
					swap = less(out[j-1].attr, out[j].attr)
				} else {
					swap = less(out[j].attr, out[j-1].attr)
				}
				if !swap {
					break
				}
				out[j-1], out[j] = out[j], out[j-1]
			}
		}
	}
	return out
}

// hasDupSortValues: the sort is active and two listed elements compare equal.
func (v view) hasDupSortValues(l []mItem) bool {
	if !v.hasSortBy {
		return false
	}
	seen := map[interface{}]bool{}
	for _, it := range l {
		k := sortKey(v.sortType, it.attr)
		if seen[k] {
			return true
		}
		seen[k] = true
	}
	return false
}

// lessBy compares two sort values of the given kind EXACTLY in their own
// type (no conversion to a common numeric type).
func lessBy(typ string, a, b Attr) bool {
	switch typ {
	case "n":
		return a.N < b.N
	case "s":
		return a.S < b.S
	case "f":
		return a.F < b.F
	case "u":
		return a.U < b.U
	case "b":
		return a.B < b.B
	case "w":
		return a.W < b.W
	case "i":
		return a.I < b.I
	case "v":
		return a.V < b.V
	case "g":
		return a.G < b.G
	}
	panic("unknown sort kind " + typ)
}

func sortKey(typ string, a Attr) interface{} {
	switch typ {
	case "n":
		return a.N
	case "s":
		return a.S
	case "f":
		return a.F
	case "u":
		return a.U
	case "b":
		return a.B
	case "w":
		return a.W
	case "i":
		return a.I
	case "v":
		return a.V
	case "g":
		return a.G
	}
	panic("unknown sort kind " + typ)
}

// pageArgs are the Relay arguments; cursors are given as the *position* they
// name in the filtered+sorted list (-1 = names no element of that list).
type pageArgs struct {
	first, last         *int
	hasAfter, hasBefore bool
	afterPos, beforePos int
}

// page is what the model expects.
type page struct {
	lo, hi  int // the page is l[lo:hi]
	hasNext bool
	hasPrev bool
	// inverted: both cursors name elements and `before` does not come after
	// `after`. Relay (and thunder) then find no `before` edge among the edges
	// that remain after applying `after`; whether "the element named by
	// before" still counts for hasNextPage is ambiguous in the statement, so
	// in this situation hasNextPage is only required not to be true when the
	// literal reading says false.
	inverted bool
	cutFirst bool
	cutLast  bool
	avail    int // elements between the cursors (before first/last apply)
}

// slice is the Relay algorithm + the flag rule of the property statement.
func slice(m int, a pageArgs) page {
	lo, hi := 0, m
	var p page
	if a.hasAfter && a.afterPos >= 0 {
		lo = a.afterPos + 1
	}
	if a.hasBefore && a.beforePos >= 0 {
		if a.beforePos >= lo {
			hi = a.beforePos
		} else {
			p.inverted = true
		}
	}
	p.avail = hi - lo
	if p.avail < 0 {
		p.avail = 0
	}
	if a.first != nil && hi-lo > *a.first {
		hi = lo + *a.first
		p.cutFirst = true
	}
	if a.last != nil && hi-lo > *a.last {
		lo = hi - *a.last
		p.cutLast = true
	}
	p.lo, p.hi = lo, hi
	// "hasNextPage is true exactly when the page was cut short by first or
	// elements exist beyond the element named by before"
	p.hasNext = p.cutFirst || (a.hasBefore && a.beforePos >= 0 && a.beforePos < m-1)
	// "hasPrevPage symmetrically with last and after"
	p.hasPrev = p.cutLast || (a.hasAfter && a.afterPos > 0)
	return p
}

func sortedKeys(m map[string]int64) []string {
	ks := make([]string, 0, len(m))
	for k := range m {
		ks = append(ks, k)
	}
	sort.Strings(ks)
	return ks
}
