// Package c19 monitors property C19: @skip/@include behave as if the node were
// textually removed from or kept in the query.
package c19

import (
	"context"
	"fmt"
	"os"
	"strings"
	"testing"
	"time"

	"github.com/samsarahq/thunder/batch"
	"github.com/samsarahq/thunder/diff"
	"github.com/samsarahq/thunder/federation"
	"github.com/samsarahq/thunder/graphql"
	"github.com/samsarahq/thunder/reactive"
	"github.com/samsarahq/thunder/verifharness/gen"
	"github.com/samsarahq/thunder/verifharness/vlib"
)

func execute(schema *graphql.Schema, text string, vars map[string]interface{}, w *gen.World) (interface{}, error, string) {
	q, err := graphql.Parse(text, vars)
	if err != nil {
		return nil, err, "Parse"
	}
	if err := graphql.PrepareQuery(context.Background(), schema.Query, q.SelectionSet); err != nil {
		return nil, err, "PrepareQuery"
	}
	ctx := gen.WithUseBatch(gen.WithWorld(context.Background(), w), true)
	val, err := graphql.NewExecutor(graphql.NewImmediateGoroutineScheduler()).Execute(ctx, schema.Query, nil, q)
	return val, err, "Execute"
}

// executeInRerunner runs the query the way the HTTP and websocket servers do:
// inside a reactive rerunner with batching, where Expensive fields go through
// the reactive cache.
func executeInRerunner(schema *graphql.Schema, text string, vars map[string]interface{}, w *gen.World) (interface{}, error, string) {
	q, err := graphql.Parse(text, vars)
	if err != nil {
		return nil, err, "Parse"
	}
	if err := graphql.PrepareQuery(context.Background(), schema.Query, q.SelectionSet); err != nil {
		return nil, err, "PrepareQuery"
	}
	type res struct {
		val interface{}
		err error
	}
	out := make(chan res, 2)
	ex := graphql.NewExecutor(graphql.NewImmediateGoroutineScheduler())
	rr := reactive.NewRerunner(gen.WithUseBatch(gen.WithWorld(context.Background(), w), true), func(ctx context.Context) (interface{}, error) {
		val, err := ex.Execute(batch.WithBatching(ctx), schema.Query, nil, q)
		out <- res{val, err}
		return nil, nil
	}, 0, false)
	defer rr.Stop()
	select {
	case r := <-out:
		return r.val, r.err, "Execute(rerunner)"
	case <-time.After(60 * time.Second):
		return nil, nil, "timeout"
	}
}

func TestCheck(t *testing.T) {
	run := vlib.Start(t, "C19", "exploration")
	defer run.Finish()
	sd := gen.Zoo()
	run.Rule("queries generated over the zoo schema with @skip/@include (literal and variable conditions, supplied/defaulted) on fields, inline fragments, spreads of re-used named fragments, union-member fragments, same-alias duplicates where only one copy is annotated, both directives on one node in both orders, an excluded selection that shares its response key with a sibling it could not be merged with, one field selected twice under two aliases with equal text but freshly drawn directives; " +
		"every selection set keeps one un-annotated leaf so the pruned text is valid. Oracle: Execute(annotated) == Execute(textually pruned) on a plain and a batch configuration (and == reference evaluation of the annotated AST); every second case is also run inside a reactive rerunner on the all-Expensive configuration (reactive cache), every other second case additionally parses the annotated query with a Go variables map that has just served Parse of another generated document (same variable names, other defaults). " +
		"Non-trivial = at least one node excluded and one annotated node kept; distinct by annotated AST shape.")
	run.Assume("gen.Doc.Prune implements 'textually deleting every excluded node and dropping the directives from the rest'")
	var schemas []*graphql.Schema
	var names []string
	for _, m := range []gen.Mode{{Kind: gen.MPlain}, {Kind: gen.MBatch}, {Kind: gen.MExpensive}} {
		cfg := gen.Config{Modes: map[string]gen.Mode{}}
		for _, k := range sd.ModalFields() {
			if len(k) > 6 && k[:6] == "Query." && m.Kind == gen.MBatch {
				continue
			}
			cfg.Modes[k] = m
		}
		s, err := gen.Build(sd, cfg, &gen.Env{}).Build()
		if err != nil {
			run.Broken("schema build: " + err.Error())
			return
		}
		schemas = append(schemas, s)
		names = append(names, m.String())
	}
	// two federation gateways over seeded partitions of the same fields
	type gw struct {
		name string
		e    *federation.Executor
	}
	var gateways []gw
	gctx, gcancel := context.WithCancel(context.Background())
	defer gcancel()
	for g := 0; g < 2; g++ {
		gr := run.Rand("gateway", g)
		ns := 2 + g
		owner := map[string]int{}
		for _, k := range sd.ModalFields() {
			owner[k] = gr.Intn(ns)
		}
		execs := map[string]federation.ExecutorClient{}
		for sidx := 0; sidx < ns; sidx++ {
			sidx := sidx
			name := fmt.Sprintf("s%d", sidx)
			schema, err := gen.Build(sd, gen.Config{Service: name, Include: func(typ, field string) bool { return owner[typ+"."+field] == sidx }}, &gen.Env{}).Build()
			if err != nil {
				run.Broken("service schema build: " + err.Error())
				return
			}
			srv, err := federation.NewServer(schema)
			if err != nil {
				run.Broken("federation server: " + err.Error())
				return
			}
			execs[name] = &federation.DirectExecutorClient{Client: srv}
		}
		e, err := federation.NewExecutor(gctx, execs, &federation.SchemaSyncerConfig{SchemaSyncer: federation.NewIntrospectionSchemaSyncer(gctx, execs, nil)})
		if err != nil {
			run.Broken("gateway: " + err.Error())
			return
		}
		gateways = append(gateways, gw{name: fmt.Sprintf("gateway-%d-services", ns), e: e})
	}
	viaGateway := func(e *federation.Executor, text string, vars map[string]interface{}, w *gen.World) (interface{}, error) {
		q, err := graphql.Parse(text, vars)
		if err != nil {
			return nil, err
		}
		type res struct {
			v   interface{}
			err error
		}
		ch := make(chan res, 1)
		go func() {
			v, _, err := e.Execute(gen.WithUseBatch(gen.WithWorld(context.Background(), w), true), q, nil)
			ch <- res{v, err}
		}()
		select {
		case r := <-ch:
			if r.err != nil {
				return nil, r.err
			}
			j, _ := vlib.ToJSONForm(r.v)
			return diff.StripKey(j), nil
		case <-time.After(60 * time.Second):
			return nil, fmt.Errorf("gateway request did not return within 60s")
		}
	}
	// long chains of named fragments whose spreads all carry a directive that
	// keeps them: dropping the directives must change nothing, at any length
	// (limits that count a directive-carrying spread differently from a plain one)
	for ci, length := range []int{3, 40, 300, 600, 900} {
		caseIdx := 3000000 + ci
		r := run.Rand("chain", ci)
		w := gen.NewWorld(uint64(r.Int63()), 6, 4)
		var ann, plain strings.Builder
		ann.WriteString("query Q($yes: Boolean = true, $no: Boolean = false) { node(id: 2) { id ...F0 } }\n")
		plain.WriteString("{ node(id: 2) { id ...F0 } }\n")
		for k := 0; k < length; k++ {
			if k == length-1 {
				fmt.Fprintf(&ann, "fragment F%d on Node { grp name }\n", k)
				fmt.Fprintf(&plain, "fragment F%d on Node { grp name }\n", k)
				break
			}
			dir := []string{"@include(if: true)", "@skip(if: false)", "@include(if: $yes)", "@skip(if: $no)", "@include(if: true) @skip(if: false)"}[r.Intn(5)]
			fmt.Fprintf(&ann, "fragment F%d on Node { ...F%d %s }\n", k, k+1, dir)
			fmt.Fprintf(&plain, "fragment F%d on Node { ...F%d }\n", k, k+1)
		}
		text, ptext := ann.String(), plain.String()
		run.Case(fmt.Sprintf("chain-of-%d-kept-spreads", length), true)
		run.Count("fragment_chain_cases", 1)
		type target struct {
			name string
			exec func(text string) (interface{}, error)
		}
		targets := []target{{names[0], func(t string) (interface{}, error) {
			v, err, _ := execute(schemas[0], t, map[string]interface{}{}, w)
			return v, err
		}}}
		for _, g := range gateways {
			g := g
			targets = append(targets, target{g.name, func(t string) (interface{}, error) { return viaGateway(g.e, t, map[string]interface{}{}, w) }})
		}
		for _, tg := range targets {
			want, perr := tg.exec(ptext)
			if perr != nil {
				run.Inconclusive(fmt.Sprintf("chain case %d: directive-free chain of %d fragments failed on %s: %v", caseIdx, length, tg.name, vlib.Trunc(perr.Error(), 200)))
				continue
			}
			got, err := tg.exec(text)
			wit := map[string]interface{}{"annotated": vlib.Trunc(text, 1500), "pruned": vlib.Trunc(ptext, 800), "chain_length": length, "config": tg.name}
			if err != nil {
				wit["what"] = "a chain of named fragments with kept directive-carrying spreads fails while the same chain without the directives succeeds"
				wit["error"] = vlib.Trunc(err.Error(), 600)
				run.Violation(caseIdx, "", wit)
			} else if a, b := vlib.Canon(got), vlib.Canon(want); a != b {
				wit["what"] = "a chain of named fragments with kept directive-carrying spreads gives another result than the chain without the directives"
				wit["got"], wit["want"] = vlib.Trunc(a, 1500), vlib.Trunc(b, 1500)
				run.Violation(caseIdx, "", wit)
			}
		}
	}
	n := run.N(6000, 800000)
	run.Each(n, 8, func(i int) {
		r := run.Rand("query", i)
		w := gen.NewWorld(uint64(r.Int63()), 4+r.Intn(10), 3+r.Intn(6))
		o := gen.DefaultGenOpts()
		o.PDir = 0.2 + r.Float64()*0.3
		o.KeepPlainLeaf = true
		o.UnionSecondFragment = true
		o.UnionSelfFragment = true
		o.AvoidTypes = map[string]bool{"Bag": true} // Bag is not federated
		o.PNamed = 0.2
		o.PDupAlias = 0.25
		o.MaxDepth = 3 + r.Intn(3)
		if r.Intn(3) == 0 {
			o = gen.MergeHeavy(o)
		}
		// an excluded selection that could not be merged with its same-key sibling,
		// and one field selected twice with equal text but other directive outcomes
		o.PConflictExcluded = 0.06
		o.PCloneDirs = 0.12
		if os.Getenv("VERIF_SMALL") != "" {
			o.MaxDepth, o.MaxWidth, o.PVar = 2, 3, 0.05
		}
		doc := gen.Generate(r, sd, w, o)
		pruned := doc.Prune()
		if pruned.HasEmptySet() {
			run.Broken(fmt.Sprintf("case %d: pruned query has an empty selection set:\n%s", i, doc.Text()))
			return
		}
		text, vars := doc.Text(), doc.VarsJSON()
		ptext, pvars := pruned.Text(), pruned.VarsJSON()
		refA, errA := gen.Eval(sd, doc, w)
		refP, errP := gen.Eval(sd, pruned, w)
		if errA != nil || errP != nil || vlib.Canon(refA) != vlib.Canon(refP) {
			run.Broken(fmt.Sprintf("case %d: reference evaluation of annotated and pruned query disagree (%v %v)\n%s\n---\n%s", i, errA, errP, text, ptext))
			return
		}
		excluded, kept := countDirs(doc)
		ft := doc.Features(sd)
		run.Case(doc.Shape(), excluded > 0 && kept > 0)
		run.Count("directives_excluding", excluded)
		run.Count("directives_keeping", kept)
		if ft.NamedFragReuse > 0 {
			run.Count("query_feature:named_fragment_reused", 1)
		}
		if ft.Union > 0 {
			run.Count("query_feature:union", 1)
		}
		if ft.DupAlias > 0 {
			run.Count("query_feature:dup_alias", 1)
		}
		if doc.ConflictExcluded > 0 {
			run.Count("query_feature:excluded_unmergeable_same_key_sibling", 1)
		}
		if doc.ClonedDirs > 0 {
			run.Count("query_feature:field_selected_twice_equal_text_other_directives", 1)
		}
		if run.WantSample() && excluded > 1 && kept > 1 {
			run.Sample(map[string]interface{}{"annotated": text, "variables": vars, "pruned": ptext})
		}
		for si, schema := range schemas {
			wit := map[string]interface{}{"annotated": text, "variables": vars, "pruned": ptext, "pruned_variables": pvars, "config": names[si],
				"world": map[string]interface{}{"seed": w.Seed, "n": w.N, "m": w.M}}
			got, err, at := execute(schema, text, vars, w)
			want, perr, pat := execute(schema, ptext, pvars, w)
			if doc.ConflictExcluded > 0 && err != nil && at != "Execute" {
				// the excluded twin makes this document invalid GraphQL; a validation
				// that refuses it puts it outside the property
				run.Count("conflict_excluded_documents_refused_by_validation", 1)
				continue
			}
			if perr != nil {
				// the pruned query has no directives: its failure is not a C19 matter
				run.Inconclusive(fmt.Sprintf("case %d: pruned (directive-free) query failed at %s: %v", i, pat, perr))
				continue
			}
			if err != nil {
				wit["what"] = "annotated query failed at " + at + " while the pruned query succeeds"
				wit["error"] = err.Error()
				run.Violation(i, "", wit)
				continue
			}
			g, wnt := vlib.Canon(got), vlib.Canon(want)
			if g != wnt {
				wit["what"] = "annotated query result differs from pruned query result"
				wit["got"] = vlib.Trunc(g, 2500)
				wit["want"] = vlib.Trunc(wnt, 2500)
				run.Violation(i, "", wit)
			}
		}
		// inside a rerunner (reactive cache of Expensive fields), every 2nd case
		if i%2 == 1 || doc.ClonedDirs > 0 {
			si := 2 // the all-Expensive configuration
			wit := map[string]interface{}{"annotated": text, "variables": vars, "pruned": ptext, "pruned_variables": pvars, "config": names[si] + "+rerunner",
				"world": map[string]interface{}{"seed": w.Seed, "n": w.N, "m": w.M}}
			want, perr, _ := executeInRerunner(schemas[si], ptext, pvars, w)
			got, err, at := executeInRerunner(schemas[si], text, vars, w)
			run.Count("rerunner_comparisons", 1)
			switch {
			case at == "timeout":
				run.Inconclusive(fmt.Sprintf("case %d: rerunner execution did not report within 60s", i))
			case perr != nil:
			case doc.ConflictExcluded > 0 && err != nil && at != "Execute(rerunner)":
			case err != nil:
				wit["what"] = "annotated query failed at " + at + " while the pruned query succeeds"
				wit["error"] = err.Error()
				run.Violation(i, "", wit)
			case vlib.Canon(got) != vlib.Canon(want):
				wit["what"] = "inside a rerunner the annotated query result differs from the pruned query result"
				wit["got"], wit["want"] = vlib.Trunc(vlib.Canon(got), 2500), vlib.Trunc(vlib.Canon(want), 2500)
				run.Violation(i, "", wit)
			}
		}
		// One Go variables map serving two consecutive requests (callers that keep a
		// map per client): whatever Parse did with it for an earlier document must
		// not change what this document's conditions evaluate to.
		if i%2 == 0 {
			r2 := run.Rand("earlier-query", i)
			o2 := o
			o2.MaxDepth, o2.PVar, o2.PDir = 3, 0.5, 0.5
			earlier := gen.Generate(r2, sd, w, o2)
			shared := doc.VarsJSON()
			before := vlib.Canon(shared)
			_, _ = graphql.Parse(earlier.Text(), shared) // may be rejected (its own variables are not in the map)
			schema := schemas[i%len(schemas)]
			want, perr, _ := execute(schema, ptext, pvars, w)
			got, err, at := execute(schema, text, shared, w)
			run.Count("shared_variables_map_runs", 1)
			wit := map[string]interface{}{"annotated": text, "variables": vars, "pruned": ptext, "pruned_variables": pvars, "config": names[i%len(schemas)],
				"earlier_query_parsed_with_the_same_map": earlier.Text(), "variables_map_after_earlier_parse": vlib.Trunc(vlib.Canon(shared), 600), "variables_map_before": vlib.Trunc(before, 600)}
			switch {
			case perr != nil:
			case err != nil:
				wit["what"] = "annotated query failed at " + at + " when its variables map had served an earlier Parse, while the pruned query succeeds"
				wit["error"] = err.Error()
				run.Violation(i, "", wit)
			case vlib.Canon(got) != vlib.Canon(want):
				wit["what"] = "annotated query result differs from the pruned query's when its variables map had served an earlier Parse of another document"
				wit["got"], wit["want"] = vlib.Trunc(vlib.Canon(got), 2500), vlib.Trunc(vlib.Canon(want), 2500)
				run.Violation(i, "", wit)
			}
		}
		// the same through the federation gateway (every 3rd case)
		if i%3 == 0 {
			for _, g := range gateways {
				wit := map[string]interface{}{"annotated": text, "variables": vars, "pruned": ptext, "pruned_variables": pvars, "config": g.name,
					"world": map[string]interface{}{"seed": w.Seed, "n": w.N, "m": w.M}}
				want, perr := viaGateway(g.e, ptext, pvars, w)
				if perr != nil {
					run.Inconclusive(fmt.Sprintf("case %d: pruned (directive-free) query failed through %s: %v", i, g.name, vlib.Trunc(perr.Error(), 200)))
					continue
				}
				got, err := viaGateway(g.e, text, vars, w)
				run.Count("gateway_comparisons", 1)
				if err != nil {
					wit["what"] = "annotated query failed through the gateway while the pruned query succeeds"
					wit["error"] = vlib.Trunc(err.Error(), 600)
					run.Violation(i, "", wit)
					continue
				}
				if a, b := vlib.Canon(got), vlib.Canon(want); a != b {
					wit["what"] = "through the gateway the annotated query result differs from the pruned query result"
					wit["got"], wit["want"] = vlib.Trunc(a, 2500), vlib.Trunc(b, 2500)
					run.Violation(i, "", wit)
				}
			}
		}
	})
}

// countDirs counts annotated nodes that are excluded / kept.
func countDirs(d *gen.Doc) (excluded, kept int) {
	seen := map[*gen.SelSet]bool{}
	var walk func(s *gen.SelSet)
	walk = func(s *gen.SelSet) {
		if s == nil || seen[s] {
			return
		}
		seen[s] = true
		for _, it := range s.Items {
			var ds []gen.Dir
			var sub *gen.SelSet
			if it.Field != nil {
				ds, sub = it.Field.Dirs, it.Field.Sub
			} else {
				ds, sub = it.Frag.Dirs, it.Frag.Set
			}
			if len(ds) > 0 {
				if d.Included(ds) {
					kept++
				} else {
					excluded++
				}
			}
			walk(sub)
		}
	}
	walk(d.Root)
	return
}
