// Package c03 monitors property C03: applying Diff(old,new) to the key-stripped
// old value reproduces the key-stripped new value, with thunder's Go merge and
// with the documented delta format (port of client/src/merge.ts).
package c03

import (
	"encoding/json"
	"fmt"
	"math/rand"
	"os"
	"os/exec"
	"reflect"
	"sort"
	"strconv"
	"strings"
	"sync"
	"testing"

	"github.com/samsarahq/thunder/diff"
	"github.com/samsarahq/thunder/merge"
	"github.com/samsarahq/thunder/verifharness/vlib"
)

type named string

// "$" is the reorder marker inside array deltas; as an object field it is a name like any other
var fieldNames = []string{"a", "b", "c", "d", "name", "items", "x", "node", "0", "1", "id", "$", "", "$$", "length"}

type gen struct {
	r       *rand.Rand
	nextKey int
}

func (g *gen) scalar() interface{} {
	switch g.r.Intn(14) {
	case 0:
		return nil
	case 1:
		return g.r.Intn(2) == 0
	case 2:
		return g.r.Intn(5)
	case 3:
		return int64(g.r.Intn(5))
	case 4:
		return float64(g.r.Intn(5))
	case 5:
		return float64(g.r.Intn(50)) / 4
	case 6:
		return ""
	case 7:
		return []byte{byte(g.r.Intn(3)), 1}
	case 8:
		return named([]string{"x", "y"}[g.r.Intn(2)])
	case 9:
		return int32(g.r.Intn(4))
	case 10:
		return uint8(g.r.Intn(4))
	default:
		return []string{"x", "y", "z", "w", "hello"}[g.r.Intn(5)]
	}
}

func (g *gen) key() interface{} {
	g.nextKey++
	switch g.r.Intn(3) {
	case 0:
		return fmt.Sprintf("k%d", g.r.Intn(6))
	case 1:
		return int64(g.r.Intn(6))
	default:
		return g.r.Intn(6)
	}
}

func (g *gen) object(depth int, keyed bool) map[string]interface{} {
	m := map[string]interface{}{}
	n := g.r.Intn(5)
	for i := 0; i < n; i++ {
		m[fieldNames[g.r.Intn(len(fieldNames))]] = g.value(depth - 1)
	}
	if keyed {
		m["__key"] = g.key()
	}
	return m
}

func (g *gen) array(depth int) []interface{} {
	n := g.r.Intn(7)
	// spare capacity lets a later append share the backing array
	a := make([]interface{}, 0, n+g.r.Intn(4))
	kind := g.r.Intn(5)
	for i := 0; i < n; i++ {
		switch kind {
		case 0: // keyed objects
			a = append(a, g.object(depth-1, true))
		case 1: // unkeyed objects
			a = append(a, g.object(depth-1, false))
		case 2: // scalars (with duplicates)
			a = append(a, g.scalar())
		case 3: // small ints with many duplicates
			a = append(a, g.r.Intn(3))
		default:
			a = append(a, g.value(depth-1))
		}
	}
	return a
}

func (g *gen) value(depth int) interface{} {
	if depth <= 0 {
		return g.scalar()
	}
	switch g.r.Intn(10) {
	case 0, 1, 2:
		return g.scalar()
	case 3, 4, 5:
		return g.array(depth)
	case 6:
		return g.object(depth, true)
	default:
		return g.object(depth, false)
	}
}

// mutate returns a new value derived from v. Unchanged sub-trees are shared
// by reference (as thunder's executor output shares cached sub-results);
// changed containers are fresh copies. v itself is never written to.
func (g *gen) mutate(v interface{}, depth int) interface{} {
	if g.r.Intn(12) == 0 {
		return g.value(depth) // type change / replacement
	}
	switch v := v.(type) {
	case map[string]interface{}:
		if g.r.Intn(4) == 0 {
			return v // shared, unchanged
		}
		m := make(map[string]interface{}, len(v))
		for k, x := range v {
			m[k] = x
		}
		ops := 1 + g.r.Intn(3)
		for o := 0; o < ops; o++ {
			switch g.r.Intn(7) {
			case 0: // field appears (any kind of value)
				m[fieldNames[g.r.Intn(len(fieldNames))]] = g.value(depth - 1)
			case 1: // field appears with a specific complex shape
				k := fieldNames[g.r.Intn(len(fieldNames))]
				switch g.r.Intn(5) {
				case 0:
					m[k] = []interface{}{}
				case 1:
					m[k] = []interface{}{g.scalar(), g.scalar()}
				case 2:
					m[k] = map[string]interface{}{}
				case 3:
					m[k] = nil
				default:
					m[k] = g.object(depth-1, g.r.Intn(2) == 0)
				}
			case 2: // field disappears
				for k := range sortedKeys(m) {
					_ = k
				}
				ks := sortedKeys(m)
				if len(ks) > 0 {
					k := ks[g.r.Intn(len(ks))]
					if k != "__key" || g.r.Intn(4) == 0 {
						delete(m, k)
					}
				}
			case 3: // key changes
				if _, ok := m["__key"]; ok {
					m["__key"] = g.key()
				}
			default: // nested mutation
				ks := sortedKeys(m)
				if len(ks) > 0 {
					k := ks[g.r.Intn(len(ks))]
					if k != "__key" {
						m[k] = g.mutate(m[k], depth-1)
					}
				}
			}
		}
		return m
	case []interface{}:
		if g.r.Intn(5) == 0 {
			return v
		}
		// aliasing: the new slice shares old's backing array (a prefix, or an
		// append into spare capacity), as code that edits results in place produces
		switch g.r.Intn(10) {
		case 0:
			if len(v) > 0 {
				return v[:g.r.Intn(len(v))]
			}
		case 1:
			if cap(v) > len(v) {
				return append(v, g.value(depth-1))
			}
		}
		a := append([]interface{}{}, v...)
		ops := 1 + g.r.Intn(3)
		for o := 0; o < ops; o++ {
			switch g.r.Intn(11) {
			case 0: // insert
				i := g.r.Intn(len(a) + 1)
				var nv interface{}
				if len(a) > 0 && g.r.Intn(2) == 0 {
					nv = g.similar(a[g.r.Intn(len(a))], depth-1)
				} else {
					nv = g.value(depth - 1)
				}
				a = append(a[:i], append([]interface{}{nv}, a[i:]...)...)
			case 1: // delete
				if len(a) > 0 {
					i := g.r.Intn(len(a))
					a = append(a[:i:i], a[i+1:]...)
				}
			case 2: // duplicate
				if len(a) > 0 {
					i := g.r.Intn(len(a))
					a = append(a, a[i])
				}
			case 3: // move
				if len(a) > 1 {
					i, j := g.r.Intn(len(a)), g.r.Intn(len(a))
					x := a[i]
					a = append(a[:i:i], a[i+1:]...)
					a = append(a[:j:j], append([]interface{}{x}, a[j:]...)...)
				}
			case 4: // rotate
				if len(a) > 1 {
					k := 1 + g.r.Intn(len(a)-1)
					a = append(append([]interface{}{}, a[k:]...), a[:k]...)
				}
			case 5: // reverse
				for i, j := 0, len(a)-1; i < j; i, j = i+1, j-1 {
					a[i], a[j] = a[j], a[i]
				}
			case 6: // truncate
				if len(a) > 0 {
					a = a[:g.r.Intn(len(a))]
				}
			case 7: // drop prefix (keeps a run that does not start at 0)
				if len(a) > 1 {
					a = append([]interface{}{}, a[1+g.r.Intn(len(a)-1):]...)
				}
			case 8: // shuffle
				g.r.Shuffle(len(a), func(i, j int) { a[i], a[j] = a[j], a[i] })
			default: // nested mutation
				if len(a) > 0 {
					i := g.r.Intn(len(a))
					a[i] = g.mutate(a[i], depth-1)
				}
			}
		}
		return a
	default:
		if g.r.Intn(3) == 0 {
			return v
		}
		if g.r.Intn(4) == 0 {
			// a change of type that keeps the printed form: 17 <-> "17", true <-> "true"
			switch x := v.(type) {
			case string:
				if f, err := strconv.ParseFloat(x, 64); err == nil {
					return f
				}
				if x == "true" || x == "false" {
					return x == "true"
				}
			case nil:
				return "<nil>"
			case []byte, named:
			default:
				return fmt.Sprint(x)
			}
		}
		return g.scalar()
	}
}

// similar makes a value of the same kind as v (new keyed object next to keyed
// objects, scalar next to scalars).
func (g *gen) similar(v interface{}, depth int) interface{} {
	switch v := v.(type) {
	case map[string]interface{}:
		_, keyed := v["__key"]
		return g.object(depth, keyed)
	case []interface{}:
		return g.array(depth)
	default:
		return g.scalar()
	}
}

func sortedKeys(m map[string]interface{}) []string {
	ks := make([]string, 0, len(m))
	for k := range m {
		ks = append(ks, k)
	}
	sort.Strings(ks)
	return ks
}

// deltaShape abstracts a JSON-form delta: structure, "$" runs/indices kinds,
// removals, replacement kinds — scalars collapse to their kind.
func deltaShape(d interface{}, sb *strings.Builder, feats map[string]bool, inDollar bool) {
	switch d := d.(type) {
	case map[string]interface{}:
		sb.WriteString("{")
		for _, k := range sortedKeys(d) {
			if k == "$" {
				feats["reorder"] = true
				sb.WriteString("$:")
				if arr, ok := d[k].([]interface{}); ok {
					for _, x := range arr {
						switch x := x.(type) {
						case []interface{}:
							feats["run"] = true
							if len(x) == 2 {
								if s, ok := x[0].(float64); ok && s > 0 {
									feats["run_nonzero_start"] = true
								}
							}
							sb.WriteString("R")
						case float64:
							if x < 0 {
								feats["new_element"] = true
								sb.WriteString("-")
							} else {
								sb.WriteString("i")
							}
						}
					}
				}
				continue
			}
			if _, err := fmt.Sscanf(k, "%d", new(int)); err == nil {
				sb.WriteString("#:")
			} else {
				sb.WriteString(k + ":")
			}
			deltaShape(d[k], sb, feats, false)
		}
		sb.WriteString("}")
	case []interface{}:
		if len(d) == 0 {
			feats["removal"] = true
			sb.WriteString("[]")
		} else if len(d) == 1 {
			feats["complex_replacement"] = true
			sb.WriteString("[" + kindOf(d[0]) + "]")
		} else {
			feats["raw_array"] = true
			sb.WriteString("[raw]")
		}
	default:
		sb.WriteString(kindOf(d))
	}
}

func kindOf(v interface{}) string {
	switch v.(type) {
	case nil:
		return "null"
	case map[string]interface{}:
		return "obj"
	case []interface{}:
		return "arr"
	case string:
		return "s"
	case float64:
		return "n"
	case bool:
		return "b"
	}
	return "?"
}

func js(v interface{}) string {
	b, err := json.Marshal(v)
	if err != nil {
		return fmt.Sprintf("<<%v>>", err)
	}
	return vlib.Trunc(string(b), 1500)
}

func TestCheck(t *testing.T) {
	run := vlib.Start(t, "C03", "exploration")
	defer run.Finish()
	run.Rule("pairs (old,new): old generated (depth<=4, width<=6; executor-form scalars: Go ints, []byte, named strings, nil), new = seeded mutation of old sharing unchanged sub-trees by reference " +
		"(insert/delete/duplicate/move/rotate/reverse/truncate/drop-prefix/shuffle on arrays with and without __key, key changes, type changes, fields appearing with scalar/array/empty-array/object/null values, fields disappearing). " +
		"Non-trivial = the JSON delta contains a '$' reordering, a removal marker or a complex replacement; distinct = delta shape (structure with scalars collapsed to kinds).")
	run.Assume("__key values are comparable scalars (strings, ints) as thunder's executor produces them")
	run.Assume("vlib.MergeTS is a faithful port of client/src/merge.ts (validated against node when VERIF_NODE_CROSSCHECK=1)")
	n := run.N(30000, 12000000)
	par := 8
	defer crossCheckPort(run)
	run.Each(n, par, func(i int) {
		r := run.Rand("pair", i)
		g := &gen{r: r}
		depth := 1 + r.Intn(4)
		old := g.value(depth)
		// bias towards containers at the top
		if r.Intn(3) != 0 {
			if r.Intn(2) == 0 {
				old = g.array(depth)
			} else {
				old = g.object(depth, r.Intn(3) == 0)
			}
		}
		nw := g.mutate(old, depth)
		if r.Intn(6) == 0 {
			nw = g.mutate(nw, depth)
		}
		checkPair(run, i, old, nw)
	})
}

func checkPair(run *vlib.Run, i int, old, nw interface{}) {
	oldCopy, newCopy := vlib.DeepCopyJSON(old), vlib.DeepCopyJSON(nw)
	wit := func(extra map[string]interface{}) map[string]interface{} {
		w := map[string]interface{}{"old": js(oldCopy), "new": js(newCopy)}
		for k, v := range extra {
			w[k] = v
		}
		return w
	}
	var d interface{}
	func() {
		defer func() {
			if p := recover(); p != nil {
				run.Violation(i, "", wit(map[string]interface{}{"what": "diff.Diff panicked", "panic": fmt.Sprint(p)}))
				d = nil
			}
		}()
		d = diff.Diff(old, nw)
	}()
	if !reflect.DeepEqual(old, oldCopy) || !reflect.DeepEqual(nw, newCopy) {
		run.Violation(i, "", wit(map[string]interface{}{"what": "Diff modified an argument", "old_after": js(old), "new_after": js(nw)}))
	}
	db, err := json.Marshal(d)
	if err != nil {
		run.Violation(i, "", wit(map[string]interface{}{"what": "delta does not survive json.Marshal", "err": err.Error()}))
		return
	}
	var dj interface{}
	if err := json.Unmarshal(db, &dj); err != nil {
		run.Violation(i, "", wit(map[string]interface{}{"what": "delta does not re-parse", "err": err.Error()}))
		return
	}
	oldJ, err1 := vlib.ToJSONForm(old)
	newJ, err2 := vlib.ToJSONForm(nw)
	if err1 != nil || err2 != nil {
		run.Broken(fmt.Sprintf("generator produced unserialisable value: %v %v", err1, err2))
		return
	}
	so, sn := diff.StripKey(oldJ), diff.StripKey(newJ)
	want := vlib.Canon(sn)

	var sb strings.Builder
	feats := map[string]bool{}
	deltaShape(dj, &sb, feats, false)
	nontrivial := feats["reorder"] || feats["removal"] || feats["complex_replacement"]
	run.Case(sb.String(), nontrivial)
	for f := range feats {
		run.Count("delta_feature:"+f, 1)
	}
	collectForNode(i, so, dj)
	if d == nil {
		run.Count("nil_delta", 1)
		if vlib.Canon(so) != want {
			run.Violation(i, "", wit(map[string]interface{}{"what": "Diff returned nil for values that differ after StripKey"}))
		}
	} else {
		// thunder's Go merge
		var got interface{}
		var merr error
		func() {
			defer func() {
				if p := recover(); p != nil {
					merr = fmt.Errorf("merge.Merge panicked: %v", p)
				}
			}()
			got, merr = merge.Merge(vlib.DeepCopyJSON(so), vlib.DeepCopyJSON(dj))
		}()
		if merr != nil {
			run.Violation(i, classifyGo(dj), wit(map[string]interface{}{"what": "merge.Merge failed on Diff's own delta", "delta": string(db), "err": merr.Error()}))
		} else if c := vlib.Canon(got); c != want {
			run.Violation(i, classifyGo(dj), wit(map[string]interface{}{"what": "merge.Merge(StripKey(old), Diff(old,new)) != StripKey(new)", "delta": string(db), "got": vlib.Trunc(c, 1500), "want": vlib.Trunc(want, 1500)}))
		}
		// documented client format (merge.ts)
		ts, terr := vlib.MergeTS(vlib.DeepCopyJSON(so), vlib.DeepCopyJSON(dj))
		if terr != nil {
			run.Violation(i, "", wit(map[string]interface{}{"what": "merge.ts port rejects Diff's own delta", "delta": string(db), "err": terr.Error()}))
		} else if vlib.HasUndefined(ts) {
			run.Violation(i, "", wit(map[string]interface{}{"what": "merge.ts result contains undefined", "delta": string(db)}))
		} else if c := vlib.Canon(ts); c != want {
			run.Violation(i, "", wit(map[string]interface{}{"what": "merge.ts(StripKey(old), Diff(old,new)) != StripKey(new)", "delta": string(db), "got": vlib.Trunc(c, 1500), "want": vlib.Trunc(want, 1500)}))
		}
		if run.WantSample() && nontrivial {
			run.Sample(map[string]interface{}{"old": js(oldCopy), "new": js(newCopy), "delta": string(db)})
		}
	}
	// self-diff
	if x := diff.Diff(old, old); x != nil {
		run.Violation(i, "", wit(map[string]interface{}{"what": "Diff(x,x) != nil", "delta": js(x)}))
	}
	if x := diff.Diff(nw, vlib.DeepCopyJSON(nw)); x != nil {
		run.Violation(i, "", wit(map[string]interface{}{"what": "Diff(x,deepcopy(x)) != nil", "delta": js(x)}))
	}
}

// classifyGo names nothing: no C03 defect is recorded as known; every
// mismatch is an unclassified violation.
func classifyGo(dj interface{}) string { return "" }

// ---- validation of the merge.ts port against the real client/src/merge.ts under node (when available) ----

type nodeCase struct {
	Old   interface{} `json:"old"`
	Delta interface{} `json:"delta"`
}

var (
	nodeMu    sync.Mutex
	nodeCases []nodeCase
)

func collectForNode(i int, so, dj interface{}) {
	if i%50 != 0 || dj == nil {
		return
	}
	nodeMu.Lock()
	if len(nodeCases) < 5000 {
		nodeCases = append(nodeCases, nodeCase{Old: vlib.DeepCopyJSON(so), Delta: vlib.DeepCopyJSON(dj)})
	}
	nodeMu.Unlock()
}

// crossCheckPort runs the collected (old, delta) pairs through the real
// merge.ts and compares with vlib.MergeTS. A disagreement means the port (the
// harness) is wrong, never thunder.
func crossCheckPort(run *vlib.Run) {
	node, err := exec.LookPath("node")
	if err != nil {
		run.Set("merge_ts_port_validated_against_node", "node not installed: port not cross-checked in this run")
		return
	}
	src, err := os.ReadFile("/repo/client/src/merge.ts")
	if v := os.Getenv("VERIF_REPO"); v != "" {
		src, err = os.ReadFile(v + "/client/src/merge.ts")
	}
	if err != nil {
		run.Set("merge_ts_port_validated_against_node", "merge.ts not readable")
		return
	}
	js := strings.NewReplacer("export function", "function", ": any", "").Replace(string(src))
	dir, err := os.MkdirTemp(os.Getenv("VERIF_WORK"), "c03node")
	if err != nil {
		return
	}
	defer os.RemoveAll(dir)
	nodeMu.Lock()
	cases := nodeCases
	nodeMu.Unlock()
	in, _ := json.Marshal(cases)
	_ = os.WriteFile(dir+"/cases.json", in, 0o644)
	script := js + `
const fs = require("fs");
const cases = JSON.parse(fs.readFileSync(process.argv[2], "utf8"));
const out = cases.map(c => { try { const r = merge(c.old, c.delta); return {ok: true, hasUndef: JSON.stringify(r, (k, v) => v === undefined ? "__UNDEF__" : v).includes("__UNDEF__"), v: r === undefined ? null : r}; } catch (e) { return {ok: false, err: String(e)}; } });
fs.writeFileSync(process.argv[3], JSON.stringify(out));
`
	_ = os.WriteFile(dir+"/run.js", []byte(script), 0o644)
	cmd := exec.Command(node, dir+"/run.js", dir+"/cases.json", dir+"/out.json")
	if b, err := cmd.CombinedOutput(); err != nil {
		run.Set("merge_ts_port_validated_against_node", "node run failed: "+vlib.Trunc(string(b), 300))
		return
	}
	ob, _ := os.ReadFile(dir + "/out.json")
	var outs []struct {
		OK       bool        `json:"ok"`
		HasUndef bool        `json:"hasUndef"`
		V        interface{} `json:"v"`
		Err      string      `json:"err"`
	}
	if err := json.Unmarshal(ob, &outs); err != nil || len(outs) != len(cases) {
		run.Set("merge_ts_port_validated_against_node", "node output unreadable")
		return
	}
	disagree := 0
	for k, c := range cases {
		port, perr := vlib.MergeTS(vlib.DeepCopyJSON(c.Old), vlib.DeepCopyJSON(c.Delta))
		switch {
		case perr != nil && !outs[k].OK:
		case perr != nil || !outs[k].OK:
			disagree++
		case vlib.HasUndefined(port) != outs[k].HasUndef:
			disagree++
		case !outs[k].HasUndef && vlib.Canon(port) != vlib.Canon(outs[k].V):
			disagree++
		}
		if disagree == 1 && (perr != nil || !outs[k].OK || vlib.Canon(port) != vlib.Canon(outs[k].V)) {
			run.Broken(fmt.Sprintf("vlib.MergeTS disagrees with the real merge.ts on old=%s delta=%s: port=%s (%v) node=%s (%s)", js1(c.Old), js1(c.Delta), js1(port), perr, js1(outs[k].V), outs[k].Err))
		}
	}
	run.Set("merge_ts_port_validated_against_node", map[string]interface{}{"pairs": len(cases), "disagreements": disagree})
}

func js1(v interface{}) string { return js(v) }
