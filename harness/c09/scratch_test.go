package c09

import (
	"fmt"
	"testing"

	"github.com/samsarahq/thunder/graphql/introspection"
	"github.com/samsarahq/thunder/graphql/schemabuilder"
)

type sUser struct {
	Id   int64
	Name string
}
type sKind int32
type sIn struct{ A int64 }

func TestScratch(t *testing.T) {
	s := schemabuilder.NewSchemaWithName("s1")
	s.Enum(sKind(0), map[string]sKind{"A": 0, "B": 1})
	u := s.Object("User", sUser{}, schemabuilder.FetchObjectFromKeys(func(args struct{ Keys []*sUser }) []*sUser { return args.Keys }))
	u.Key("id")
	u.FieldFunc("kind", func(u *sUser, args struct {
		K  *sKind
		In *sIn
	}) sKind {
		return 0
	})
	s.Query().FieldFunc("users", func() []*sUser { return nil })
	s.Mutation()
	b, err := introspection.RunIntrospectionQuery(introspection.BareIntrospectionSchema(s.MustBuild()))
	fmt.Println(string(b), err)
}
