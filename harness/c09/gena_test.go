package c09

import (
	"fmt"
	"math/rand"
	"sort"
	"strings"
)

// Generator A: synthetic federated schema sets.
//
// A universe (enums, input objects, objects with key field "id", a union, root
// query/mutation fields) is distributed over 1-3 services following thunder's
// federation conventions (an object that lives on more than one service has
// `_federation` on each of them and a Federation.<service>_<Object>(keys:) field).
// Every service then gets 1-3 versions, each the service's base view plus a few
// mutations (fields / args / enum values / union members / input fields added
// or removed, nullability flipped, lists wrapped).

var scalarNames = []string{"int64", "string", "bool", "float64"}

type genA struct {
	r    *rand.Rand
	nsvc int

	enums  map[string][]string   // universe enum values
	inputs map[string][]inputVal // universe input objects
	objs   []string
	// present[obj][svc]
	present   map[string][]bool
	federated map[string]bool
	union     string
	unionMem  []string

	base []*schemaDef // per service
	feat map[string]int
}

func (g *genA) pick(xs []string) string { return xs[g.r.Intn(len(xs))] }

func (g *genA) chance(p float64) bool { return g.r.Float64() < p }

// wrap adds random nullability / list nesting around a named type.
func (g *genA) wrap(t *tref, input bool) *tref {
	if g.chance(0.5) {
		t = nonNull(t)
	}
	if g.chance(0.25) {
		t = listOf(t)
		if g.chance(0.5) {
			t = nonNull(t)
		}
		if g.chance(0.08) {
			t = listOf(t)
		}
	}
	return t
}

func (g *genA) inputLeaf(allowInput bool) *tref {
	switch x := g.r.Intn(10); {
	case x < 6:
		return named("SCALAR", g.pick(scalarNames))
	case x < 8 || !allowInput || len(g.inputs) == 0:
		return named("ENUM", g.pick(sortedKeysS(g.enums)))
	default:
		return named("INPUT_OBJECT", g.pick(sortedKeysI(g.inputs)))
	}
}

func sortedKeysS(m map[string][]string) []string {
	ks := make([]string, 0, len(m))
	for k := range m {
		ks = append(ks, k)
	}
	sort.Strings(ks)
	return ks
}

func sortedKeysI(m map[string][]inputVal) []string {
	ks := make([]string, 0, len(m))
	for k := range m {
		ks = append(ks, k)
	}
	sort.Strings(ks)
	return ks
}

var argNames = []string{"a", "b", "c", "first", "filter"}

func (g *genA) args(max int) []inputVal {
	var out []inputVal
	n := 0
	if g.chance(0.55) {
		n = 1 + g.r.Intn(max)
	}
	perm := g.r.Perm(len(argNames))
	for i := 0; i < n; i++ {
		t := g.inputLeaf(true)
		if t.Kind == "INPUT_OBJECT" {
			// keep optional or required, sometimes a list
			t = g.wrap(t, true)
		} else {
			t = g.wrap(t, true)
		}
		out = append(out, inputVal{argNames[perm[i]], t})
	}
	return out
}

// objsIn lists objects present in all the given services.
func (g *genA) objsIn(svcs []int) []string {
	var out []string
	for _, o := range g.objs {
		ok := true
		for _, s := range svcs {
			if !g.present[o][s] {
				ok = false
			}
		}
		if ok {
			out = append(out, o)
		}
	}
	return out
}

func (g *genA) unionViewNonEmpty(svcs []int) bool {
	if g.union == "" {
		return false
	}
	for _, s := range svcs {
		n := 0
		for _, m := range g.unionMem {
			if g.present[m][s] {
				n++
			}
		}
		if n == 0 {
			return false
		}
	}
	return true
}

// outType picks an output type usable by all owners.
func (g *genA) outType(owners []int, objBias float64) *tref {
	cands := g.objsIn(owners)
	if g.chance(objBias) && len(cands) > 0 {
		if g.chance(0.2) && g.unionViewNonEmpty(owners) {
			t := named("UNION", g.union)
			if g.chance(0.5) {
				t = listOf(t)
			}
			return t
		}
		t := named("OBJECT", g.pick(cands))
		if g.chance(0.3) {
			t = nonNull(t)
		}
		if g.chance(0.5) {
			t = listOf(t)
			if g.chance(0.4) {
				t = nonNull(t)
			}
		}
		return t
	}
	if g.chance(0.25) {
		return g.wrap(named("ENUM", g.pick(sortedKeysS(g.enums))), false)
	}
	return g.wrap(named("SCALAR", g.pick(scalarNames)), false)
}

func (g *genA) owners() []int {
	o := []int{g.r.Intn(g.nsvc)}
	if g.nsvc > 1 && g.chance(0.08) {
		for {
			x := g.r.Intn(g.nsvc)
			if x != o[0] {
				o = append(o, x)
				break
			}
		}
		g.feat["gen:shared_field"]++
	}
	return o
}

func ensureObj(s *schemaDef, name string) *typeDef {
	t, ok := s.Types[name]
	if !ok {
		t = &typeDef{Name: name, Kind: "OBJECT"}
		s.Types[name] = t
	}
	return t
}

// varyForOwner gives the second owner of a shared field a slightly different
// declaration (models services built from different versions of shared code).
func (g *genA) varyForOwner(f fieldDef, idx int) fieldDef {
	nf := fieldDef{Name: f.Name, Type: f.Type.clone()}
	for _, a := range f.Args {
		nf.Args = append(nf.Args, inputVal{a.Name, a.Type.clone()})
	}
	if idx == 0 {
		return nf
	}
	switch g.r.Intn(5) {
	case 0: // drop an optional arg
		for i, a := range nf.Args {
			if a.Type.Kind != "NON_NULL" {
				nf.Args = append(nf.Args[:i:i], nf.Args[i+1:]...)
				g.feat["gen:shared_field_arg_dropped"]++
				break
			}
		}
	case 1: // extra optional arg
		nf.Args = append(nf.Args, inputVal{"extra", named("SCALAR", "string")})
		g.feat["gen:shared_field_arg_added"]++
	case 2: // output nullability differs
		flipLevel(nf.Type, 0, g.r)
	}
	return nf
}

func newGenA(r *rand.Rand) *genA {
	g := &genA{r: r, enums: map[string][]string{}, inputs: map[string][]inputVal{}, present: map[string][]bool{}, federated: map[string]bool{}, feat: map[string]int{}}
	switch x := r.Intn(10); {
	case x < 1:
		g.nsvc = 1
	case x < 6:
		g.nsvc = 2
	default:
		g.nsvc = 3
	}
	// enums
	pool := []string{"A", "B", "C", "D", "E"}
	for i, ne := 0, 1+r.Intn(2); i < ne; i++ {
		n := 2 + r.Intn(3)
		perm := r.Perm(len(pool))
		var vs []string
		for _, p := range perm[:n] {
			vs = append(vs, pool[p])
		}
		g.enums[fmt.Sprintf("E%d", i)] = vs
	}
	// input objects (I1 may nest I0; no cycles)
	ni := 1 + r.Intn(2)
	fnames := []string{"x", "y", "z", "w"}
	for i := 0; i < ni; i++ {
		var fs []inputVal
		nf := 2 + r.Intn(3)
		perm := r.Perm(len(fnames))
		for j := 0; j < nf; j++ {
			var t *tref
			if i == 1 && j == 0 {
				t = named("INPUT_OBJECT", "I0")
				if g.chance(0.4) {
					t = nonNull(t)
				}
				if g.chance(0.3) {
					t = listOf(t)
				}
			} else {
				t = g.wrap(g.inputLeaf(false), true)
			}
			fs = append(fs, inputVal{fnames[perm[j]], t})
		}
		// at least one optional field so cross-service views can differ
		fs[len(fs)-1].Type = stripNonNull(fs[len(fs)-1].Type)
		g.inputs[fmt.Sprintf("I%d", i)] = fs
	}
	// objects and where they live
	no := 2 + r.Intn(3)
	for i := 0; i < no; i++ {
		o := fmt.Sprintf("O%d", i)
		g.objs = append(g.objs, o)
		pr := make([]bool, g.nsvc)
		pr[r.Intn(g.nsvc)] = true
		for s := range pr {
			if g.chance(0.45) {
				pr[s] = true
			}
		}
		g.present[o] = pr
		n := 0
		for _, p := range pr {
			if p {
				n++
			}
		}
		g.federated[o] = n >= 2 && !g.chance(0.1)
		if n >= 2 && !g.federated[o] {
			g.feat["gen:plain_shared_object"]++
		}
	}
	if g.chance(0.6) {
		g.union = "U0"
		perm := r.Perm(len(g.objs))
		n := 2
		if len(g.objs) > 2 && g.chance(0.5) {
			n = 3
		}
		for _, p := range perm[:n] {
			g.unionMem = append(g.unionMem, g.objs[p])
		}
		sort.Strings(g.unionMem)
	}

	for s := 0; s < g.nsvc; s++ {
		b := newSchemaDef()
		b.Types["Query"] = &typeDef{Name: "Query", Kind: "OBJECT"}
		b.Types["Mutation"] = &typeDef{Name: "Mutation", Kind: "OBJECT"}
		g.base = append(g.base, b)
	}

	// object fields
	for _, o := range g.objs {
		var svcs []int
		for s, p := range g.present[o] {
			if p {
				svcs = append(svcs, s)
			}
		}
		for _, s := range svcs {
			t := ensureObj(g.base[s], o)
			t.Fields = append(t.Fields, fieldDef{Name: "id", Type: nonNull(named("SCALAR", "int64"))})
			if g.federated[o] || (len(svcs) == 1 && g.chance(0.5)) {
				// single-service objects registered with FetchObjectFromKeys look the same
				if len(svcs) == 1 {
					g.federated[o] = true
				}
				t.Fields = append(t.Fields, fieldDef{Name: "_federation", Type: named("OBJECT", o)})
				q := g.base[s].Types["Query"]
				if q.field("_federation") == nil {
					q.Fields = append(q.Fields, fieldDef{Name: "_federation", Type: nonNull(named("OBJECT", "Federation"))})
				}
				fed := ensureObj(g.base[s], "Federation")
				keyIn := fmt.Sprintf("%sKeys%d_InputObject", o, s)
				g.base[s].Types[keyIn] = &typeDef{Name: keyIn, Kind: "INPUT_OBJECT", InputFields: []inputVal{{"id", nonNull(named("SCALAR", "int64"))}}}
				fed.Fields = append(fed.Fields, fieldDef{
					Name: svcPlaceholder + "_" + o,
					Type: nonNull(listOf(nonNull(named("OBJECT", o)))),
					Args: []inputVal{{"keys", nonNull(listOf(named("INPUT_OBJECT", keyIn)))}},
				})
			}
		}
		nf := 2 + r.Intn(3)
		for j := 0; j < nf; j++ {
			var owners []int
			if len(svcs) >= 2 && !g.federated[o] {
				owners = svcs // plain shared object: same fields everywhere
			} else {
				owners = []int{svcs[r.Intn(len(svcs))]}
				if len(svcs) > 1 && g.chance(0.08) {
					for {
						x := svcs[r.Intn(len(svcs))]
						if x != owners[0] {
							owners = append(owners, x)
							break
						}
					}
					g.feat["gen:shared_field"]++
				}
			}
			f := fieldDef{Name: fmt.Sprintf("f%d", j), Type: g.outType(owners, 0.3)}
			if g.chance(0.4) {
				f.Args = g.args(2)
			}
			for k, s := range owners {
				t := g.base[s].Types[o]
				if len(svcs) >= 2 && !g.federated[o] {
					t.Fields = append(t.Fields, g.varyForOwner(f, 0))
				} else {
					t.Fields = append(t.Fields, g.varyForOwner(f, k))
				}
			}
		}
	}
	// root fields
	nq := 3 + r.Intn(4)
	for j := 0; j < nq; j++ {
		owners := g.owners()
		if j < g.nsvc {
			owners = []int{j} // every service serves something at the root
		}
		f := fieldDef{Name: fmt.Sprintf("q%d", j), Type: g.outType(owners, 0.7), Args: g.args(3)}
		for k, s := range owners {
			q := g.base[s].Types["Query"]
			q.Fields = append(q.Fields, g.varyForOwner(f, k))
		}
	}
	for j, nm := 0, r.Intn(3); j < nm; j++ {
		owners := []int{r.Intn(g.nsvc)}
		f := fieldDef{Name: fmt.Sprintf("m%d", j), Type: g.outType(owners, 0.3), Args: g.args(3)}
		if len(f.Args) == 0 {
			f.Args = []inputVal{{"a", nonNull(named("SCALAR", "int64"))}}
		}
		m := g.base[owners[0]].Types["Mutation"]
		m.Fields = append(m.Fields, f)
	}
	// definitions of referenced enums / inputs / unions (per-service views)
	for s := 0; s < g.nsvc; s++ {
		b := g.base[s]
		for _, e := range sortedKeysS(g.enums) {
			vs := append([]string(nil), g.enums[e]...)
			if g.nsvc > 1 && len(vs) > 1 && g.chance(0.15) {
				i := r.Intn(len(vs))
				vs = append(vs[:i:i], vs[i+1:]...)
				g.feat["gen:service_enum_view_smaller"]++
			}
			b.Types[e] = &typeDef{Name: e, Kind: "ENUM", EnumValues: vs}
		}
		for _, in := range sortedKeysI(g.inputs) {
			var fs []inputVal
			for _, a := range g.inputs[in] {
				fs = append(fs, inputVal{a.Name, a.Type.clone()})
			}
			if g.nsvc > 1 && g.chance(0.15) {
				for i, a := range fs {
					if a.Type.Kind != "NON_NULL" && len(fs) > 1 {
						fs = append(fs[:i:i], fs[i+1:]...)
						g.feat["gen:service_input_view_smaller"]++
						break
					}
				}
			}
			if g.nsvc > 1 && g.chance(0.06) {
				i := r.Intn(len(fs))
				flipLevel(fs[i].Type, 0, r)
				fs[i].Type = normalizeRef(fs[i].Type)
				g.feat["gen:service_input_view_nullability"]++
			}
			b.Types[in] = &typeDef{Name: in, Kind: "INPUT_OBJECT", InputFields: fs}
		}
		if g.union != "" {
			var ms []string
			for _, m := range g.unionMem {
				if g.present[m][s] {
					ms = append(ms, m)
				}
			}
			if len(ms) > 0 {
				b.Types[g.union] = &typeDef{Name: g.union, Kind: "UNION", Possible: ms}
			}
		}
		for i := range b.Types {
			for j := range b.Types[i].Fields {
				b.Types[i].Fields[j].Type = normalizeRef(b.Types[i].Fields[j].Type)
			}
		}
		b.gc()
	}
	return g
}

func stripNonNull(t *tref) *tref {
	if t.Kind == "NON_NULL" {
		return t.Of
	}
	return t
}

// normalizeRef removes NON_NULL directly inside NON_NULL (can arise from flips).
func normalizeRef(t *tref) *tref {
	if t == nil {
		return nil
	}
	if t.Kind == "NON_NULL" && t.Of != nil && t.Of.Kind == "NON_NULL" {
		return normalizeRef(t.Of)
	}
	if t.Of != nil {
		t.Of = normalizeRef(t.Of)
	}
	return t
}

// flipLevel toggles NON_NULL at a nesting level (0 = outermost) in place;
// level -1 picks a random level.
func flipLevel(t *tref, level int, r *rand.Rand) {
	// count levels
	_, flags, ok := t.skeleton()
	if !ok {
		return
	}
	if level < 0 {
		level = r.Intn(len(flags))
	}
	if level >= len(flags) {
		level = len(flags) - 1
	}
	flags[level] = !flags[level]
	nt := rebuild(t.root(), flags)
	*t = *nt
}

// ---------------------------------------------------------------------------
// version mutations
// ---------------------------------------------------------------------------

type mutator struct {
	r    *rand.Rand
	s    *schemaDef
	feat map[string]int
}

func (m *mutator) objects(includeRoots bool) []*typeDef {
	var out []*typeDef
	for _, n := range m.s.typeNames() {
		t := m.s.Types[n]
		if t.Kind != "OBJECT" || n == "Federation" {
			continue
		}
		if !includeRoots && (n == "Query" || n == "Mutation") {
			continue
		}
		out = append(out, t)
	}
	return out
}

func (m *mutator) ofKind(kind string) []*typeDef {
	var out []*typeDef
	for _, n := range m.s.typeNames() {
		if t := m.s.Types[n]; t.Kind == kind {
			out = append(out, t)
		}
	}
	return out
}

// plainInputs lists input objects other than the federation key inputs.
func (m *mutator) plainInputs() []*typeDef {
	var out []*typeDef
	for _, t := range m.ofKind("INPUT_OBJECT") {
		if !strings.HasSuffix(t.Name, "_InputObject") {
			out = append(out, t)
		}
	}
	return out
}

func (m *mutator) leafOut() *tref {
	objs := m.objects(false)
	x := m.r.Intn(10)
	if x < 2 && len(objs) > 0 {
		return named("OBJECT", objs[m.r.Intn(len(objs))].Name)
	}
	if x < 4 {
		if es := m.ofKind("ENUM"); len(es) > 0 {
			return named("ENUM", es[m.r.Intn(len(es))].Name)
		}
	}
	return named("SCALAR", scalarNames[m.r.Intn(2)]) // int64|string: collisions between versions are likely
}

func (m *mutator) leafIn() *tref {
	x := m.r.Intn(10)
	if x < 2 {
		if es := m.ofKind("ENUM"); len(es) > 0 {
			return named("ENUM", es[m.r.Intn(len(es))].Name)
		}
	}
	if x < 3 {
		if is := m.ofKind("INPUT_OBJECT"); len(is) > 0 {
			t := is[m.r.Intn(len(is))]
			if !strings.HasSuffix(t.Name, "_InputObject") {
				return named("INPUT_OBJECT", t.Name)
			}
		}
	}
	return named("SCALAR", scalarNames[m.r.Intn(2)])
}

// isKeyField: the key field of an object ("id"). The gateway passes its VALUE on as
// the federated key, and schemabuilder derives both the field and the key input from
// the same Go struct field, so its type and arguments are never varied on their own
// (it may still be removed: thunder has a validation for that).
func isKeyField(t *typeDef, i int) bool {
	return t.Name != "Query" && t.Name != "Mutation" && t.Fields[i].Name == "id"
}

// keyTypeMismatches lists federated key input fields whose type differs from the
// object's field of the same name (a generator invariant, see isKeyField).
func keyTypeMismatches(d *schemaDef) []string {
	var out []string
	fed := d.Types["Federation"]
	if fed == nil {
		return nil
	}
	for _, f := range fed.Fields {
		i := strings.Index(f.Name, "_")
		if i < 0 || len(f.Args) == 0 {
			continue
		}
		o := d.Types[f.Name[i+1:]]
		in := d.Types[f.Args[0].Type.root().Name]
		if o == nil || in == nil {
			continue
		}
		for _, k := range in.InputFields {
			of := o.field(k.Name)
			if of == nil {
				continue // refused by thunder (Invalid federation key / not a field on the object)
			}
			if of.Type.String() != k.Type.String() || len(of.Args) > 0 {
				out = append(out, fmt.Sprintf("%s.%s: %s (args %d) vs key input %s.%s: %s", o.Name, k.Name, of.Type, len(of.Args), in.Name, k.Name, k.Type))
			}
		}
	}
	return out
}

// pickField returns a random (type, field index) among object fields that are
// not federation plumbing.
func (m *mutator) pickField(includeRoots bool) (*typeDef, int) {
	objs := m.objects(includeRoots)
	if len(objs) == 0 {
		return nil, 0
	}
	for try := 0; try < 6; try++ {
		t := objs[m.r.Intn(len(objs))]
		if len(t.Fields) == 0 {
			continue
		}
		i := m.r.Intn(len(t.Fields))
		if t.Fields[i].Name == "_federation" {
			continue
		}
		return t, i
	}
	return nil, 0
}

func (m *mutator) apply() string {
	r := m.r
	switch op := r.Intn(100); {
	case op < 14: // remove a field
		t, i := m.pickField(true)
		if t == nil || (t.Fields[i].Name == "id" && r.Intn(10) != 0) {
			return ""
		}
		if len(t.Fields) <= 1 && t.Name != "Query" && t.Name != "Mutation" {
			return ""
		}
		t.Fields = append(t.Fields[:i:i], t.Fields[i+1:]...)
		return "rm_field"
	case op < 26: // add a field
		objs := m.objects(true)
		t := objs[r.Intn(len(objs))]
		name := fmt.Sprintf("n%d", r.Intn(2))
		if t.field(name) != nil {
			return ""
		}
		ft := m.leafOut()
		if r.Intn(2) == 0 {
			ft = nonNull(ft)
		}
		if r.Intn(4) == 0 {
			ft = listOf(ft)
		}
		f := fieldDef{Name: name, Type: ft}
		if r.Intn(3) == 0 {
			f.Args = []inputVal{{"a", m.leafIn()}}
		}
		t.Fields = append(t.Fields, f)
		return "add_field"
	case op < 34: // remove an argument
		t, i := m.pickField(true)
		if t == nil || len(t.Fields[i].Args) == 0 || isKeyField(t, i) {
			return ""
		}
		f := &t.Fields[i]
		j := r.Intn(len(f.Args))
		if f.Args[j].Type.Kind == "NON_NULL" && r.Intn(5) != 0 {
			return ""
		}
		f.Args = append(f.Args[:j:j], f.Args[j+1:]...)
		return "rm_arg"
	case op < 43: // add an argument (mostly optional)
		t, i := m.pickField(true)
		if t == nil || isKeyField(t, i) {
			return ""
		}
		f := &t.Fields[i]
		name := []string{"opt", "a", "b"}[r.Intn(3)]
		if f.arg(name) != nil {
			return ""
		}
		at := m.leafIn()
		kind := "add_arg_optional"
		if r.Intn(12) == 0 {
			at = nonNull(at)
			kind = "add_arg_required"
		}
		f.Args = append(f.Args, inputVal{name, at})
		return kind
	case op < 50: // remove an enum value
		es := m.ofKind("ENUM")
		if len(es) == 0 {
			return ""
		}
		t := es[r.Intn(len(es))]
		if len(t.EnumValues) <= 1 {
			return ""
		}
		i := r.Intn(len(t.EnumValues))
		t.EnumValues = append(t.EnumValues[:i:i], t.EnumValues[i+1:]...)
		return "rm_enum_value"
	case op < 56: // add an enum value
		es := m.ofKind("ENUM")
		if len(es) == 0 {
			return ""
		}
		t := es[r.Intn(len(es))]
		v := []string{"A", "B", "C", "D", "E", "NEW"}[r.Intn(6)]
		if hasStr(t.EnumValues, v) {
			return ""
		}
		t.EnumValues = append(t.EnumValues, v)
		return "add_enum_value"
	case op < 60: // remove a union member
		us := m.ofKind("UNION")
		if len(us) == 0 {
			return ""
		}
		t := us[r.Intn(len(us))]
		if len(t.Possible) <= 1 {
			return ""
		}
		i := r.Intn(len(t.Possible))
		t.Possible = append(t.Possible[:i:i], t.Possible[i+1:]...)
		return "rm_union_member"
	case op < 64: // add a union member
		us := m.ofKind("UNION")
		objs := m.objects(false)
		if len(us) == 0 || len(objs) == 0 {
			return ""
		}
		t := us[r.Intn(len(us))]
		o := objs[r.Intn(len(objs))].Name
		if hasStr(t.Possible, o) {
			return ""
		}
		t.Possible = append(t.Possible, o)
		return "add_union_member"
	case op < 70: // remove an input field
		is := m.plainInputs()
		if len(is) == 0 {
			return ""
		}
		t := is[r.Intn(len(is))]
		if len(t.InputFields) <= 1 {
			return ""
		}
		i := r.Intn(len(t.InputFields))
		if t.InputFields[i].Type.Kind == "NON_NULL" && r.Intn(5) != 0 {
			return ""
		}
		t.InputFields = append(t.InputFields[:i:i], t.InputFields[i+1:]...)
		return "rm_input_field"
	case op < 76: // add an input field
		is := m.plainInputs()
		if len(is) == 0 {
			return ""
		}
		t := is[r.Intn(len(is))]
		name := []string{"x", "y", "z", "w", "nf"}[r.Intn(5)]
		if t.inputField(name) != nil {
			return ""
		}
		at := named("SCALAR", scalarNames[r.Intn(2)])
		kind := "add_input_field_optional"
		if r.Intn(12) == 0 {
			at = nonNull(at)
			kind = "add_input_field_required"
		}
		t.InputFields = append(t.InputFields, inputVal{name, at})
		return kind
	case op < 85: // flip output nullability at some nesting level
		t, i := m.pickField(true)
		if t == nil || isKeyField(t, i) {
			return ""
		}
		flipLevel(t.Fields[i].Type, -1, r)
		return "flip_output_null"
	case op < 93: // flip input nullability at some nesting level
		if r.Intn(2) == 0 {
			t, i := m.pickField(true)
			if t == nil || len(t.Fields[i].Args) == 0 {
				return ""
			}
			f := &t.Fields[i]
			flipLevel(f.Args[r.Intn(len(f.Args))].Type, -1, r)
			return "flip_arg_null"
		}
		is := m.plainInputs()
		if len(is) == 0 {
			return ""
		}
		t := is[r.Intn(len(is))]
		flipLevel(t.InputFields[r.Intn(len(t.InputFields))].Type, -1, r)
		return "flip_input_field_null"
	case op < 97: // wrap / unwrap a list
		t, i := m.pickField(true)
		if t == nil || r.Intn(3) != 0 || isKeyField(t, i) {
			return ""
		}
		f := &t.Fields[i]
		target := f.Type
		what := "list_output"
		if len(f.Args) > 0 && r.Intn(2) == 0 {
			target = f.Args[r.Intn(len(f.Args))].Type
			what = "list_arg"
		}
		inner := stripNonNull(target)
		if inner.Kind == "LIST" {
			*target = *inner.Of
			return "unwrap_" + what
		}
		*target = *listOf(target.clone())
		return "wrap_" + what
	default: // change a scalar
		t, i := m.pickField(true)
		if t == nil {
			return ""
		}
		root := t.Fields[i].Type.root()
		if root.Kind != "SCALAR" || t.Fields[i].Name == "id" || r.Intn(2) != 0 {
			return ""
		}
		if root.Name == "string" {
			root.Name = "int64"
		} else {
			root.Name = "string"
		}
		return "change_scalar"
	}
}

// versions builds the per-service version lists.
func (g *genA) versions() [][]*schemaDef {
	r := g.r
	nv := make([]int, g.nsvc)
	multi := false
	for s := range nv {
		switch x := r.Intn(20); {
		case x < 7:
			nv[s] = 1
		case x < 16:
			nv[s] = 2
		default:
			nv[s] = 3
		}
		if nv[s] > 1 {
			multi = true
		}
	}
	if !multi && r.Intn(5) != 0 {
		nv[r.Intn(g.nsvc)] = 2 + r.Intn(2)
	}
	set := make([][]*schemaDef, g.nsvc)
	for s := 0; s < g.nsvc; s++ {
		for v := 0; v < nv[s]; v++ {
			c := g.base[s].clone()
			n := 0
			if v == 0 {
				if r.Intn(10) < 3 {
					n = 1
				}
			} else {
				n = 1 + r.Intn(3)
			}
			m := &mutator{r: r, s: c, feat: g.feat}
			for k, tries := 0, 0; k < n && tries < 12; tries++ {
				if what := m.apply(); what != "" {
					g.feat["mut:"+what]++
					k++
				}
			}
			for _, t := range c.Types {
				for j := range t.Fields {
					t.Fields[j].Type = normalizeRef(t.Fields[j].Type)
					for k := range t.Fields[j].Args {
						t.Fields[j].Args[k].Type = normalizeRef(t.Fields[j].Args[k].Type)
					}
				}
				for j := range t.InputFields {
					t.InputFields[j].Type = normalizeRef(t.InputFields[j].Type)
				}
			}
			c.gc()
			set[s] = append(set[s], c)
		}
	}
	// Same type NAME with different KINDS (drawn last so that everything above is
	// unchanged): a service, or one version of a service, uses a custom scalar
	// whose name another side uses for an enum / input object / object / union.
	// No field common to both sides refers to the name, so only a type-level
	// kind check can notice. Such sets must be rejected under every naming.
	switch x := r.Intn(100); {
	case x < 9 && g.nsvc >= 2:
		g.kindCollisionServices(set)
	case x < 15:
		g.kindCollisionVersions(set)
	}
	// An object that one service federates (FetchObjectFromKeys) and another
	// service exposes as a plain object (drawn last, see above). thunder's rule is
	// that such a set is refused; whether it is refused must not depend on names.
	if g.nsvc >= 2 && r.Intn(100) < 9 {
		g.mixedFederation(set)
	}
	// Arguments and input fields with two or three list levels whose nullability differs per
	// level ([[T!]]!, [[T]!], [[T!]!]! ...), optionally changed at one level in one version.
	if r.Intn(100) < 25 {
		g.deepLists(set)
	}
	// The same pair of references differing only in nullability (S vs S!) in an input
	// position and in an output position of the same two schemas: the input side must come
	// out required, the output side nullable.
	if r.Intn(100) < 25 {
		g.nullabilityTwins(set)
	}
	// List types whose non-null modifiers differ between two sides at two nesting levels in
	// OPPOSITE directions ([S]! on one side, [S!] on the other), as argument, input field
	// and result: every level must be merged on its own.
	if r.Intn(100) < 20 {
		g.crossedNullability(set)
	}
	return set
}

func (g *genA) crossedNullability(set [][]*schemaDef) {
	r := g.r
	sc := named("SCALAR", scalarNames[r.Intn(len(scalarNames))])
	levels := 2 + r.Intn(2) // one or two list levels plus the named type
	flags := make([]bool, levels)
	for k := range flags {
		flags[k] = r.Intn(2) == 0
	}
	p := r.Perm(levels)
	fa, fb := append([]bool(nil), flags...), append([]bool(nil), flags...)
	fa[p[0]], fa[p[1]] = true, false
	fb[p[0]], fb[p[1]] = false, true
	sideA, sideB := rebuild(sc, fa), rebuild(sc, fb)
	add := func(d *schemaDef, t *tref) {
		if d.Types["C0"] != nil {
			return
		}
		d.Types["C0"] = &typeDef{Name: "C0", Kind: "INPUT_OBJECT", InputFields: []inputVal{{"m", t.clone()}, {"n", named("SCALAR", "int64")}}}
		q := d.Types["Query"]
		q.Fields = append(q.Fields, fieldDef{Name: "c0", Type: t.clone(), Args: []inputVal{{"x", t.clone()}, {"o", named("INPUT_OBJECT", "C0")}}})
		d.gc()
	}
	var multi []int
	for s := range set {
		if len(set[s]) > 1 {
			multi = append(multi, s)
		}
	}
	switch {
	case len(multi) > 0:
		s := multi[r.Intn(len(multi))]
		first := r.Intn(2)
		for v, d := range set[s] {
			if (v+first)%2 == 0 {
				add(d, sideA)
			} else {
				add(d, sideB)
			}
		}
		g.feat["gen:crossed_nullability:versions"]++
	case len(set) >= 2:
		q := r.Perm(len(set))
		for _, d := range set[q[0]] {
			add(d, sideA)
		}
		for _, d := range set[q[1]] {
			add(d, sideB)
		}
		g.feat["gen:crossed_nullability:services"]++
	}
}

func (g *genA) deepRef(leaf *tref) *tref {
	r := g.r
	levels := 2 + r.Intn(2)
	t := leaf
	if r.Intn(2) == 0 {
		t = nonNull(t)
	}
	for l := 0; l < levels; l++ {
		t = listOf(t)
		if r.Intn(2) == 0 {
			t = nonNull(t)
		}
	}
	return t
}

func (g *genA) deepLists(set [][]*schemaDef) {
	r := g.r
	s := r.Intn(len(set))
	leaf := named("SCALAR", scalarNames[r.Intn(len(scalarNames))])
	if es := sortedKeysS(g.enums); len(es) > 0 && r.Intn(3) == 0 {
		// only an enum this service already has in every version
		e := es[r.Intn(len(es))]
		ok := true
		for _, d := range set[s] {
			if d.Types[e] == nil || d.Types[e].Kind != "ENUM" {
				ok = false
			}
		}
		if ok {
			leaf = named("ENUM", e)
		}
	}
	argT, inT := g.deepRef(leaf), g.deepRef(leaf)
	flipV, flipWhat := -1, r.Intn(2)
	if len(set[s]) > 1 && r.Intn(2) == 0 {
		flipV = r.Intn(len(set[s]))
	}
	for v, d := range set[s] {
		a, in := argT.clone(), inT.clone()
		if v == flipV {
			if flipWhat == 0 {
				flipLevel(a, -1, r)
			} else {
				flipLevel(in, -1, r)
			}
			g.feat["gen:deep_list_flip_in_one_version"]++
		}
		if _, clash := d.Types["D0"]; clash {
			return
		}
		d.Types["D0"] = &typeDef{Name: "D0", Kind: "INPUT_OBJECT", InputFields: []inputVal{{"m", in}, {"n", named("SCALAR", "int64")}}}
		q := d.Types["Query"]
		q.Fields = append(q.Fields, fieldDef{Name: "d0", Type: named("SCALAR", "int64"), Args: []inputVal{{"a", a}, {"o", named("INPUT_OBJECT", "D0")}}})
		d.gc()
	}
	g.feat["gen:deep_list_inputs"]++
}

func (g *genA) nullabilityTwins(set [][]*schemaDef) {
	r := g.r
	sc := scalarNames[r.Intn(len(scalarNames))]
	loose := fieldDef{Name: "e0", Type: named("SCALAR", sc), Args: []inputVal{{"x", named("SCALAR", sc)}}}
	strict := fieldDef{Name: "e0", Type: nonNull(named("SCALAR", sc)), Args: []inputVal{{"x", nonNull(named("SCALAR", sc))}}}
	add := func(d *schemaDef, f fieldDef) {
		nf := fieldDef{Name: f.Name, Type: f.Type.clone(), Args: []inputVal{{f.Args[0].Name, f.Args[0].Type.clone()}}}
		q := d.Types["Query"]
		q.Fields = append(q.Fields, nf)
		d.gc()
	}
	var multi []int
	for s := range set {
		if len(set[s]) > 1 {
			multi = append(multi, s)
		}
	}
	switch {
	case len(multi) > 0:
		s := multi[r.Intn(len(multi))]
		first := r.Intn(2)
		for v, d := range set[s] {
			if (v+first)%2 == 0 {
				add(d, loose)
			} else {
				add(d, strict)
			}
		}
		g.feat["gen:nullability_twins:versions"]++
	case len(set) >= 2:
		p := r.Perm(len(set))
		for _, d := range set[p[0]] {
			add(d, loose)
		}
		for _, d := range set[p[1]] {
			add(d, strict)
		}
		g.feat["gen:nullability_twins:services"]++
	}
}

// stripFederation turns object o of one schema into a plain object: no
// _federation field, no Federation.<svc>_<o>(keys) field; the object stays
// reachable through a root field.
func stripFederation(d *schemaDef, o string) bool {
	t := d.Types[o]
	if t == nil || t.field("_federation") == nil {
		return false
	}
	var fs []fieldDef
	for _, f := range t.Fields {
		if f.Name != "_federation" {
			fs = append(fs, f)
		}
	}
	t.Fields = fs
	if fed := d.Types["Federation"]; fed != nil {
		var ffs []fieldDef
		for _, f := range fed.Fields {
			if f.Name != svcPlaceholder+"_"+o {
				ffs = append(ffs, f)
			}
		}
		fed.Fields = ffs
		if len(ffs) == 0 {
			q := d.Types["Query"]
			var qfs []fieldDef
			for _, f := range q.Fields {
				if f.Name != "_federation" {
					qfs = append(qfs, f)
				}
			}
			q.Fields = qfs
			delete(d.Types, "Federation")
		}
	}
	q := d.Types["Query"]
	if q.field("p0") == nil {
		q.Fields = append(q.Fields, fieldDef{Name: "p0", Type: listOf(named("OBJECT", o))})
	}
	d.gc()
	return true
}

func (g *genA) mixedFederation(set [][]*schemaDef) {
	r := g.r
	var cands []string
	for _, o := range g.objs {
		n := 0
		for _, p := range g.present[o] {
			if p {
				n++
			}
		}
		if g.federated[o] && n >= 2 {
			cands = append(cands, o)
		}
	}
	if len(cands) == 0 {
		return
	}
	o := cands[r.Intn(len(cands))]
	var svcs []int
	for s, p := range g.present[o] {
		if p {
			svcs = append(svcs, s)
		}
	}
	s := svcs[r.Intn(len(svcs))]
	only := -1 // one version only: the service's intersection loses the federation of o
	if len(set[s]) > 1 && r.Intn(2) == 0 {
		only = r.Intn(len(set[s]))
	}
	done := false
	for v, d := range set[s] {
		if only >= 0 && v != only {
			continue
		}
		c := d.clone()
		if stripFederation(c, o) && len(c.closureProblems()) == 0 {
			set[s][v] = c
			done = true
		}
	}
	if done {
		if only >= 0 {
			g.feat["gen:mixed_federation:one_version"]++
		} else {
			g.feat["gen:mixed_federation:service"]++
		}
	}
}

// universeNames lists the non-scalar type names of the universe with their kinds.
func (g *genA) universeNames() map[string]string {
	out := map[string]string{}
	for e := range g.enums {
		out[e] = "ENUM"
	}
	for i := range g.inputs {
		out[i] = "INPUT_OBJECT"
	}
	for _, o := range g.objs {
		out[o] = "OBJECT"
	}
	if g.union != "" {
		out[g.union] = "UNION"
	}
	return out
}

// addScalarUse declares SCALAR name in d and uses it on a new root field,
// either as the result or as an optional argument.
func addScalarUse(d *schemaDef, name string, asArg bool) {
	d.Types[name] = &typeDef{Name: name, Kind: "SCALAR"}
	q := d.Types["Query"]
	if asArg {
		q.Fields = append(q.Fields, fieldDef{Name: "k0", Type: named("SCALAR", "int64"), Args: []inputVal{{"t", named("SCALAR", name)}}})
	} else {
		q.Fields = append(q.Fields, fieldDef{Name: "k0", Type: named("SCALAR", name)})
	}
}

func (g *genA) kindCollisionServices(set [][]*schemaDef) {
	r := g.r
	names := g.universeNames()
	var ns []string
	for n := range names {
		ns = append(ns, n)
	}
	sort.Strings(ns)
	r.Shuffle(len(ns), func(i, j int) { ns[i], ns[j] = ns[j], ns[i] })
	for _, n := range ns {
		// a service none of whose versions knows n, while another service's version does
		var lacking []int
		known := false
		for s := range set {
			has := false
			for _, v := range set[s] {
				if _, ok := v.Types[n]; ok {
					has = true
				}
			}
			if has {
				known = true
			} else {
				lacking = append(lacking, s)
			}
		}
		if !known || len(lacking) == 0 {
			continue
		}
		s := lacking[r.Intn(len(lacking))]
		asArg := r.Intn(2) == 0
		for _, v := range set[s] {
			addScalarUse(v, n, asArg)
			v.gc()
		}
		g.feat["gen:kind_collision_services:"+names[n]]++
		return
	}
}

func refersTo(t *tref, name string) bool { return t.root().Name == name }

func (g *genA) kindCollisionVersions(set [][]*schemaDef) {
	r := g.r
	var multi []int
	for s := range set {
		if len(set[s]) > 1 {
			multi = append(multi, s)
		}
	}
	if len(multi) == 0 {
		return
	}
	s := multi[r.Intn(len(multi))]
	v := r.Intn(len(set[s]))
	d := set[s][v]
	var cands []string
	for _, n := range d.typeNames() {
		t := d.Types[n]
		if (t.Kind == "ENUM" || t.Kind == "INPUT_OBJECT") && !strings.HasSuffix(n, "_InputObject") {
			// some other version must keep the name with its original kind
			for w, o := range set[s] {
				if w != v && o.Types[n] != nil && o.Types[n].Kind == t.Kind {
					cands = append(cands, n)
					break
				}
			}
		}
	}
	if len(cands) == 0 {
		return
	}
	n := cands[r.Intn(len(cands))]
	kind := d.Types[n].Kind
	c := d.clone()
	for _, t := range c.Types {
		var fs []fieldDef
		for _, f := range t.Fields {
			if refersTo(f.Type, n) {
				continue
			}
			var as []inputVal
			for _, a := range f.Args {
				if !refersTo(a.Type, n) {
					as = append(as, a)
				}
			}
			f.Args = as
			fs = append(fs, f)
		}
		t.Fields = fs
		var is []inputVal
		for _, a := range t.InputFields {
			if !refersTo(a.Type, n) {
				is = append(is, a)
			}
		}
		if t.Kind == "INPUT_OBJECT" && t.Name != n && len(is) == 0 {
			return // would leave an empty input object
		}
		t.InputFields = is
		if t.Kind == "OBJECT" && t.Name != "Query" && t.Name != "Mutation" && len(t.Fields) == 0 {
			return // would leave an empty object
		}
	}
	delete(c.Types, n)
	addScalarUse(c, n, r.Intn(2) == 0)
	c.gc()
	if p := c.closureProblems(); len(p) > 0 {
		return
	}
	set[s][v] = c
	g.feat["gen:kind_collision_versions:"+kind]++
}
