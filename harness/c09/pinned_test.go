package c09

// Pinned minimal schema sets: one per classified finding (see FINDINGS.md)
// plus a clean control. They run as extra case indices after the generated
// ones, through exactly the same oracles.

func fld(name string, t *tref, args ...inputVal) fieldDef {
	return fieldDef{Name: name, Type: t, Args: args}
}

func arg(name string, t *tref) inputVal { return inputVal{name, t} }

func obj(name string, fields ...fieldDef) *typeDef {
	return &typeDef{Name: name, Kind: "OBJECT", Fields: fields}
}

func enum(name string, values ...string) *typeDef {
	return &typeDef{Name: name, Kind: "ENUM", EnumValues: values}
}

func sch(types ...*typeDef) *schemaDef {
	s := newSchemaDef()
	s.Types["Query"] = &typeDef{Name: "Query", Kind: "OBJECT"}
	s.Types["Mutation"] = &typeDef{Name: "Mutation", Kind: "OBJECT"}
	for _, t := range types {
		s.Types[t.Name] = t
	}
	s.gc()
	return s
}

var (
	tI64  = named("SCALAR", "int64")
	tStr  = named("SCALAR", "string")
	tI64R = nonNull(named("SCALAR", "int64"))
)

type pinnedSet struct {
	name string
	set  [][]*schemaDef
}

func pinnedSets() []pinnedSet {
	return []pinnedSet{
		{
			// order-dependent-merge (services): optional x / no x / required x
			name: "order-services-required-arg",
			set: [][]*schemaDef{
				{sch(obj("Query", fld("f", tI64, arg("x", tI64))))},
				{sch(obj("Query", fld("f", tI64)))},
				{sch(obj("Query", fld("f", tI64, arg("x", tI64R))))},
			},
		},
		{
			// order-dependent-merge (versions): a conflict hidden by the version in between
			name: "order-versions-hidden-conflict",
			set: [][]*schemaDef{
				{
					sch(obj("Query", fld("f", tI64), fld("g", tI64))),
					sch(obj("Query", fld("g", tI64))),
					sch(obj("Query", fld("f", tStr), fld("g", tI64))),
				},
				{sch(obj("Query", fld("h", tI64)))},
			},
		},
		{
			// union-input-superset (enum): Y is only known to the first service
			name: "superset-enum",
			set: [][]*schemaDef{
				{sch(enum("E", "X", "Y"), obj("Query", fld("a", tI64, arg("e", named("ENUM", "E")))))},
				{
					sch(enum("E", "X"), obj("Query", fld("b", tI64, arg("e", named("ENUM", "E"))))),
					sch(enum("E", "X"), obj("Query", fld("b", tI64, arg("e", named("ENUM", "E"))), fld("c", tI64))),
				},
			},
		},
		{
			// union-input-superset (argument): f(x) on one service, f without arguments on the other
			name: "superset-arg",
			set: [][]*schemaDef{
				{sch(obj("Query", fld("f", tI64, arg("x", tI64))))},
				{
					sch(obj("Query", fld("f", tI64))),
					sch(obj("Query", fld("f", tI64), fld("c", tI64))),
				},
			},
		},
		{
			// unfederated-object-split: T lives on two services with different fields and is not federated
			name: "unfederated-split",
			set: [][]*schemaDef{
				{sch(obj("T", fld("id", tI64R), fld("x", tI64)), obj("Query", fld("a", named("OBJECT", "T"))))},
				{
					sch(obj("T", fld("id", tI64R), fld("y", tI64)), obj("Query", fld("b", named("OBJECT", "T")))),
					sch(obj("T", fld("id", tI64R), fld("y", tI64)), obj("Query", fld("b", named("OBJECT", "T")), fld("c", tI64))),
				},
			},
		},
		{
			// same name, different kinds, across services: custom scalar Time on one, enum Time on the other,
			// no common field refers to it. Must be rejected whatever the services are called.
			name: "kind-conflict-services",
			set: [][]*schemaDef{
				{sch(obj("Query", fld("now", named("SCALAR", "Time"))))},
				{sch(enum("Time", "DAY", "NIGHT"), obj("Query", fld("greeting", tStr, arg("t", named("ENUM", "Time")))))},
			},
		},
		{
			// same name, different kinds, across versions of one service
			name: "kind-conflict-versions",
			set: [][]*schemaDef{
				{
					sch(obj("Query", fld("g", tI64), fld("now", named("SCALAR", "Time")))),
					sch(enum("Time", "DAY", "NIGHT"), obj("Query", fld("g", tI64), fld("greeting", tStr, arg("t", named("ENUM", "Time"))))),
				},
				{sch(obj("Query", fld("h", tI64)))},
			},
		},
		{
			// an object federated on one service and plain on the other: thunder refuses such a set;
			// the refusal must not depend on which service's name sorts first
			name: "mixed-federation",
			set: [][]*schemaDef{
				{sch(
					obj("User", fld("id", tI64R), fld("name", tStr), fld("_federation", named("OBJECT", "User"))),
					&typeDef{Name: "UserKeys0_InputObject", Kind: "INPUT_OBJECT", InputFields: []inputVal{{"id", tI64R}}},
					obj("Federation", fld(svcPlaceholder+"_User", nonNull(listOf(nonNull(named("OBJECT", "User")))), arg("keys", nonNull(listOf(named("INPUT_OBJECT", "UserKeys0_InputObject")))))),
					obj("Query", fld("users", listOf(named("OBJECT", "User"))), fld("_federation", nonNull(named("OBJECT", "Federation")))),
				)},
				{sch(
					obj("User", fld("id", tI64R), fld("isCool", named("SCALAR", "bool"))),
					obj("Query", fld("coolUsers", listOf(named("OBJECT", "User")))),
				)},
			},
		},
		{
			// control: two services, a rolling deploy that adds an optional argument, makes an
			// output nullable and an argument required; everything executable by every version
			name: "control",
			set: [][]*schemaDef{
				{
					sch(enum("E", "X", "Y"), obj("Query", fld("a", tI64R, arg("e", named("ENUM", "E")), arg("n", tI64)))),
					sch(enum("E", "X", "Y", "Z"), obj("Query", fld("a", tI64, arg("e", named("ENUM", "E")), arg("n", tI64R), arg("opt", tStr)))),
				},
				{sch(obj("Query", fld("b", listOf(tI64R))))},
			},
		},
	}
}
