package c09

import (
	"context"
	"encoding/json"
	"fmt"
	"hash/fnv"
	"math/rand"
	"sort"
	"strings"
	"sync"

	"github.com/samsarahq/thunder/federation"
	"github.com/samsarahq/thunder/graphql"
)

// ---------------------------------------------------------------------------
// Query generator: works from the MERGED introspection only.
// ---------------------------------------------------------------------------

type qgen struct {
	r      *rand.Rand
	s      *schemaDef
	alias  int
	feat   map[string]bool
	usable map[string]bool
}

func isPlumbing(name string) bool { return strings.HasPrefix(name, "_") }

// literal renders a valid GraphQL literal for an input type; ok=false when no
// value exists (enum without values, required cycle ...).
func (g *qgen) literal(t *tref, depth int) (string, bool) {
	switch t.Kind {
	case "NON_NULL":
		return g.literal(t.Of, depth)
	case "LIST":
		n := g.r.Intn(3)
		var parts []string
		for i := 0; i < n; i++ {
			v, ok := g.literal(t.Of, depth)
			if !ok {
				if t.Of.Kind == "NON_NULL" {
					return "[]", true
				}
				return "[]", true
			}
			parts = append(parts, v)
		}
		g.feat["arg:list"] = true
		return "[" + strings.Join(parts, ", ") + "]", true
	case "SCALAR":
		switch t.Name {
		case "string", "ID", "id":
			return fmt.Sprintf("%q", []string{"x", "hello", ""}[g.r.Intn(3)]), true
		case "bool":
			return []string{"true", "false"}[g.r.Intn(2)], true
		case "float64", "float32":
			return []string{"1.5", "2", "0.25"}[g.r.Intn(3)], true
		case "int64", "int32", "int16", "int8", "int", "uint64", "uint32", "uint16", "uint8":
			return fmt.Sprint(g.r.Intn(50)), true
		}
		return "", false
	case "ENUM":
		d := g.s.Types[t.Name]
		if d == nil || len(d.EnumValues) == 0 {
			return "", false
		}
		g.feat["arg:enum"] = true
		return d.EnumValues[g.r.Intn(len(d.EnumValues))], true
	case "INPUT_OBJECT":
		d := g.s.Types[t.Name]
		if d == nil || depth <= 0 {
			return "", false
		}
		var parts []string
		for _, f := range d.InputFields {
			if f.Type.Kind != "NON_NULL" && g.r.Intn(10) >= 6 {
				continue
			}
			v, ok := g.literal(f.Type, depth-1)
			if !ok {
				if f.Type.Kind == "NON_NULL" {
					return "", false
				}
				continue
			}
			parts = append(parts, f.Name+": "+v)
		}
		g.feat["arg:input_object"] = true
		return "{" + strings.Join(parts, ", ") + "}", true
	}
	return "", false
}

func (g *qgen) argsText(f *fieldDef) (string, bool) {
	var parts []string
	for _, a := range f.Args {
		required := a.Type.Kind == "NON_NULL"
		if !required && g.r.Intn(10) >= 6 {
			continue
		}
		v, ok := g.literal(a.Type, 3)
		if !ok {
			if required {
				return "", false
			}
			continue
		}
		if !required {
			g.feat["arg:optional_given"] = true
		}
		parts = append(parts, a.Name+": "+v)
	}
	if len(parts) == 0 {
		return "", true
	}
	return "(" + strings.Join(parts, ", ") + ")", true
}

func (g *qgen) selectionSet(typeName string, depth int) string {
	d := g.s.Types[typeName]
	if d == nil {
		return "{ __typename }"
	}
	if d.Kind == "UNION" {
		g.feat["sel:union"] = true
		var parts []string
		if g.r.Intn(2) == 0 {
			parts = append(parts, "__typename")
		}
		ms := append([]string(nil), d.Possible...)
		g.r.Shuffle(len(ms), func(i, j int) { ms[i], ms[j] = ms[j], ms[i] })
		n := 1
		if len(ms) > 1 {
			n += g.r.Intn(len(ms))
		}
		for _, m := range ms[:min(n, len(ms))] {
			parts = append(parts, "... on "+m+" "+g.selectionSet(m, depth-1))
		}
		if len(parts) == 0 {
			parts = append(parts, "__typename")
		}
		return "{ " + strings.Join(parts, " ") + " }"
	}
	var cands []*fieldDef
	for i := range d.Fields {
		f := &d.Fields[i]
		if isPlumbing(f.Name) {
			continue
		}
		root := f.Type.root()
		composite := root.Kind == "OBJECT" || root.Kind == "UNION"
		if composite && depth <= 0 {
			continue
		}
		cands = append(cands, f)
	}
	g.r.Shuffle(len(cands), func(i, j int) { cands[i], cands[j] = cands[j], cands[i] })
	want := 1 + g.r.Intn(4)
	var parts []string
	if g.r.Intn(6) == 0 {
		parts = append(parts, "__typename")
	}
	for _, f := range cands {
		if want == 0 {
			break
		}
		at, ok := g.argsText(f)
		if !ok {
			continue
		}
		want--
		s := f.Name + at
		if g.r.Intn(6) == 0 {
			g.alias++
			s = fmt.Sprintf("al%d: %s", g.alias, s)
			g.feat["sel:alias"] = true
		}
		root := f.Type.root()
		if root.Kind == "OBJECT" || root.Kind == "UNION" {
			s += " " + g.selectionSet(root.Name, depth-1)
		}
		parts = append(parts, s)
	}
	if len(parts) == 0 {
		parts = append(parts, "__typename")
	}
	return "{ " + strings.Join(parts, " ") + " }"
}

// query returns the text of one operation, valid against g.s by construction.
func (g *qgen) query() string {
	mut := g.s.Types["Mutation"]
	if mut != nil && g.r.Intn(6) == 0 {
		// a single mutation field (the planner only supports one mutation step)
		var cands []*fieldDef
		for i := range mut.Fields {
			if !isPlumbing(mut.Fields[i].Name) {
				cands = append(cands, &mut.Fields[i])
			}
		}
		g.r.Shuffle(len(cands), func(i, j int) { cands[i], cands[j] = cands[j], cands[i] })
		for _, f := range cands {
			at, ok := g.argsText(f)
			if !ok {
				continue
			}
			s := f.Name + at
			root := f.Type.root()
			if root.Kind == "OBJECT" || root.Kind == "UNION" {
				s += " " + g.selectionSet(root.Name, 2)
			}
			g.feat["op:mutation"] = true
			return "mutation M { " + s + " }"
		}
	}
	return "query Q " + g.selectionSet("Query", 2+g.r.Intn(3))
}

// ---------------------------------------------------------------------------
// Argument validator with the semantics of thunder's own (schemabuilder) arg
// parser, built from graphql.Field.Args of a schema obtained from
// introspection: a field without arguments rejects any argument; otherwise
// unknown keys are ignored, declared values are type-checked, a NON_NULL
// value must be present, an enum value must be one of the declared ones.
// strictHits counts what a spec-strict validator would additionally reject.
// ---------------------------------------------------------------------------

type argValidator struct {
	args       map[string]graphql.Type
	strictHits *int64
	mu         *sync.Mutex
	strictErr  bool // spec-strict: unknown keys are errors (used for the generator's self-check against the merged schema)
}

func (v *argValidator) parse(raw interface{}) (interface{}, error) {
	var m map[string]interface{}
	switch x := raw.(type) {
	case nil:
	case map[string]interface{}:
		m = x
	default:
		return nil, fmt.Errorf("not an object")
	}
	if len(v.args) == 0 {
		if len(m) != 0 {
			return nil, fmt.Errorf("unexpected args")
		}
		return nil, nil
	}
	if v.strictErr && len(v.args) == 0 && len(m) != 0 {
		return nil, fmt.Errorf("unexpected args")
	}
	for k := range m {
		if _, ok := v.args[k]; !ok {
			if v.strictErr {
				return nil, fmt.Errorf("unknown argument %s", k)
			}
			v.strict()
		}
	}
	for name, t := range v.args {
		if err := v.check(m[name], t); err != nil {
			return nil, fmt.Errorf("%s: %v", name, err)
		}
	}
	return m, nil
}

func (v *argValidator) strict() {
	v.mu.Lock()
	*v.strictHits++
	v.mu.Unlock()
}

func (v *argValidator) check(val interface{}, t graphql.Type) error {
	switch t := t.(type) {
	case *graphql.NonNull:
		if val == nil {
			return fmt.Errorf("required value missing")
		}
		return v.check(val, t.Type)
	}
	if val == nil {
		return nil
	}
	switch t := t.(type) {
	case *graphql.Scalar:
		switch t.Type {
		case "string", "ID", "id":
			if _, ok := val.(string); !ok {
				return fmt.Errorf("not a string")
			}
		case "bool":
			if _, ok := val.(bool); !ok {
				return fmt.Errorf("not a bool")
			}
		case "float64", "float32", "int64", "int32", "int16", "int8", "int", "uint64", "uint32", "uint16", "uint8":
			if _, ok := val.(float64); !ok {
				return fmt.Errorf("not a number")
			}
		}
		return nil
	case *graphql.Enum:
		s, ok := val.(string)
		if !ok {
			return fmt.Errorf("not a string")
		}
		for _, x := range t.Values {
			if x == s {
				return nil
			}
		}
		return fmt.Errorf("unknown enum value %v", s)
	case *graphql.InputObject:
		m, ok := val.(map[string]interface{})
		if !ok {
			return fmt.Errorf("not an object")
		}
		for k := range m {
			if _, ok := t.InputFields[k]; !ok {
				if v.strictErr {
					return fmt.Errorf("unknown input field %s", k)
				}
				v.strict()
			}
		}
		for name, ft := range t.InputFields {
			if err := v.check(m[name], ft); err != nil {
				return fmt.Errorf("%s: %v", name, err)
			}
		}
		return nil
	case *graphql.List:
		l, ok := val.([]interface{})
		if !ok {
			return fmt.Errorf("not a list")
		}
		for _, e := range l {
			if err := v.check(e, t.Type); err != nil {
				return err
			}
		}
		return nil
	}
	return fmt.Errorf("unsupported input type %v", t)
}

// installValidators fills ParseArguments of every field reachable from the
// schema's roots.
func installValidators(s *graphql.Schema, strictHits *int64, mu *sync.Mutex) error {
	return installValidatorsMode(s, strictHits, mu, false)
}

func installValidatorsMode(s *graphql.Schema, strictHits *int64, mu *sync.Mutex, strictErr bool) error {
	types := map[graphql.Type]string{}
	if s.Query != nil {
		if err := federation.CollectTypes(s.Query, types); err != nil {
			return err
		}
	}
	if s.Mutation != nil {
		if err := federation.CollectTypes(s.Mutation, types); err != nil {
			return err
		}
	}
	for t := range types {
		if o, ok := t.(*graphql.Object); ok {
			for _, f := range o.Fields {
				av := &argValidator{args: f.Args, strictHits: strictHits, mu: mu, strictErr: strictErr}
				f.ParseArguments = av.parse
			}
		}
	}
	return nil
}

// ---------------------------------------------------------------------------
// Fabricating, recording executor clients
// ---------------------------------------------------------------------------

type subQuery struct {
	Service string
	Kind    string
	Sel     *graphql.SelectionSet
}

type recorder struct {
	mu      sync.Mutex
	queries []subQuery
	merged  *graphql.Schema
}

type fabClient struct {
	svc string
	rec *recorder
}

func (c *fabClient) Execute(ctx context.Context, req *federation.QueryRequest) (*federation.QueryResponse, error) {
	// what the service receives is the query after the wire round trip
	pb, err := federation.MarshalQuery(req.Query)
	if err != nil {
		return nil, fmt.Errorf("harness: marshal: %v", err)
	}
	q, err := federation.UnmarshalQuery(pb)
	if err != nil {
		return nil, fmt.Errorf("harness: unmarshal: %v", err)
	}
	c.rec.mu.Lock()
	c.rec.queries = append(c.rec.queries, subQuery{Service: c.svc, Kind: q.Kind, Sel: q.SelectionSet})
	c.rec.mu.Unlock()

	var root graphql.Type = c.rec.merged.Query
	if q.Kind == "mutation" {
		root = c.rec.merged.Mutation
	}
	val := fabricate(root, q.SelectionSet, nil, "")
	b, err := json.Marshal(val)
	if err != nil {
		return nil, err
	}
	return &federation.QueryResponse{Result: b}, nil
}

func hashOf(s string) uint32 {
	h := fnv.New32a()
	h.Write([]byte(s))
	return h.Sum32()
}

// fabricate invents a response for a selection set by walking it against the
// gateway's (merged) types: never null for composite values (a null on a hop
// path is C06's subject, not C09's), lists of two, deterministic scalars.
func fabricate(typ graphql.Type, ss *graphql.SelectionSet, sel *graphql.Selection, path string) interface{} {
	switch t := typ.(type) {
	case *graphql.NonNull:
		return fabricate(t.Type, ss, sel, path)
	case *graphql.List:
		n := 2
		if sel != nil {
			if keys, ok := sel.UnparsedArgs["keys"].([]interface{}); ok {
				n = len(keys)
			}
		}
		out := make([]interface{}, 0, n)
		for i := 0; i < n; i++ {
			out = append(out, fabricate(t.Type, ss, nil, fmt.Sprintf("%s[%d]", path, i)))
		}
		return out
	case *graphql.Object:
		m := map[string]interface{}{}
		fillObject(m, t, ss, path)
		return m
	case *graphql.Union:
		names := make([]string, 0, len(t.Types))
		for n := range t.Types {
			names = append(names, n)
		}
		sort.Strings(names)
		var pref []string
		if ss != nil {
			for _, f := range ss.Fragments {
				if _, ok := t.Types[f.On]; ok {
					pref = append(pref, f.On)
				}
			}
		}
		if len(pref) > 0 {
			names = pref
		}
		if len(names) == 0 {
			return map[string]interface{}{"__typename": t.Name}
		}
		pick := names[int(hashOf(path))%len(names)]
		obj := t.Types[pick]
		m := map[string]interface{}{}
		if ss != nil {
			for _, s := range ss.Selections {
				if s.Name == "__typename" {
					m[s.Alias] = pick
				}
			}
			for _, f := range ss.Fragments {
				if f.On == pick {
					fillObject(m, obj, f.SelectionSet, path)
				}
			}
		}
		return m
	case *graphql.Enum:
		if len(t.Values) > 0 {
			vs := append([]string(nil), t.Values...)
			sort.Strings(vs)
			return vs[0]
		}
		return "X"
	case *graphql.Scalar:
		switch t.Type {
		case "string", "ID", "id":
			return "s"
		case "bool":
			return true
		case "float64", "float32":
			return 1.5
		default:
			return 7
		}
	}
	return nil
}

func fillObject(m map[string]interface{}, t *graphql.Object, ss *graphql.SelectionSet, path string) {
	if ss == nil {
		return
	}
	for _, s := range ss.Selections {
		if s.Name == "__typename" {
			m[s.Alias] = t.Name
			continue
		}
		f, ok := t.Fields[s.Name]
		if !ok {
			m[s.Alias] = nil
			continue
		}
		m[s.Alias] = fabricate(f.Type, s.SelectionSet, s, path+"."+s.Alias)
	}
	for _, f := range ss.Fragments {
		if f.On == t.Name {
			fillObject(m, t, f.SelectionSet, path)
		}
	}
}

// copySel makes a fresh, unprepared copy of a selection set (PrepareQuery
// marks selections as parsed and edits fragments in place).
func copySel(ss *graphql.SelectionSet) *graphql.SelectionSet {
	if ss == nil {
		return nil
	}
	out := &graphql.SelectionSet{}
	for _, s := range ss.Selections {
		var args map[string]interface{}
		if s.UnparsedArgs != nil {
			args = deepCopyJSON(s.UnparsedArgs).(map[string]interface{})
		}
		out.Selections = append(out.Selections, &graphql.Selection{
			Name: s.Name, Alias: s.Alias, UnparsedArgs: args, SelectionSet: copySel(s.SelectionSet),
		})
	}
	for _, f := range ss.Fragments {
		out.Fragments = append(out.Fragments, &graphql.Fragment{On: f.On, SelectionSet: copySel(f.SelectionSet)})
	}
	return out
}

func deepCopyJSON(v interface{}) interface{} {
	switch x := v.(type) {
	case map[string]interface{}:
		m := make(map[string]interface{}, len(x))
		for k, e := range x {
			m[k] = deepCopyJSON(e)
		}
		return m
	case []interface{}:
		l := make([]interface{}, len(x))
		for i, e := range x {
			l[i] = deepCopyJSON(e)
		}
		return l
	}
	return v
}

// selText prints a selection set for witnesses.
func selText(ss *graphql.SelectionSet) string {
	if ss == nil {
		return ""
	}
	var parts []string
	for _, s := range ss.Selections {
		p := s.Name
		if s.Alias != "" && s.Alias != s.Name {
			p = s.Alias + ": " + s.Name
		}
		if len(s.UnparsedArgs) > 0 {
			b, _ := json.Marshal(s.UnparsedArgs)
			p += "(" + string(b) + ")"
		}
		if s.SelectionSet != nil {
			p += " " + selText(s.SelectionSet)
		}
		parts = append(parts, p)
	}
	for _, f := range ss.Fragments {
		parts = append(parts, "... on "+f.On+" "+selText(f.SelectionSet))
	}
	return "{ " + strings.Join(parts, " ") + " }"
}

// staticSyncer hands a prepared planner to federation.NewExecutor.
type staticSyncer struct {
	planner *federation.Planner
	schema  *graphql.Schema
}

func (s *staticSyncer) FetchPlannerAndSchema(ctx context.Context) (*federation.Planner, *graphql.Schema, error) {
	return s.planner, s.schema, nil
}
