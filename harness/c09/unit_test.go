package c09

import (
	"math/rand"
	"strings"
	"testing"
)

// Unit tests of the harness' own models (not run by the driver).

func TestSkeletonRebuild(t *testing.T) {
	refs := []*tref{
		tI64, tI64R, listOf(tI64), nonNull(listOf(tI64R)), listOf(nonNull(listOf(tI64))), nonNull(listOf(listOf(tI64R))),
	}
	for _, r := range refs {
		_, flags, ok := r.skeleton()
		if !ok {
			t.Fatalf("%s: no skeleton", r)
		}
		if got := rebuild(r.root(), flags).String(); got != r.String() {
			t.Errorf("rebuild(%s) = %s", r, got)
		}
	}
	if _, _, ok := nonNull(nonNull(tI64)).skeleton(); ok {
		t.Errorf("NON_NULL inside NON_NULL accepted")
	}
}

func TestLattice(t *testing.T) {
	a := nonNull(listOf(tI64)) // [int64]!
	b := listOf(nonNull(tI64)) // [int64!]
	in, dis, ok := combineRefs([]*tref{a, b}, true)
	if !ok || !dis || in.String() != "[int64!]!" {
		t.Errorf("input lattice: %v %v %v", in, dis, ok)
	}
	out, _, ok := combineRefs([]*tref{a, b}, false)
	if !ok || out.String() != "[int64]" {
		t.Errorf("output lattice: %v %v", out, ok)
	}
	if _, _, ok := combineRefs([]*tref{tI64, listOf(tI64)}, true); ok {
		t.Errorf("list vs scalar accepted")
	}
	if _, _, ok := combineRefs([]*tref{tI64, tStr}, false); ok {
		t.Errorf("int64 vs string accepted")
	}
}

func TestModelMergeControl(t *testing.T) {
	var set [][]*schemaDef
	for _, p := range pinnedSets() {
		if p.name == "control" {
			set = p.set
		}
	}
	m := modelMerge(set)
	if len(m.Problems) != 0 {
		t.Fatalf("problems: %v", m.Problems)
	}
	got := m.Merged.canonical(nil)
	for _, want := range []string{
		"  F a(e:E,n:int64!): int64\n", // opt dropped (one version only), n required (one side requires), output nullable (one side nullable)
		"  F b(): [int64!]\n",
		"  E X\n", "  E Y\n",
	} {
		if !strings.Contains(got, want) {
			t.Errorf("merged lacks %q:\n%s", want, got)
		}
	}
	if strings.Contains(got, "  E Z\n") {
		t.Errorf("enum value of one version only survived:\n%s", got)
	}
	if !m.Support["Query.a"][0] || m.Support["Query.a"][1] || !m.Support["Query.b"][1] {
		t.Errorf("support: %v", m.Support)
	}
}

func TestModelProblems(t *testing.T) {
	for _, p := range pinnedSets() {
		m := modelMerge(p.set)
		switch p.name {
		case "order-services-required-arg":
			if len(m.Problems) == 0 {
				t.Errorf("%s: a required argument unknown to another service must be a problem", p.name)
			}
		case "control", "superset-enum", "superset-arg", "unfederated-split":
			if len(m.Problems) != 0 {
				t.Errorf("%s: %v", p.name, m.Problems)
			}
		}
	}
}

func TestRenderParseRoundTripAndClosure(t *testing.T) {
	for seed := int64(0); seed < 3000; seed++ {
		g := newGenA(rand.New(rand.NewSource(seed)))
		for s, versions := range g.versions() {
			for _, v := range versions {
				if p := v.closureProblems(); len(p) > 0 {
					t.Fatalf("seed %d: generated schema not closed: %v", seed, p)
				}
				if p := keyTypeMismatches(v); len(p) > 0 {
					t.Fatalf("seed %d: federated key input differs from the object's key field: %v", seed, p)
				}
				d, err := parseIntrospection(v.render("svc"))
				if err != nil {
					t.Fatal(err)
				}
				w := v.clone()
				w.renameFed(map[string]string{svcPlaceholder: "svc"})
				if d.canonical(nil) != w.canonical(nil) {
					t.Fatalf("seed %d service %d: render/parse changed the schema", seed, s)
				}
			}
		}
	}
}

func TestClosureDetects(t *testing.T) {
	s := sch(obj("Query", fld("a", named("OBJECT", "Gone")), fld("b", tI64, arg("x", named("ENUM", "NoEnum")))))
	if p := s.closureProblems(); len(p) != 2 {
		t.Errorf("problems: %v", p)
	}
}
