// Package c09 monitors property C09: the gateway schema merged from several
// services, each possibly running several versions, is executable by every
// live version of every service; the merge does not depend on names or order;
// arguments are required if any side requires them and outputs are non-null
// only if every side guarantees it.
package c09

import (
	"context"
	"encoding/json"
	"fmt"
	"math/rand"
	"os"
	"sort"
	"strings"
	"sync"
	"testing"

	"github.com/samsarahq/thunder/federation"
	"github.com/samsarahq/thunder/graphql"
	"github.com/samsarahq/thunder/verifharness/vlib"
)

// schemaSet is a generated set of services x versions.
type schemaSet interface {
	counts() []int // versions per service
	// jsonFor renders the introspection JSON of version v of service s when the
	// service is deployed under the name svcName.
	jsonFor(s, v int, svcName string) ([]byte, error)
	// versionSchema is that version's own executable schema (for PrepareQuery).
	versionSchema(s, v int, svcName string, strictHits *int64, mu *sync.Mutex) (*graphql.Schema, error)
	kind() string
	features() map[string]int
}

// ---- generator A as a schemaSet ----

type setA struct {
	g   *genA
	set [][]*schemaDef
}

func (a *setA) kind() string             { return "A" }
func (a *setA) features() map[string]int { return a.g.feat }
func (a *setA) counts() []int {
	out := make([]int, len(a.set))
	for i := range a.set {
		out[i] = len(a.set[i])
	}
	return out
}
func (a *setA) jsonFor(s, v int, svcName string) ([]byte, error) {
	return a.set[s][v].render(svcName), nil
}
func (a *setA) versionSchema(s, v int, svcName string, strictHits *int64, mu *sync.Mutex) (*graphql.Schema, error) {
	iq, err := toIQR(a.set[s][v].render(svcName))
	if err != nil {
		return nil, err
	}
	sw, err := federation.ConvertVersionedSchemas(map[string]map[string]*federation.IntrospectionQueryResult{svcName: {"": iq}})
	if err != nil {
		return nil, err
	}
	if err := installValidators(sw.Schema, strictHits, mu); err != nil {
		return nil, err
	}
	return sw.Schema, nil
}

// naming assigns display names to services and versions.
type naming struct {
	svc []string
	ver [][]string
	// order != 0: every list of every introspection result (types, fields, args,
	// inputFields, enumValues, possibleTypes) is shuffled with a seed derived
	// from (order, service, version). The lists are sets; thunder's own
	// introspection happens to sort them, other producers (stored JSON, other
	// servers, a custom SchemaSyncer) do not.
	order int64
}

var listKeys = map[string]bool{"types": true, "fields": true, "args": true, "inputFields": true, "enumValues": true, "possibleTypes": true, "interfaces": true, "directives": true}

func shuffleLists(v interface{}, r *rand.Rand) {
	switch x := v.(type) {
	case map[string]interface{}:
		keys := make([]string, 0, len(x))
		for k := range x {
			keys = append(keys, k)
		}
		sort.Strings(keys)
		for _, k := range keys {
			if l, ok := x[k].([]interface{}); ok && listKeys[k] {
				r.Shuffle(len(l), func(i, j int) { l[i], l[j] = l[j], l[i] })
			}
			shuffleLists(x[k], r)
		}
	case []interface{}:
		for _, e := range x {
			shuffleLists(e, r)
		}
	}
}

// permuteIntrospection returns the same introspection result with every list reordered.
func permuteIntrospection(b []byte, seed int64) ([]byte, error) {
	var doc interface{}
	if err := json.Unmarshal(b, &doc); err != nil {
		return nil, err
	}
	shuffleLists(doc, rand.New(rand.NewSource(seed)))
	return json.Marshal(doc)
}

var svcNamePool = []string{"alpha", "beta", "gamma", "Zed", "svc1", "svc10", "svc2", "a", "b", "core", "users", "Billing", "x9", "m"}
var verNamePool = []string{"", "v1", "v2", "v10", "2024a", "canary", "stable", "A", "b", "0", "9", "blue", "green"}

func randomNaming(r *rand.Rand, counts []int) naming {
	n := naming{}
	p := r.Perm(len(svcNamePool))
	for s := range counts {
		n.svc = append(n.svc, svcNamePool[p[s]])
		q := r.Perm(len(verNamePool))
		var vs []string
		for v := 0; v < counts[s]; v++ {
			vs = append(vs, verNamePool[q[v]])
		}
		n.ver = append(n.ver, vs)
	}
	return n
}

// reversedNaming keeps the set of names but reverses every sort order.
func reversedNaming(base naming) naming {
	rev := func(names []string) []string {
		sorted := append([]string(nil), names...)
		sort.Strings(sorted)
		rank := map[string]int{}
		for i, x := range sorted {
			rank[x] = i
		}
		out := make([]string, len(names))
		for i, x := range names {
			out[i] = sorted[len(sorted)-1-rank[x]]
		}
		return out
	}
	n := naming{svc: rev(base.svc)}
	for _, vs := range base.ver {
		n.ver = append(n.ver, rev(vs))
	}
	return n
}

func (n naming) String() string {
	var parts []string
	if n.order != 0 {
		parts = append(parts, fmt.Sprintf("lists-shuffled(seed %d)", n.order))
	}
	for s := range n.svc {
		parts = append(parts, fmt.Sprintf("%s%q", n.svc[s], n.ver[s]))
	}
	return strings.Join(parts, " ")
}

func (n naming) tokens() map[string]string {
	m := map[string]string{}
	for i, s := range n.svc {
		m[s] = svcToken(i)
	}
	return m
}

type outcome struct {
	mergeErr  string
	mergeOK   bool
	mergedRaw []byte
	merged    string // canonical, service names replaced by tokens
	convErr   string
	convOK    bool
	conv      string // canonical view of the converted schema + FieldInfo
	sw        *federation.SchemaWithFederationInfo
	panics    []string
}

func build(set schemaSet, n naming) (map[string]map[string]*federation.IntrospectionQueryResult, error) {
	out := map[string]map[string]*federation.IntrospectionQueryResult{}
	for s, c := range set.counts() {
		out[n.svc[s]] = map[string]*federation.IntrospectionQueryResult{}
		for v := 0; v < c; v++ {
			b, err := set.jsonFor(s, v, n.svc[s])
			if err != nil {
				return nil, err
			}
			if n.order != 0 {
				if b, err = permuteIntrospection(b, n.order*1000003+int64(s)*101+int64(v)); err != nil {
					return nil, err
				}
			}
			iq, err := toIQR(b)
			if err != nil {
				return nil, err
			}
			out[n.svc[s]][n.ver[s][v]] = iq
		}
	}
	return out, nil
}

// convCanonical prints the converted schema: every object field with its
// type, arguments, serving services and federated-key services.
func convCanonical(sw *federation.SchemaWithFederationInfo, tok map[string]string) (string, map[string][]string, error) {
	types := map[graphql.Type]string{}
	if sw.Schema.Query != nil {
		if err := federation.CollectTypes(sw.Schema.Query, types); err != nil {
			return "", nil, err
		}
	}
	if sw.Schema.Mutation != nil {
		if err := federation.CollectTypes(sw.Schema.Mutation, types); err != nil {
			return "", nil, err
		}
	}
	mapSvc := func(m map[string]bool) []string {
		var out []string
		for s, ok := range m {
			if !ok {
				continue
			}
			if t, ok := tok[s]; ok {
				s = t
			}
			out = append(out, s)
		}
		sort.Strings(out)
		return out
	}
	support := map[string][]string{}
	var lines []string
	for t := range types {
		switch t := t.(type) {
		case *graphql.Object:
			for name, f := range t.Fields {
				shown := name
				if t.Name == "Federation" {
					if i := strings.Index(name, "_"); i >= 0 {
						if x, ok := tok[name[:i]]; ok {
							shown = x + name[i:]
						}
					}
				}
				var as []string
				for an, at := range f.Args {
					as = append(as, an+":"+at.String())
				}
				sort.Strings(as)
				var svcs []string
				if info := sw.Fields[f]; info != nil {
					svcs = mapSvc(info.Services)
				}
				support[t.Name+"."+shown] = svcs
				lines = append(lines, fmt.Sprintf("%s.%s(%s): %s services=%v keys=%v", t.Name, shown, strings.Join(as, ","), f.Type, svcs, mapSvc(f.FederatedKey)))
			}
		case *graphql.Union:
			var ms []string
			for m := range t.Types {
				ms = append(ms, m)
			}
			sort.Strings(ms)
			lines = append(lines, fmt.Sprintf("union %s = %v", t.Name, ms))
		case *graphql.Enum:
			vs := append([]string(nil), t.Values...)
			sort.Strings(vs)
			lines = append(lines, fmt.Sprintf("enum %s = %v", t.Type, vs))
		}
	}
	sort.Strings(lines)
	return strings.Join(lines, "\n"), support, nil
}

func evaluate(set schemaSet, n naming) (*outcome, error) {
	o := &outcome{}
	in, err := build(set, n)
	if err != nil {
		return nil, err
	}
	var merged *federation.IntrospectionQueryResult
	func() {
		defer func() {
			if p := recover(); p != nil {
				err = fmt.Errorf("panic: %v", p)
				o.panics = append(o.panics, fmt.Sprintf("MergeIntrospectionSchemas: %v", p))
			}
		}()
		merged, err = federation.MergeIntrospectionSchemas(in)
	}()
	if err != nil {
		o.mergeErr = err.Error()
	} else {
		o.mergeOK = true
		b, err := json.Marshal(merged)
		if err != nil {
			return nil, err
		}
		o.mergedRaw = b
		d, err := parseIntrospection(b)
		if err != nil {
			o.merged = "unparseable: " + err.Error()
		} else {
			d.renameFed(n.tokens())
			o.merged = d.canonical(nil)
		}
	}
	in2, err := build(set, n)
	if err != nil {
		return nil, err
	}
	var sw *federation.SchemaWithFederationInfo
	func() {
		defer func() {
			if p := recover(); p != nil {
				err = fmt.Errorf("panic: %v", p)
				o.panics = append(o.panics, fmt.Sprintf("ConvertVersionedSchemas: %v", p))
			}
		}()
		sw, err = federation.ConvertVersionedSchemas(in2)
	}()
	if err != nil {
		o.convErr = err.Error()
	} else {
		o.convOK = true
		o.sw = sw
		c, _, err := convCanonical(sw, n.tokens())
		if err != nil {
			o.conv = "uncollectable: " + err.Error()
		} else {
			o.conv = c
		}
	}
	return o, nil
}

func describeSet(set schemaSet, n naming) map[string]interface{} {
	out := map[string]interface{}{}
	for s, c := range set.counts() {
		vs := map[string]interface{}{}
		for v := 0; v < c; v++ {
			b, err := set.jsonFor(s, v, n.svc[s])
			if err != nil {
				vs[n.ver[s][v]] = "error: " + err.Error()
				continue
			}
			d, err := parseIntrospection(b)
			if err != nil {
				vs[n.ver[s][v]] = "error: " + err.Error()
				continue
			}
			dropIntrospectionTypes(d)
			vs[fmt.Sprintf("%q", n.ver[s][v])] = strings.Split(strings.TrimSpace(d.canonical(nil)), "\n")
		}
		out[n.svc[s]] = vs
	}
	return out
}

func dropIntrospectionTypes(d *schemaDef) {
	for n := range d.Types {
		if strings.HasPrefix(n, "__") {
			delete(d.Types, n)
		}
	}
}

func firstDiff(a, b string) string {
	la, lb := strings.Split(a, "\n"), strings.Split(b, "\n")
	ca := map[string]int{}
	for _, l := range la {
		ca[l]++
	}
	cb := map[string]int{}
	for _, l := range lb {
		cb[l]++
	}
	var out []string
	seen := map[string]bool{}
	for _, l := range append(append([]string(nil), la...), lb...) {
		if seen[l] {
			continue
		}
		seen[l] = true
		for k := cb[l]; k < ca[l]; k++ {
			out = append(out, "- "+l)
		}
		for k := ca[l]; k < cb[l]; k++ {
			out = append(out, "+ "+l)
		}
	}
	if len(out) > 12 {
		out = out[:12]
	}
	return strings.Join(out, "\n")
}

// diagnosis of a rejected sub-query against what the receiving service
// supports in all of its versions (the reference model's per-service schema).
type diagnosis struct {
	superset    []string // uses something only OTHER services support (union of inputs across services)
	unfederated []string // needs a hop away from an object that no service federates
	other       []string // anything else (the service itself does not fully support what it was sent)
}

// diagnoseValue walks a value the way the receiving VERSION checks it (t is
// the version's type at this position) and attributes every rejection:
// "superset" when the rejected element is something the receiving SERVICE
// does not support in all of its versions (pt, the type at the same position
// in the service's intersection, is nil or lacks the enum value) and therefore
// only reached the merged schema through other services; "other" when the
// service's own intersection claims support for it.
func (x *diagCtx) value(where string, val interface{}, t, pt *tref, foreign bool, d *diagnosis) {
	ver, per, merged := x.ver, x.per, x.merged
	reject := func(kind, msg string) {
		if pt == nil && foreign {
			d.superset = append(d.superset, kind+":"+where+": "+msg+" (the receiving service does not support this input in all of its versions; other services contributed it)")
		} else {
			d.other = append(d.other, where+": "+msg)
		}
	}
	if t.Kind == "NON_NULL" {
		if val == nil {
			reject("input", "required value missing")
			return
		}
		t = t.Of
	}
	if pt != nil && pt.Kind == "NON_NULL" {
		pt = pt.Of
	}
	if val == nil {
		return
	}
	if pt != nil && (pt.Kind != t.Kind || pt.Name != t.Name) {
		d.other = append(d.other, where+": version and service intersection disagree on the type")
		return
	}
	switch t.Kind {
	case "LIST":
		l, ok := val.([]interface{})
		if !ok {
			reject("input", "not a list")
			return
		}
		var pof *tref
		if pt != nil {
			pof = pt.Of
		}
		for _, e := range l {
			x.value(where+"[]", e, t.Of, pof, foreign, d)
		}
	case "SCALAR":
		ok := true
		switch t.Name {
		case "string", "ID", "id":
			_, ok = val.(string)
		case "bool":
			_, ok = val.(bool)
		case "float64", "float32", "int64", "int32", "int16", "int8", "int", "uint64", "uint32", "uint16", "uint8":
			_, ok = val.(float64)
		}
		if !ok {
			reject("input", fmt.Sprintf("value %v is not a %s", val, t.Name))
		}
	case "ENUM":
		s, isStr := val.(string)
		ve := ver.Types[t.Name]
		if isStr && ve != nil && hasStr(ve.EnumValues, s) {
			return
		}
		pe := per.Types[t.Name]
		me := merged.Types[t.Name]
		othersKnow := false
		for _, o := range x.others {
			if oe := o.Types[t.Name]; oe != nil && isStr && hasStr(oe.EnumValues, s) {
				othersKnow = true
			}
		}
		if (pt == nil && foreign) || ((pe == nil || !hasStr(pe.EnumValues, s)) && othersKnow && me != nil && hasStr(me.EnumValues, s)) {
			d.superset = append(d.superset, fmt.Sprintf("enum:%s: value %v of %s is not supported by the receiving service", where, val, t.Name))
		} else {
			d.other = append(d.other, fmt.Sprintf("%s: value %v of enum %s rejected although every version should know it", where, val, t.Name))
		}
	case "INPUT_OBJECT":
		m, ok := val.(map[string]interface{})
		vi := ver.Types[t.Name]
		if !ok || vi == nil {
			reject("input", "not an input object")
			return
		}
		var pi *typeDef
		if pt != nil {
			pi = per.Types[t.Name]
		}
		for _, f := range vi.InputFields {
			var pft *tref
			fforeign := foreign
			if pi != nil {
				if pf := pi.inputField(f.Name); pf != nil {
					pft = pf.Type
				} else {
					// the service's intersection lacks this input field: did other services contribute it?
					fforeign = false
					for _, o := range x.others {
						if oi := o.Types[t.Name]; oi != nil && oi.inputField(f.Name) != nil {
							fforeign = true
						}
					}
				}
			}
			x.value(where+"."+f.Name, m[f.Name], f.Type, pft, fforeign, d)
		}
	}
}

// diagCtx: the receiving version's schema, what the receiving service supports
// in all versions, what the OTHER services support in all of theirs, and the
// merged schema (all with service tokens in Federation field names).
type diagCtx struct {
	ver, per, merged *schemaDef
	others           []*schemaDef
	tok              map[string]string
}

func (x *diagCtx) selections(typeName string, ss *graphql.SelectionSet, d *diagnosis) {
	ver, per, merged, tok := x.ver, x.per, x.merged, x.tok
	if ss == nil {
		return
	}
	t := ver.Types[typeName]
	if t == nil {
		d.other = append(d.other, "type "+typeName+" unknown to the receiving version")
		return
	}
	if t.Kind == "UNION" {
		for _, f := range ss.Fragments {
			if hasStr(t.Possible, f.On) {
				x.selections(f.On, f.SelectionSet, d)
			}
		}
		return
	}
	for _, s := range ss.Selections {
		if s.Name == "__typename" {
			continue
		}
		name := s.Name
		if typeName == "Federation" {
			if i := strings.Index(name, "_"); i >= 0 {
				if x, ok := tok[name[:i]]; ok {
					name = x + name[i:]
				}
			}
		}
		f := t.field(name)
		if f == nil && name == "_federation" && merged.Types[typeName] != nil && merged.Types[typeName].field("_federation") == nil {
			d.unfederated = append(d.unfederated, fmt.Sprintf("object %s is not federated on any service, yet the plan hops away from it", typeName))
			continue
		}
		if f == nil {
			d.other = append(d.other, fmt.Sprintf("field %s.%s unknown to the receiving version", typeName, s.Name))
			continue
		}
		if len(f.Args) == 0 {
			if len(s.UnparsedArgs) > 0 {
				var ks []string
				for k := range s.UnparsedArgs {
					ks = append(ks, k)
				}
				sort.Strings(ks)
				var pf *fieldDef
				if pt := per.Types[typeName]; pt != nil {
					pf = pt.field(name)
				}
				othersTake := false
				for _, o := range x.others {
					if ot := o.Types[typeName]; ot != nil {
						if of := ot.field(name); of != nil && len(of.Args) > 0 {
							othersTake = true
						}
					}
				}
				if pf != nil && len(pf.Args) == 0 && othersTake {
					d.superset = append(d.superset, fmt.Sprintf("arg:%s.%s: arguments %v are not supported by the receiving service", typeName, s.Name, ks))
				} else {
					d.other = append(d.other, fmt.Sprintf("%s.%s: arguments %v rejected although every version should know them", typeName, s.Name, ks))
				}
			}
		} else {
			var pf *fieldDef
			if pt := per.Types[typeName]; pt != nil {
				pf = pt.field(name)
			}
			for _, a := range f.Args {
				var pat *tref
				foreign := false
				if pf != nil {
					if pa := pf.arg(a.Name); pa != nil {
						pat = pa.Type
					} else {
						for _, o := range x.others {
							if ot := o.Types[typeName]; ot != nil {
								if of := ot.field(name); of != nil && of.arg(a.Name) != nil {
									foreign = true
								}
							}
						}
					}
				}
				x.value(typeName+"."+s.Name+"("+a.Name+")", s.UnparsedArgs[a.Name], a.Type, pat, foreign, d)
			}
		}
		x.selections(f.Type.root().Name, s.SelectionSet, d)
	}
	for _, f := range ss.Fragments {
		if f.On == typeName {
			x.selections(typeName, f.SelectionSet, d)
		}
	}
}

// execDisagreements compares the executable schema with the merged
// introspection schema: objects, fields, result types, arguments, input
// objects (through arguments, recursively), enums and unions.
func execDisagreements(sw *federation.SchemaWithFederationInfo, merged *schemaDef) []string {
	var out []string
	types := map[graphql.Type]string{}
	if sw.Schema.Query != nil {
		_ = federation.CollectTypes(sw.Schema.Query, types)
	}
	if sw.Schema.Mutation != nil {
		_ = federation.CollectTypes(sw.Schema.Mutation, types)
	}
	seenInput := map[string]bool{}
	var visitInput func(where string, t graphql.Type)
	visitInput = func(where string, t graphql.Type) {
		switch x := t.(type) {
		case *graphql.NonNull:
			visitInput(where, x.Type)
		case *graphql.List:
			visitInput(where, x.Type)
		case *graphql.Enum:
			md := merged.Types[x.Type]
			if md == nil || md.Kind != "ENUM" {
				out = append(out, fmt.Sprintf("%s: enum %s not an enum of the merged introspection schema", where, x.Type))
				return
			}
			a, b := append([]string(nil), x.Values...), append([]string(nil), md.EnumValues...)
			sort.Strings(a)
			sort.Strings(b)
			if fmt.Sprint(a) != fmt.Sprint(b) {
				out = append(out, fmt.Sprintf("enum %s: executable %v, introspection %v", x.Type, a, b))
			}
		case *graphql.InputObject:
			if seenInput[x.Name] {
				return
			}
			seenInput[x.Name] = true
			md := merged.Types[x.Name]
			if md == nil || md.Kind != "INPUT_OBJECT" {
				out = append(out, fmt.Sprintf("%s: input object %s not in the merged introspection schema", where, x.Name))
				return
			}
			for _, mf := range md.InputFields {
				ft, ok := x.InputFields[mf.Name]
				if !ok {
					out = append(out, fmt.Sprintf("%s.%s: only in the introspection schema", x.Name, mf.Name))
					continue
				}
				if ft.String() != mf.Type.String() {
					out = append(out, fmt.Sprintf("%s.%s: executable %s, introspection %s", x.Name, mf.Name, ft, mf.Type))
				}
				visitInput(x.Name+"."+mf.Name, ft)
			}
			for n := range x.InputFields {
				if md.inputField(n) == nil {
					out = append(out, fmt.Sprintf("%s.%s: only in the executable schema", x.Name, n))
				}
			}
		}
	}
	for t := range types {
		switch x := t.(type) {
		case *graphql.Object:
			md := merged.Types[x.Name]
			if md == nil || md.Kind != "OBJECT" {
				out = append(out, fmt.Sprintf("object %s not in the merged introspection schema", x.Name))
				continue
			}
			for _, mf := range md.Fields {
				f, ok := x.Fields[mf.Name]
				if !ok {
					out = append(out, fmt.Sprintf("%s.%s: only in the introspection schema", x.Name, mf.Name))
					continue
				}
				if f.Type.String() != mf.Type.String() {
					out = append(out, fmt.Sprintf("%s.%s: result executable %s, introspection %s", x.Name, mf.Name, f.Type, mf.Type))
				}
				for _, ma := range mf.Args {
					at, ok := f.Args[ma.Name]
					if !ok {
						out = append(out, fmt.Sprintf("%s.%s(%s): only in the introspection schema", x.Name, mf.Name, ma.Name))
						continue
					}
					if at.String() != ma.Type.String() {
						out = append(out, fmt.Sprintf("%s.%s(%s): executable %s, introspection %s", x.Name, mf.Name, ma.Name, at, ma.Type))
					}
					visitInput(x.Name+"."+mf.Name+"("+ma.Name+")", at)
				}
				for n := range f.Args {
					if mf.arg(n) == nil {
						out = append(out, fmt.Sprintf("%s.%s(%s): only in the executable schema", x.Name, mf.Name, n))
					}
				}
			}
			for n := range x.Fields {
				if md.field(n) == nil {
					out = append(out, fmt.Sprintf("%s.%s: only in the executable schema", x.Name, n))
				}
			}
		case *graphql.Union:
			md := merged.Types[x.Name]
			if md == nil || md.Kind != "UNION" {
				out = append(out, fmt.Sprintf("union %s not in the merged introspection schema", x.Name))
				continue
			}
			var a []string
			for n := range x.Types {
				a = append(a, n)
			}
			b := append([]string(nil), md.Possible...)
			sort.Strings(a)
			sort.Strings(b)
			if fmt.Sprint(a) != fmt.Sprint(b) {
				out = append(out, fmt.Sprintf("union %s: executable %v, introspection %v", x.Name, a, b))
			}
		case *graphql.Enum:
			visitInput("output", x)
		}
	}
	sort.Strings(out)
	return out
}

// Classifier keys (stable; see FINDINGS.md).
const (
	classOrder       = "order-dependent-merge"
	classSuperset    = "union-input-superset"
	classUnfederated = "unfederated-object-split"
)

// viol counts a violation by oracle and class before recording it.
func viol(run *vlib.Run, i int, tag, class string, w map[string]interface{}) {
	gen, _ := w["generator"].(string)
	c := class
	if c == "" {
		c = "unclassified"
	}
	run.Count("violation:"+tag+":"+c+":gen"+gen, 1)
	w["oracle"] = tag
	run.Violation(i, class, w)
}

func rejectKind(s string) string {
	for _, k := range []string{"is non-null", "conflicting kinds", "kinds", "types must be identical", "unknown kind", "incompatible"} {
		if strings.Contains(s, k) {
			return k
		}
	}
	return "other"
}

func errKind(err error) string {
	s := err.Error()
	for _, k := range []string{"only support 1 mutation", "not an object", "missing _federation", "does not have key", "key already exists", "results for", "root object not found", "root did not have", "executor res not", "key field is an incorrect type"} {
		if strings.Contains(s, k) {
			return k
		}
	}
	return "other"
}

func TestCheck(t *testing.T) {
	run := vlib.Start(t, "C09", "exploration")
	defer run.Finish()
	run.Rule("sets of 1-3 services x 1-3 versions of introspection schemas. Generator A (synthetic, 80%): universe of enums, input objects (nested), objects with key field, a union, root query/mutation fields, " +
		"list/non-null nestings, distributed over services following thunder's federation conventions (_federation field, Federation.<svc>_<Obj>(keys)); per-service views of shared enums/input objects may lack a value/optional field; " +
		"versions = base view + 0-3 mutations (add/remove field, arg (optional/required), enum value, union member, input field; flip nullability of outputs/args/input fields at any nesting level; wrap/unwrap list; change scalar), unreachable types pruned. " +
		"Generator B (real, 20%): schemabuilder services built from feature bitmasks (registered field funcs, arg structs, enum maps, union members, pointer vs value returns), JSON from introspection.ComputeSchemaJSON, real arg parsers. " +
		"About 15% of generator-A sets also contain a type NAME with different KINDS on two sides (custom scalar vs enum/input/object/union across services, or across versions of one service) that no common field refers to; these must be rejected under every naming. About 9% of multi-service generator-A sets make one service (or one version of it) expose an object as a plain object that another service federates; thunder refuses such sets and the refusal must not depend on naming. Drawn independently per generator-A set: 25% get an argument and an input field with 2-3 list levels of random per-level nullability (one level flipped in one version half of the time), 25% get the pair S / S! both as argument and as result of one field on two sides, 20% get a list argument / input field / result whose modifiers differ on two sides at two levels in opposite directions. " +
		"Each set is evaluated under its base naming, the order-reversing naming, 2 random namings whose introspection lists (types, fields, args, inputFields, enumValues, possibleTypes) are shuffled per schema, and the base naming with shuffled lists (MergeIntrospectionSchemas + ConvertVersionedSchemas), compared with a set-semantics reference merge, checked for closure, " +
		"the executable schema of ConvertVersionedSchemas is compared structurally (every field, argument and input-field type at every nesting level, enums, unions) with the merged introspection schema, and queries generated from the merged introspection only are executed through federation.Executor with fabricating clients; every recorded sub-query is PrepareQuery'd against every version's own schema of the receiving service. " +
		"Non-trivial = >=2 services AND >=1 multi-version service AND merge succeeded AND >=1 element on which the sides differ (dropped by intersection, contributed by one service only inside a shared field/type, or nullability disagreement). " +
		"Distinct = (versions per service, kinds of differences with multiplicity capped at 2, generator, number of services reached by queries).")
	run.Assume("synthetic version schemas validate arguments with a model of schemabuilder's arg parser (a field without arguments rejects any; otherwise unknown keys are ignored, declared values type-checked, enum values must be declared)")
	run.Assume("sub-queries are checked in the form the service receives them (after federation.MarshalQuery/UnmarshalQuery)")
	run.Assume("root fields served by several services are routed with a seeded ServiceSelector among FieldInfo.Services (the default picks by map iteration)")
	nSets := run.N(300, 60000)
	nQueries := run.N(20, 50)
	// case indices >= nSets are the pinned reproducers of pinned_test.go
	run.Each(nSets+len(pinnedSets()), 8, func(i int) {
		fmt.Printf("CASE %d\n", i)
		runCase(run, i, nSets, nQueries)
	})
}

func makeSet(run *vlib.Run, i, nSets int) schemaSet {
	if i >= nSets {
		p := pinnedSets()[i-nSets]
		return &setA{g: &genA{feat: map[string]int{"pinned:" + p.name: 1}}, set: p.set}
	}
	r := run.Rand("set", i)
	if i%5 == 4 {
		return newSetB(r)
	}
	g := newGenA(r)
	return &setA{g: g, set: g.versions()}
}

func runCase(run *vlib.Run, i, nSets, nQueries int) {
	set := makeSet(run, i, nSets)
	counts := set.counts()
	rn := run.Rand("naming", i)
	base := randomNaming(rn, counts)
	namings := []naming{base, reversedNaming(base), randomNaming(rn, counts), randomNaming(rn, counts), base}
	// the two random namings also get their lists shuffled; the last evaluation keeps
	// the base names and only reorders the lists inside the introspection results
	ro := run.Rand("order", i)
	for k := 2; k < len(namings); k++ {
		namings[k].order = 1 + ro.Int63n(1<<40)
	}
	if set.kind() == "B" {
		// schemabuilder lower-cases the service name it puts into Federation field names
		for k := range namings {
			namings[k] = lowerNaming(namings[k])
		}
		base = namings[0]
	}

	wit := func(extra map[string]interface{}) map[string]interface{} {
		w := map[string]interface{}{"generator": set.kind(), "naming": base.String(), "schemas": describeSet(set, base)}
		for k, v := range extra {
			w[k] = v
		}
		return w
	}

	// the reference model works on the abstract schemas with service tokens
	var abstract [][]*schemaDef
	for s, c := range counts {
		var vs []*schemaDef
		for v := 0; v < c; v++ {
			b, err := set.jsonFor(s, v, base.svc[s])
			if err != nil {
				run.Broken(fmt.Sprintf("case %d: cannot render schema: %v", i, err))
				return
			}
			d, err := parseIntrospection(b)
			if err != nil {
				run.Broken(fmt.Sprintf("case %d: cannot parse own schema: %v", i, err))
				return
			}
			d.renameFed(map[string]string{base.svc[s]: svcToken(s)})
			if p := d.closureProblems(); len(p) > 0 {
				run.Broken(fmt.Sprintf("case %d: generated schema %d/%d is not closed: %v", i, s, v, p))
				return
			}
			if p := keyTypeMismatches(d); len(p) > 0 {
				run.Broken(fmt.Sprintf("case %d: generated schema %d/%d has a federated key input that differs from the object's key field (outside the property's quantifier): %v", i, s, v, p))
				return
			}
			vs = append(vs, d)
		}
		abstract = append(abstract, vs)
	}
	model := modelMerge(abstract)

	var outs []*outcome
	for _, n := range namings {
		o, err := evaluate(set, n)
		if err != nil {
			run.Broken(fmt.Sprintf("case %d: %v", i, err))
			return
		}
		outs = append(outs, o)
	}
	b := outs[0]
	for k, o := range outs {
		if len(o.panics) > 0 {
			viol(run, i, "panic", "", wit(map[string]interface{}{"what": "thunder panicked while merging well-formed introspection schemas", "naming_used": namings[k].String(), "panics": o.panics}))
		}
	}

	// ---- oracle 1: metamorphic under renaming / permutation ----
	anyFail, anyOK := false, false
	for _, o := range outs {
		if o.mergeOK {
			anyOK = true
		} else {
			anyFail = true
		}
	}
	orderDependent := anyFail && anyOK
	for k, o := range outs[1:] {
		n := namings[k+1]
		parityClass := classOrder
		if k+1 == len(namings)-1 {
			parityClass = "" // same names as the base: only the order inside the lists differs
		}
		switch {
		case o.mergeOK != b.mergeOK:
			viol(run, i, "merge_parity", parityClass, wit(map[string]interface{}{
				"what":   "MergeIntrospectionSchemas succeeds under one naming of the services/versions / ordering of the lists in the introspection results and fails under another",
				"other":  n.String(),
				"base":   map[string]interface{}{"ok": b.mergeOK, "err": b.mergeErr},
				"second": map[string]interface{}{"ok": o.mergeOK, "err": o.mergeErr},
			}))
		case o.mergeOK && o.merged != b.merged:
			viol(run, i, "merge_result", "", wit(map[string]interface{}{
				"what": "merged schema differs under renaming of services/versions or reordering of the lists (fields, args, enumValues, possibleTypes ...) inside the introspection results (- base, + other)", "other": n.String(), "diff": firstDiff(b.merged, o.merged),
			}))
		}
		switch {
		case o.convOK != b.convOK:
			cls := ""
			if orderDependent && parityClass != "" {
				cls = classOrder
			}
			viol(run, i, "convert_parity", cls, wit(map[string]interface{}{
				"what":   "ConvertVersionedSchemas succeeds under one naming / list ordering and fails under another",
				"other":  n.String(),
				"base":   map[string]interface{}{"ok": b.convOK, "err": b.convErr},
				"second": map[string]interface{}{"ok": o.convOK, "err": o.convErr},
			}))
		case o.convOK && o.conv != b.conv:
			viol(run, i, "convert_result", "", wit(map[string]interface{}{
				"what": "converted schema / field-to-service map differs under renaming or list reordering (- base, + other)", "other": n.String(), "diff": firstDiff(b.conv, o.conv),
			}))
		}
	}

	nontrivial := len(counts) >= 2 && b.mergeOK && len(model.Diffs) > 0
	multi := false
	for _, c := range counts {
		if c > 1 {
			multi = true
		}
	}
	nontrivial = nontrivial && multi
	servicesReached := 0

	if b.mergeOK {
		run.Count("merge:ok", 1)
		run.Count("merge:ok:gen"+set.kind(), 1)
	} else {
		run.Count("merge:rejected", 1)
		run.Count("merge:rejected:"+rejectKind(b.mergeErr), 1)
		if len(model.Problems) == 0 {
			run.Count("merge:rejected_without_model_problem", 1)
			if os.Getenv("C09_DEBUG") != "" {
				fmt.Printf("DEBUG rejected without model problem case %d: %s (all namings fail: %v)\n", i, b.mergeErr, !anyOK)
			}
		}
	}
	for k, v := range model.Diffs {
		run.Count("diff:"+k, v)
	}
	for k, v := range set.features() {
		run.Count(k, v)
	}
	run.Count("generator:"+set.kind(), 1)
	run.Count(fmt.Sprintf("services:%d", len(counts)), 1)

	if b.mergeOK {
		mergedDef, err := parseIntrospection(b.mergedRaw)
		if err != nil {
			viol(run, i, "merged_malformed", "", wit(map[string]interface{}{"what": "merged introspection result is not well-formed", "err": err.Error()}))
			return
		}
		mergedTok := mergedDef.clone()
		mergedTok.renameFed(base.tokens())

		// ---- oracle 2: closure ----
		if p := mergedTok.closureProblems(); len(p) > 0 {
			viol(run, i, "closure", "", wit(map[string]interface{}{"what": "merged schema references types it does not contain", "problems": p}))
		}

		// ---- inputs the property's own rules cannot merge must be rejected ----
		if len(model.Problems) > 0 {
			cls := ""
			if orderDependent {
				cls = classOrder
			}
			viol(run, i, "accepted_unmergeable", cls, wit(map[string]interface{}{
				"what": "merge accepted schemas that cannot be served by every side", "problems": model.Problems,
			}))
		} else {
			// ---- oracles 3+4: exactly (union over services of (intersection over versions)), with the nullability lattice ----
			want := model.Merged.canonical(nil)
			if b.merged != want {
				viol(run, i, "model_mismatch", "", wit(map[string]interface{}{
					"what": "merged schema differs from union-of-intersections with the nullability lattice (- thunder, + expected)",
					"diff": firstDiff(b.merged, want),
				}))
			}
		}
		fieldInfoBad := false
		if b.convOK && len(model.Problems) == 0 {
			_, support, err := convCanonical(b.sw, base.tokens())
			if err == nil {
				var bad []string
				for k, svcs := range support {
					var want []string
					for s := range model.Support[k] {
						want = append(want, svcToken(s))
					}
					sort.Strings(want)
					if fmt.Sprint(want) != fmt.Sprint(svcs) {
						bad = append(bad, fmt.Sprintf("%s: FieldInfo.Services=%v, services whose every version has it=%v", k, svcs, want))
					}
				}
				// (objects that are in the merged type list but unreachable from the roots
				// legitimately have FieldInfo entries; only the nil key is wrong)
				if _, stray := b.sw.Fields[nil]; stray {
					bad = append(bad, "FieldInfo has an entry under the nil field (a service was recorded for a field the merge dropped)")
				}
				sort.Strings(bad)
				if len(bad) > 0 {
					fieldInfoBad = true
					viol(run, i, "fieldinfo", "", wit(map[string]interface{}{"what": "FieldInfo.Services differs from the services whose every version has the field", "fields": bad}))
				}
			}
		} else if !b.convOK {
			run.Count("convert:rejected_after_merge_ok", 1)
		}

		// ---- the two public entry points must describe the same gateway schema: the executable
		// schema of ConvertVersionedSchemas vs the introspection result of MergeIntrospectionSchemas,
		// compared structurally (every field / argument / input-field type at every nesting level) ----
		execBad := false
		if b.convOK {
			if dis := execDisagreements(b.sw, mergedDef); len(dis) > 0 {
				execBad = true
				if len(dis) > 12 {
					dis = dis[:12]
				}
				viol(run, i, "exec_schema", "", wit(map[string]interface{}{
					"what":          "the executable gateway schema (ConvertVersionedSchemas) disagrees with the merged introspection schema (MergeIntrospectionSchemas) of the same set",
					"disagreements": dis,
				}))
			}
		}

		// ---- oracle 5: end to end ----
		// (a field-to-service map already shown wrong is not executed: the planner would act on it)
		if b.convOK && len(model.Problems) == 0 && !fieldInfoBad {
			servicesReached = endToEnd(run, i, set, base, b, mergedDef, model, abstract, nQueries, execBad, wit)
		}
	}

	var dk []string
	for k, v := range model.Diffs {
		if v > 2 {
			v = 2
		}
		dk = append(dk, fmt.Sprintf("%s=%d", k, v))
	}
	sort.Strings(dk)
	sc := append([]int(nil), counts...)
	sort.Ints(sc)
	shape := fmt.Sprintf("%s %v %v ok=%v reached=%d", set.kind(), sc, dk, b.mergeOK, servicesReached)
	run.Case(shape, nontrivial)
	if nontrivial {
		run.Count("nontrivial_sets", 1)
	}
	if nontrivial && run.WantSample() && i%7 == 0 {
		run.Sample(map[string]interface{}{"case": i, "naming": base.String(), "schemas": describeSet(set, base), "differences": model.Diffs,
			"merged": strings.Split(strings.TrimSpace(b.merged), "\n")})
	}
}

func endToEnd(run *vlib.Run, i int, set schemaSet, base naming, b *outcome, mergedDef *schemaDef, model *modelResult, abstract [][]*schemaDef, nQueries int, execBad bool, wit func(map[string]interface{}) map[string]interface{}) int {
	counts := set.counts()
	svcIdx := map[string]int{}
	for s, n := range base.svc {
		svcIdx[n] = s
	}
	// deterministic routing of root fields that several services serve
	rs := run.Rand("route", i)
	routeSeed := rs.Int63()
	selector := func(typeName, fieldName string) string {
		if typeName != "Query" && typeName != "Mutation" {
			return ""
		}
		obj, _ := b.sw.Schema.Query.(*graphql.Object)
		if typeName == "Mutation" {
			obj, _ = b.sw.Schema.Mutation.(*graphql.Object)
		}
		if obj == nil {
			return ""
		}
		f := obj.Fields[fieldName]
		if f == nil || b.sw.Fields[f] == nil || len(b.sw.Fields[f].Services) < 2 {
			return ""
		}
		var ss []string
		for s := range b.sw.Fields[f].Services {
			ss = append(ss, s)
		}
		sort.Strings(ss)
		return ss[int((uint64(routeSeed)+uint64(hashOf(fieldName)))%uint64(len(ss)))]
	}
	planner, err := federation.NewPlanner(b.sw, selector)
	if err != nil {
		run.Count("e2e:planner_error", 1)
		return 0
	}
	rec := &recorder{merged: b.sw.Schema}
	clients := map[string]federation.ExecutorClient{}
	for _, n := range base.svc {
		clients[n] = &fabClient{svc: n, rec: rec}
	}
	ctx, cancel := context.WithCancel(context.Background())
	defer cancel()
	ex, err := federation.NewExecutor(ctx, clients, &federation.SchemaSyncerConfig{SchemaSyncer: &staticSyncer{planner: planner, schema: b.sw.Schema}})
	if err != nil {
		run.Broken(fmt.Sprintf("case %d: NewExecutor: %v", i, err))
		return 0
	}

	var strictHits int64
	var smu sync.Mutex
	type vkey struct{ s, v int }
	vschemas := map[vkey]*graphql.Schema{}
	vschema := func(s, v int) *graphql.Schema {
		k := vkey{s, v}
		if sc, ok := vschemas[k]; ok {
			return sc
		}
		sc, err := set.versionSchema(s, v, base.svc[s], &strictHits, &smu)
		if err != nil {
			run.Count("e2e:version_schema_unconvertible", 1)
			if os.Getenv("C09_DEBUG") != "" {
				fmt.Printf("DEBUG version schema unconvertible case %d %d/%d: %v\n", i, s, v, err)
			}
			sc = nil
		}
		vschemas[k] = sc
		return sc
	}

	// self-check of the query generator: every query must validate, spec-strictly, against the merged schema
	var selfSchema *graphql.Schema
	if in, err := build(set, base); err == nil {
		if sw2, err := federation.ConvertVersionedSchemas(in); err == nil {
			var dummy int64
			if installValidatorsMode(sw2.Schema, &dummy, &smu, true) == nil {
				selfSchema = sw2.Schema
			}
		}
	}
	if selfSchema == nil {
		run.Broken(fmt.Sprintf("case %d: cannot build the merged schema for the generator self-check", i))
		return 0
	}

	reached := map[string]bool{}
	for qi := 0; qi < nQueries; qi++ {
		rq := run.Rand(fmt.Sprintf("query/%d", i), qi)
		g := &qgen{r: rq, s: mergedDef, feat: map[string]bool{}}
		text := g.query()
		q, err := graphql.Parse(text, map[string]interface{}{})
		if err != nil {
			run.Broken(fmt.Sprintf("case %d: generated query does not parse: %v: %s", i, err, text))
			return len(reached)
		}
		if q2, err := graphql.Parse(text, map[string]interface{}{}); err == nil {
			var root graphql.Type = selfSchema.Query
			if q2.Kind == "mutation" {
				root = selfSchema.Mutation
			}
			if err := graphql.PrepareQuery(ctx, root, q2.SelectionSet); err != nil {
				if execBad {
					// the query is valid against the merged introspection schema it was generated from (already
					// cross-checked against the reference model); thunder's own executable schema of the same set
					// refuses it, and the structural comparison above shows the two schemas differ
					viol(run, i, "exec_schema_query", "", wit(map[string]interface{}{
						"what":  "a query valid against the merged introspection schema is rejected by the executable gateway schema built from the same set",
						"query": text, "prepare_error": err.Error(),
					}))
					return len(reached)
				}
				// executable and introspection-level schema agree structurally: the generator is at fault
				run.Broken(fmt.Sprintf("case %d: generated query is not valid against the merged schema: %v: %s", i, err, text))
				return len(reached)
			}
		}
		rec.mu.Lock()
		rec.queries = nil
		rec.mu.Unlock()
		func() {
			defer func() {
				if p := recover(); p != nil {
					err = fmt.Errorf("panic: %v", p)
					viol(run, i, "panic", "", wit(map[string]interface{}{"what": "federation.Executor panicked on a query valid against the merged schema", "query": text, "panic": fmt.Sprint(p)}))
				}
			}()
			_, _, err = ex.Execute(ctx, q, nil)
		}()
		if err != nil {
			run.Count("e2e:execute_error:"+errKind(err), 1)
			if os.Getenv("C09_DEBUG") != "" {
				fmt.Printf("DEBUG exec error case %d q %d: %v\n   query: %s\n", i, qi, err, text)
			}
		} else {
			run.Count("e2e:execute_ok", 1)
		}
		rec.mu.Lock()
		subs := append([]subQuery(nil), rec.queries...)
		rec.mu.Unlock()
		run.Count("e2e:queries", 1)
		run.Count("e2e:subqueries", len(subs))
		if len(subs) > 1 {
			run.Count("e2e:multi_subquery_queries", 1)
		}
		for f := range g.feat {
			run.Count("query:"+f, 1)
		}
		for _, sq := range subs {
			s, ok := svcIdx[sq.Service]
			if !ok {
				continue
			}
			reached[sq.Service] = true
			if len(sq.Sel.Selections) > 0 && sq.Sel.Selections[0].Name == "_federation" {
				run.Count("e2e:hop_subqueries", 1)
			}
			for v := 0; v < counts[s]; v++ {
				sc := vschema(s, v)
				if sc == nil {
					continue
				}
				var root graphql.Type = sc.Query
				if sq.Kind == "mutation" {
					root = sc.Mutation
				}
				var perr error
				func() {
					defer func() {
						if p := recover(); p != nil {
							perr = fmt.Errorf("PrepareQuery panicked: %v", p)
						}
					}()
					if root == nil {
						perr = fmt.Errorf("version has no %s type", sq.Kind)
						return
					}
					perr = graphql.PrepareQuery(ctx, root, copySel(sq.Sel))
				}()
				run.Count("e2e:version_validations", 1)
				if perr == nil {
					continue
				}
				d := &diagnosis{}
				rootName := "Query"
				if sq.Kind == "mutation" {
					rootName = "Mutation"
				}
				mergedTok := mergedDef.clone()
				mergedTok.renameFed(base.tokens())
				dc := &diagCtx{ver: abstract[s][v], per: model.PerService[s], merged: mergedTok, tok: base.tokens()}
				for o, per := range model.PerService {
					if o != s {
						dc.others = append(dc.others, per)
					}
				}
				dc.selections(rootName, sq.Sel, d)
				// one violation per recognised cause; anything unrecognised stays unclassified
				var classes []string
				if len(d.other) == 0 {
					if len(d.superset) > 0 {
						classes = append(classes, classSuperset)
					}
					if len(d.unfederated) > 0 {
						classes = append(classes, classUnfederated)
					}
				}
				if len(classes) == 0 {
					classes = []string{""}
					if os.Getenv("C09_DEBUG") != "" {
						fmt.Printf("DEBUG unclassified case %d q %d: %v | %v | %v\n", i, qi, perr, d.other, d.superset)
					}
				}
				for _, cls := range classes {
					viol(run, i, "subquery_rejected", cls, wit(map[string]interface{}{
						"what":          "a query valid against the merged schema produced a sub-query that a version of the receiving service rejects",
						"query":         text,
						"query_index":   qi,
						"service":       sq.Service,
						"version":       base.ver[s][v],
						"sub_query":     sq.Kind + " " + selText(sq.Sel),
						"prepare_error": perr.Error(),
						"diagnosis": map[string]interface{}{
							"only_other_services_support": d.superset, "hop_from_unfederated_object": d.unfederated, "other": d.other},
						"service_supports_in_all_versions": strings.Split(strings.TrimSpace(model.PerService[s].canonical(nil)), "\n"),
					}))
				}
			}
		}
	}
	if strictHits > 0 {
		run.Count("e2e:unknown_keys_tolerated_by_thunder_parser", int(strictHits))
	}
	run.Count(fmt.Sprintf("e2e:services_reached:%d", len(reached)), 1)
	return len(reached)
}
