package c09

import "math/rand"

func newSetB(r *rand.Rand) schemaSet {
	g := newGenA(r)
	return &setA{g: g, set: g.versions()}
}
