package c09

import (
	"fmt"
	"math/rand"
	"reflect"
	"strings"
	"sync"

	"github.com/samsarahq/thunder/graphql"
	"github.com/samsarahq/thunder/graphql/introspection"
	"github.com/samsarahq/thunder/graphql/schemabuilder"
)

// Generator B: real schemabuilder services. Three service templates (users,
// profiles, admins) share an enum (bKind), an input object (Filter), the
// federated objects User / Admin and a union; a version of a service is the
// template built with a feature bitmask that decides which field funcs are
// registered, which argument structs they take, which values the enum map
// has, which members the union has and whether results are pointers
// (nullable) or values (non-null). Introspection JSON comes from
// introspection.ComputeSchemaJSON and the per-version schema used for
// PrepareQuery is the real built schema with its real argument parsers.

type bKind int32

type User struct {
	Id   int64
	Name string
}

type bProfileUser struct {
	Id int64
}

type bUserKey struct {
	Id int64
}

type Admin struct {
	Id    int64
	Level int64
}

type bAdminKey struct {
	Id int64
}

type Guest struct {
	Token string
}

// Filter variants: distinct Go types that all carry the GraphQL name
// "Filter_InputObject" (what a shared library type looks like at different
// versions).
var filterTypes = func() map[string]reflect.Type {
	m := map[string]reflect.Type{}
	func() {
		type Filter struct {
			Prefix string
			Limit  *int64
		}
		m["base"] = reflect.TypeOf(Filter{})
	}()
	func() {
		type Filter struct {
			Prefix string
			Limit  *int64
			Deep   *bool
		}
		m["deep"] = reflect.TypeOf(Filter{})
	}()
	func() {
		type Filter struct {
			Prefix string
			Limit  int64
		}
		m["limitRequired"] = reflect.TypeOf(Filter{})
	}()
	func() {
		type Filter struct {
			Prefix string
			Limit  int64
			Deep   *bool
		}
		m["deepLimitRequired"] = reflect.TypeOf(Filter{})
	}()
	return m
}()

// union variants, both named "Everyone"
var everyoneTypes = func() map[bool]reflect.Type {
	m := map[bool]reflect.Type{}
	func() {
		type Everyone struct {
			schemabuilder.Union
			*User
			*Guest
		}
		m[false] = reflect.TypeOf(Everyone{})
	}()
	func() {
		type Everyone struct {
			schemabuilder.Union
			*User
			*Guest
			*Admin
		}
		m[true] = reflect.TypeOf(Everyone{})
	}()
	return m
}()

type bArg struct {
	Name string // exported Go field name; GraphQL name is lower-camel
	Type reflect.Type
}

// dynFunc builds a field func value of type func([src][, args struct]) ret.
// The functions are never executed (the fabricating clients answer queries).
func dynFunc(src reflect.Type, args []bArg, ret reflect.Type) interface{} {
	var in []reflect.Type
	if src != nil {
		in = append(in, src)
	}
	if len(args) > 0 {
		var fs []reflect.StructField
		for _, a := range args {
			fs = append(fs, reflect.StructField{Name: a.Name, Type: a.Type})
		}
		in = append(in, reflect.StructOf(fs))
	}
	ft := reflect.FuncOf(in, []reflect.Type{ret}, false)
	return reflect.MakeFunc(ft, func([]reflect.Value) []reflect.Value {
		return []reflect.Value{reflect.Zero(ret)}
	}).Interface()
}

var (
	tInt64     = reflect.TypeOf(int64(0))
	tString    = reflect.TypeOf("")
	tBool      = reflect.TypeOf(false)
	tKind      = reflect.TypeOf(bKind(0))
	tUserPtr   = reflect.TypeOf(&User{})
	tPUserPtr  = reflect.TypeOf(&bProfileUser{})
	tAdminPtr  = reflect.TypeOf(&Admin{})
	tFloat64   = reflect.TypeOf(float64(0))
	bTemplates = []string{"users", "profiles", "admins"}
)

func bit(mask uint, i uint) bool { return mask&(1<<i) != 0 }

func kindMap(values ...string) map[string]bKind {
	all := map[string]bKind{"A": 0, "B": 1, "C": 2, "D": 3}
	m := map[string]bKind{}
	for _, v := range values {
		m[v] = all[v]
	}
	return m
}

func filterVariant(deep, limitRequired bool) reflect.Type {
	switch {
	case deep && limitRequired:
		return filterTypes["deepLimitRequired"]
	case deep:
		return filterTypes["deep"]
	case limitRequired:
		return filterTypes["limitRequired"]
	}
	return filterTypes["base"]
}

// buildB builds one version of a template under a service name.
func buildB(template, svcName string, mask uint) *schemabuilder.Schema {
	s := schemabuilder.NewSchemaWithName(svcName)
	q := s.Query()
	mut := s.Mutation()
	switch template {
	case "users":
		vals := []string{"A"}
		if !bit(mask, 9) {
			vals = append(vals, "B")
		}
		if bit(mask, 2) {
			vals = append(vals, "C")
		}
		s.Enum(bKind(0), kindMap(vals...))
		user := s.Object("User", User{}, schemabuilder.FetchObjectFromKeys(func(args struct{ Keys []bUserKey }) []*User { return nil }))
		user.Key("id")
		s.Object("Guest", Guest{})
		s.Object("Admin", Admin{}, schemabuilder.FetchObjectFromKeys(func(args struct{ Keys []bAdminKey }) []*Admin { return nil })).Key("id")

		uargs := []bArg{{"Id", tInt64}}
		if bit(mask, 0) {
			uargs = append(uargs, bArg{"Verbose", reflect.PtrTo(tBool)})
		}
		q.FieldFunc("user", dynFunc(nil, uargs, tUserPtr))
		if bit(mask, 1) {
			user.FieldFunc("kind", dynFunc(tUserPtr, []bArg{{"Hint", reflect.PtrTo(tKind)}}, reflect.PtrTo(tKind)))
		} else {
			user.FieldFunc("kind", dynFunc(tUserPtr, []bArg{{"Hint", reflect.PtrTo(tKind)}}, tKind))
		}
		ft := filterVariant(bit(mask, 3), false)
		if bit(mask, 8) {
			q.FieldFunc("search", dynFunc(nil, []bArg{{"Filter", reflect.PtrTo(ft)}}, reflect.SliceOf(reflect.TypeOf(User{}))))
		} else {
			q.FieldFunc("search", dynFunc(nil, []bArg{{"Filter", reflect.PtrTo(ft)}}, reflect.SliceOf(tUserPtr)))
		}
		q.FieldFunc("everyone", dynFunc(nil, nil, reflect.SliceOf(reflect.PtrTo(everyoneTypes[bit(mask, 4)]))))
		if bit(mask, 5) {
			user.FieldFunc("nick", dynFunc(tUserPtr, nil, tString))
		}
		if bit(mask, 6) {
			q.FieldFunc("byKind", dynFunc(nil, []bArg{{"Kind", tKind}}, reflect.SliceOf(tUserPtr)))
		} else {
			q.FieldFunc("byKind", dynFunc(nil, []bArg{{"Kind", reflect.PtrTo(tKind)}}, reflect.SliceOf(tUserPtr)))
		}
		margs := []bArg{{"Id", tInt64}, {"Name", tString}}
		if bit(mask, 7) {
			margs = append(margs, bArg{"Reason", reflect.PtrTo(tString)})
		}
		mut.FieldFunc("rename", dynFunc(nil, margs, tUserPtr))
	case "profiles":
		vals := []string{"A", "B"}
		if bit(mask, 2) {
			vals = append(vals, "D")
		}
		s.Enum(bKind(0), kindMap(vals...))
		user := s.Object("User", bProfileUser{}, schemabuilder.FetchObjectFromKeys(func(args struct{ Keys []bUserKey }) []*bProfileUser { return nil }))
		user.Key("id")
		if bit(mask, 0) {
			user.FieldFunc("email", dynFunc(tPUserPtr, nil, reflect.PtrTo(tString)))
		} else {
			user.FieldFunc("email", dynFunc(tPUserPtr, nil, tString))
		}
		pargs := []bArg{{"First", reflect.PtrTo(tInt64)}}
		if bit(mask, 1) {
			pargs = append(pargs, bArg{"Kind", reflect.PtrTo(tKind)})
		}
		user.FieldFunc("posts", dynFunc(tPUserPtr, pargs, reflect.SliceOf(tString)))
		if bit(mask, 4) {
			user.FieldFunc("score", dynFunc(tPUserPtr, nil, tFloat64))
		}
		ft := filterVariant(bit(mask, 3), bit(mask, 6))
		if bit(mask, 5) {
			q.FieldFunc("profileCount", dynFunc(nil, []bArg{{"Filter", ft}}, tInt64))
		} else {
			q.FieldFunc("profileCount", dynFunc(nil, []bArg{{"Filter", reflect.PtrTo(ft)}}, tInt64))
		}
		if bit(mask, 7) {
			q.FieldFunc("byKind", dynFunc(nil, []bArg{{"Kind", reflect.PtrTo(tKind)}, {"Strict", reflect.PtrTo(tBool)}}, reflect.SliceOf(tPUserPtr)))
		}
	case "admins":
		vals := []string{"B"}
		if !bit(mask, 1) {
			vals = append(vals, "A")
		}
		s.Enum(bKind(0), kindMap(vals...))
		admin := s.Object("Admin", Admin{}, schemabuilder.FetchObjectFromKeys(func(args struct{ Keys []bAdminKey }) []*Admin { return nil }))
		admin.Key("id")
		if bit(mask, 0) {
			admin.FieldFunc("clearance", dynFunc(tAdminPtr, []bArg{{"Kind", reflect.PtrTo(tKind)}}, tString))
		} else {
			admin.FieldFunc("clearance", dynFunc(tAdminPtr, nil, tString))
		}
		ft := filterVariant(bit(mask, 3), false)
		aargs := []bArg{}
		if bit(mask, 2) {
			aargs = append(aargs, bArg{"Filter", reflect.PtrTo(ft)})
		}
		if bit(mask, 4) {
			q.FieldFunc("admins", dynFunc(nil, aargs, reflect.SliceOf(reflect.TypeOf(Admin{}))))
		} else {
			q.FieldFunc("admins", dynFunc(nil, aargs, reflect.SliceOf(tAdminPtr)))
		}
		if bit(mask, 5) {
			mut.FieldFunc("promote", dynFunc(nil, []bArg{{"Id", tInt64}, {"Kind", tKind}}, tAdminPtr))
		}
	}
	return s
}

var bBits = map[string]uint{"users": 10, "profiles": 8, "admins": 6}

type setB struct {
	templates []string
	masks     [][]uint
	feat      map[string]int

	mu    sync.Mutex
	jsons map[string][]byte
}

func (b *setB) kind() string             { return "B" }
func (b *setB) features() map[string]int { return b.feat }
func (b *setB) counts() []int {
	out := make([]int, len(b.masks))
	for i := range b.masks {
		out[i] = len(b.masks[i])
	}
	return out
}

func (b *setB) jsonFor(s, v int, svcName string) (out []byte, err error) {
	key := fmt.Sprintf("%d/%d/%s", s, v, svcName)
	b.mu.Lock()
	if j, ok := b.jsons[key]; ok {
		b.mu.Unlock()
		return j, nil
	}
	b.mu.Unlock()
	defer func() {
		if p := recover(); p != nil {
			err = fmt.Errorf("schemabuilder: %v", p)
		}
	}()
	sc := buildB(b.templates[s], svcName, b.masks[s][v])
	out, err = introspection.ComputeSchemaJSON(*sc)
	if err == nil {
		b.mu.Lock()
		b.jsons[key] = out
		b.mu.Unlock()
	}
	return out, err
}

func (b *setB) versionSchema(s, v int, svcName string, strictHits *int64, mu *sync.Mutex) (sc *graphql.Schema, err error) {
	defer func() {
		if p := recover(); p != nil {
			err = fmt.Errorf("schemabuilder: %v", p)
		}
	}()
	return buildB(b.templates[s], svcName, b.masks[s][v]).MustBuild(), nil
}

func newSetB(r *rand.Rand) schemaSet {
	b := &setB{feat: map[string]int{}, jsons: map[string][]byte{}}
	n := 2
	if r.Intn(3) == 0 {
		n = 3
	}
	perm := r.Perm(len(bTemplates))
	for _, p := range perm[:n] {
		t := bTemplates[p]
		b.templates = append(b.templates, t)
		base := uint(r.Intn(1 << bBits[t]))
		// bias towards few features set so that versions overlap a lot
		base &= uint(r.Intn(1 << bBits[t]))
		nv := 1 + r.Intn(3)
		var ms []uint
		for v := 0; v < nv; v++ {
			m := base
			if v > 0 {
				for k, flips := 0, 1+r.Intn(3); k < flips; k++ {
					m ^= 1 << uint(r.Intn(int(bBits[t])))
				}
			}
			ms = append(ms, m)
		}
		b.masks = append(b.masks, ms)
		b.feat["genB:template:"+t]++
	}
	return b
}

func lowerNaming(n naming) naming {
	out := naming{ver: n.ver, order: n.order}
	for _, s := range n.svc {
		out.svc = append(out.svc, strings.ToLower(s))
	}
	return out
}
