package c09

import (
	"encoding/json"
	"fmt"
	"sort"
	"strings"

	"github.com/samsarahq/thunder/federation"
)

// ---------------------------------------------------------------------------
// Abstract schema description (the harness' own representation; never thunder's).
// ---------------------------------------------------------------------------

// tref mirrors an introspection type reference.
type tref struct {
	Kind string `json:"kind"`
	Name string `json:"name,omitempty"`
	Of   *tref  `json:"ofType,omitempty"`
}

func named(kind, name string) *tref { return &tref{Kind: kind, Name: name} }
func nonNull(t *tref) *tref         { return &tref{Kind: "NON_NULL", Of: t} }
func listOf(t *tref) *tref          { return &tref{Kind: "LIST", Of: t} }

func (t *tref) String() string {
	if t == nil {
		return "<nil>"
	}
	switch t.Kind {
	case "NON_NULL":
		return t.Of.String() + "!"
	case "LIST":
		return "[" + t.Of.String() + "]"
	}
	return t.Name
}

func (t *tref) clone() *tref {
	if t == nil {
		return nil
	}
	return &tref{Kind: t.Kind, Name: t.Name, Of: t.Of.clone()}
}

func (t *tref) root() *tref {
	for t.Of != nil {
		t = t.Of
	}
	return t
}

// skeleton strips NON_NULL wrappers: "[[int64]]" plus one flag per nesting
// level (outermost first; the last flag belongs to the named type).
func (t *tref) skeleton() (string, []bool, bool) {
	var flags []bool
	var sb strings.Builder
	depth := 0
	for {
		nn := false
		if t == nil {
			return "", nil, false
		}
		if t.Kind == "NON_NULL" {
			nn = true
			t = t.Of
			if t == nil || t.Kind == "NON_NULL" {
				return "", nil, false
			}
		}
		flags = append(flags, nn)
		if t.Kind == "LIST" {
			sb.WriteString("[")
			depth++
			t = t.Of
			continue
		}
		sb.WriteString(t.Kind + ":" + t.Name)
		break
	}
	sb.WriteString(strings.Repeat("]", depth))
	return sb.String(), flags, true
}

// rebuild makes a type reference from a skeleton's named root, the list depth
// and per-level flags.
func rebuild(root *tref, flags []bool) *tref {
	t := named(root.Kind, root.Name)
	// flags[len-1] belongs to the named type, flags[0] to the outermost level
	for i := len(flags) - 1; i >= 0; i-- {
		if flags[i] {
			t = nonNull(t)
		}
		if i > 0 {
			t = listOf(t)
		}
	}
	return t
}

type inputVal struct {
	Name string
	Type *tref
}

type fieldDef struct {
	Name string
	Type *tref
	Args []inputVal
}

type typeDef struct {
	Name        string
	Kind        string
	Fields      []fieldDef
	InputFields []inputVal
	Possible    []string
	EnumValues  []string
}

type schemaDef struct {
	Types map[string]*typeDef
}

func newSchemaDef() *schemaDef { return &schemaDef{Types: map[string]*typeDef{}} }

func (s *schemaDef) clone() *schemaDef {
	c := newSchemaDef()
	for n, t := range s.Types {
		nt := &typeDef{Name: t.Name, Kind: t.Kind}
		for _, f := range t.Fields {
			nf := fieldDef{Name: f.Name, Type: f.Type.clone()}
			for _, a := range f.Args {
				nf.Args = append(nf.Args, inputVal{a.Name, a.Type.clone()})
			}
			nt.Fields = append(nt.Fields, nf)
		}
		for _, a := range t.InputFields {
			nt.InputFields = append(nt.InputFields, inputVal{a.Name, a.Type.clone()})
		}
		nt.Possible = append([]string(nil), t.Possible...)
		nt.EnumValues = append([]string(nil), t.EnumValues...)
		c.Types[n] = nt
	}
	return c
}

func (t *typeDef) field(name string) *fieldDef {
	for i := range t.Fields {
		if t.Fields[i].Name == name {
			return &t.Fields[i]
		}
	}
	return nil
}

func (t *typeDef) inputField(name string) *inputVal {
	for i := range t.InputFields {
		if t.InputFields[i].Name == name {
			return &t.InputFields[i]
		}
	}
	return nil
}

func (f *fieldDef) arg(name string) *inputVal {
	for i := range f.Args {
		if f.Args[i].Name == name {
			return &f.Args[i]
		}
	}
	return nil
}

func hasStr(xs []string, x string) bool {
	for _, y := range xs {
		if x == y {
			return true
		}
	}
	return false
}

func (s *schemaDef) typeNames() []string {
	ns := make([]string, 0, len(s.Types))
	for n := range s.Types {
		ns = append(ns, n)
	}
	sort.Strings(ns)
	return ns
}

// svcPlaceholder marks the service-name part of Federation field names in
// abstract schemas ("@S@_User"); render substitutes the display name, because
// thunder's convention is Federation.<service>_<Object>.
const svcPlaceholder = "@S@"

// gc drops types not reachable from Query / Mutation (real introspection only
// lists reachable types) and makes sure referenced scalars are declared.
func (s *schemaDef) gc() {
	seen := map[string]bool{}
	var visitRef func(t *tref)
	var visit func(name string)
	visitRef = func(t *tref) {
		r := t.root()
		if r.Kind == "SCALAR" {
			if _, ok := s.Types[r.Name]; !ok {
				s.Types[r.Name] = &typeDef{Name: r.Name, Kind: "SCALAR"}
			}
		}
		visit(r.Name)
	}
	visit = func(name string) {
		if seen[name] {
			return
		}
		t, ok := s.Types[name]
		if !ok {
			return
		}
		seen[name] = true
		for _, f := range t.Fields {
			visitRef(f.Type)
			for _, a := range f.Args {
				visitRef(a.Type)
			}
		}
		for _, a := range t.InputFields {
			visitRef(a.Type)
		}
		for _, p := range t.Possible {
			visit(p)
		}
	}
	visit("Query")
	visit("Mutation")
	for n := range s.Types {
		if !seen[n] {
			delete(s.Types, n)
		}
	}
}

// ---------------------------------------------------------------------------
// Rendering to / parsing from the introspection JSON thunder reads and writes.
// ---------------------------------------------------------------------------

type jInput struct {
	Name         string  `json:"name"`
	Description  string  `json:"description"`
	Type         *tref   `json:"type"`
	DefaultValue *string `json:"defaultValue"`
}

type jField struct {
	Name              string   `json:"name"`
	Description       string   `json:"description"`
	Args              []jInput `json:"args"`
	Type              *tref    `json:"type"`
	IsDeprecated      bool     `json:"isDeprecated"`
	DeprecationReason string   `json:"deprecationReason"`
}

type jEnumValue struct {
	Name              string `json:"name"`
	Description       string `json:"description"`
	IsDeprecated      bool   `json:"isDeprecated"`
	DeprecationReason string `json:"deprecationReason"`
}

type jType struct {
	Kind          string       `json:"kind"`
	Name          string       `json:"name"`
	Description   string       `json:"description"`
	Fields        []jField     `json:"fields"`
	InputFields   []jInput     `json:"inputFields"`
	Interfaces    []*tref      `json:"interfaces"`
	EnumValues    []jEnumValue `json:"enumValues"`
	PossibleTypes []*tref      `json:"possibleTypes"`
}

type jSchema struct {
	QueryType    map[string]interface{} `json:"queryType"`
	MutationType map[string]interface{} `json:"mutationType"`
	Types        []jType                `json:"types"`
	Directives   []interface{}          `json:"directives"`
}

type jDoc struct {
	Schema jSchema `json:"__schema"`
}

// render writes the abstract schema as introspection JSON for a service
// displayed under the name svc.
func (s *schemaDef) render(svc string) []byte {
	doc := jDoc{Schema: jSchema{
		QueryType:    map[string]interface{}{"name": "Query"},
		MutationType: map[string]interface{}{"name": "Mutation"},
		Directives:   []interface{}{},
	}}
	for _, n := range s.typeNames() {
		t := s.Types[n]
		jt := jType{Kind: t.Kind, Name: t.Name, Fields: []jField{}, InputFields: []jInput{}, Interfaces: []*tref{}, EnumValues: []jEnumValue{}, PossibleTypes: []*tref{}}
		fs := append([]fieldDef(nil), t.Fields...)
		for i := range fs {
			fs[i].Name = strings.Replace(fs[i].Name, svcPlaceholder, svc, 1)
		}
		sort.Slice(fs, func(i, j int) bool { return fs[i].Name < fs[j].Name })
		for _, f := range fs {
			jf := jField{Name: f.Name, Type: f.Type, Args: []jInput{}}
			as := append([]inputVal(nil), f.Args...)
			sort.Slice(as, func(i, j int) bool { return as[i].Name < as[j].Name })
			for _, a := range as {
				jf.Args = append(jf.Args, jInput{Name: a.Name, Type: a.Type})
			}
			jt.Fields = append(jt.Fields, jf)
		}
		is := append([]inputVal(nil), t.InputFields...)
		sort.Slice(is, func(i, j int) bool { return is[i].Name < is[j].Name })
		for _, a := range is {
			jt.InputFields = append(jt.InputFields, jInput{Name: a.Name, Type: a.Type})
		}
		ev := append([]string(nil), t.EnumValues...)
		sort.Strings(ev)
		for _, v := range ev {
			jt.EnumValues = append(jt.EnumValues, jEnumValue{Name: v})
		}
		ps := append([]string(nil), t.Possible...)
		sort.Strings(ps)
		for _, p := range ps {
			jt.PossibleTypes = append(jt.PossibleTypes, named("OBJECT", p))
		}
		doc.Schema.Types = append(doc.Schema.Types, jt)
	}
	b, err := json.Marshal(doc)
	if err != nil {
		panic(err)
	}
	return b
}

// parseIntrospection reads introspection JSON (from a real service or from
// thunder's merge) into the abstract form.
func parseIntrospection(b []byte) (*schemaDef, error) {
	var doc jDoc
	if err := json.Unmarshal(b, &doc); err != nil {
		return nil, err
	}
	s := newSchemaDef()
	for _, jt := range doc.Schema.Types {
		if _, dup := s.Types[jt.Name]; dup {
			return nil, fmt.Errorf("duplicate type %s", jt.Name)
		}
		t := &typeDef{Name: jt.Name, Kind: jt.Kind}
		for _, jf := range jt.Fields {
			f := fieldDef{Name: jf.Name, Type: jf.Type}
			for _, ja := range jf.Args {
				f.Args = append(f.Args, inputVal{ja.Name, ja.Type})
			}
			t.Fields = append(t.Fields, f)
		}
		for _, ja := range jt.InputFields {
			t.InputFields = append(t.InputFields, inputVal{ja.Name, ja.Type})
		}
		for _, e := range jt.EnumValues {
			t.EnumValues = append(t.EnumValues, e.Name)
		}
		for _, p := range jt.PossibleTypes {
			if p == nil {
				return nil, fmt.Errorf("nil possible type in %s", jt.Name)
			}
			t.Possible = append(t.Possible, p.Name)
		}
		s.Types[jt.Name] = t
	}
	return s, nil
}

// renameFed rewrites the service prefix of Federation field names
// ("<service>_<Object>") through the given map (display name -> token).
func (s *schemaDef) renameFed(m map[string]string) {
	t, ok := s.Types["Federation"]
	if !ok {
		return
	}
	for i := range t.Fields {
		name := t.Fields[i].Name
		if j := strings.Index(name, "_"); j >= 0 {
			if tok, ok := m[name[:j]]; ok {
				t.Fields[i].Name = tok + name[j:]
			}
		}
	}
}

func svcToken(i int) string { return fmt.Sprintf("@%d@", i) }

func toIQR(b []byte) (*federation.IntrospectionQueryResult, error) {
	var iq federation.IntrospectionQueryResult
	if err := json.Unmarshal(b, &iq); err != nil {
		return nil, err
	}
	return &iq, nil
}

// canonical renders an abstract schema as a sorted, order-free string.
// fedRename maps a Federation field's service prefix (display name) to a
// stable token; nil keeps names.
func (s *schemaDef) canonical(fedRename map[string]string) string {
	var sb strings.Builder
	for _, n := range s.typeNames() {
		t := s.Types[n]
		fmt.Fprintf(&sb, "%s %s\n", t.Kind, t.Name)
		var lines []string
		for _, f := range t.Fields {
			name := f.Name
			if t.Name == "Federation" && fedRename != nil {
				if i := strings.Index(name, "_"); i >= 0 {
					if tok, ok := fedRename[name[:i]]; ok {
						name = tok + name[i:]
					}
				}
			}
			var as []string
			for _, a := range f.Args {
				as = append(as, a.Name+":"+a.Type.String())
			}
			sort.Strings(as)
			lines = append(lines, fmt.Sprintf("  F %s(%s): %s", name, strings.Join(as, ","), f.Type))
		}
		for _, a := range t.InputFields {
			lines = append(lines, fmt.Sprintf("  I %s: %s", a.Name, a.Type))
		}
		for _, v := range t.EnumValues {
			lines = append(lines, "  E "+v)
		}
		for _, p := range t.Possible {
			lines = append(lines, "  P "+p)
		}
		sort.Strings(lines)
		for _, l := range lines {
			sb.WriteString(l + "\n")
		}
	}
	return sb.String()
}

// ---------------------------------------------------------------------------
// Closure (oracle 2)
// ---------------------------------------------------------------------------

// closureProblems lists every reference to a type that is missing from the
// schema or has a different kind than the reference says.
func (s *schemaDef) closureProblems() []string {
	var out []string
	check := func(where string, t *tref, input bool) {
		if t == nil {
			out = append(out, where+": nil type")
			return
		}
		if _, _, ok := t.skeleton(); !ok {
			out = append(out, where+": malformed type reference")
			return
		}
		r := t.root()
		d, ok := s.Types[r.Name]
		if !ok {
			out = append(out, fmt.Sprintf("%s: type %s missing", where, r.Name))
			return
		}
		if d.Kind != r.Kind {
			out = append(out, fmt.Sprintf("%s: type %s is %s, referenced as %s", where, r.Name, d.Kind, r.Kind))
		}
		if input && (d.Kind == "OBJECT" || d.Kind == "UNION") {
			out = append(out, fmt.Sprintf("%s: output type %s used as input", where, r.Name))
		}
		if !input && d.Kind == "INPUT_OBJECT" {
			out = append(out, fmt.Sprintf("%s: input type %s used as output", where, r.Name))
		}
	}
	for _, n := range s.typeNames() {
		t := s.Types[n]
		for _, f := range t.Fields {
			check(n+"."+f.Name, f.Type, false)
			for _, a := range f.Args {
				check(n+"."+f.Name+"("+a.Name+")", a.Type, true)
			}
		}
		for _, a := range t.InputFields {
			check(n+"."+a.Name, a.Type, true)
		}
		for _, p := range t.Possible {
			d, ok := s.Types[p]
			if !ok {
				out = append(out, fmt.Sprintf("%s: union member %s missing", n, p))
			} else if d.Kind != "OBJECT" {
				out = append(out, fmt.Sprintf("%s: union member %s is %s", n, p, d.Kind))
			}
		}
	}
	return out
}

// ---------------------------------------------------------------------------
// Reference model of the merge: set semantics, no pairwise folding.
//   per service: what ALL versions have; gateway: what ANY service has;
//   input nullability: required if any side requires; output: non-null iff all.
// ---------------------------------------------------------------------------

type modelResult struct {
	Merged *schemaDef
	// PerService[s] = what every version of s supports
	PerService []*schemaDef
	// Support["Type.field"] = set of service indices whose every version has it
	Support map[string]map[int]bool
	// Problems: inputs that are not mergeable under the property's own rules
	// (incompatible shapes/kinds among the sides of a surviving element, a
	// required input some side lacks). thunder must reject these; order of
	// discovery is irrelevant here.
	Problems []string
	// Diffs: decisions where the sides disagreed (used for the non-triviality
	// rule and the shape hash).
	Diffs map[string]int
}

func combineRefs(sides []*tref, input bool) (*tref, bool, bool) {
	var sk string
	var flags []bool
	disagree := false
	for i, t := range sides {
		k, fl, ok := t.skeleton()
		if !ok {
			return nil, false, false
		}
		if i == 0 {
			sk = k
			flags = append([]bool(nil), fl...)
			continue
		}
		if k != sk || len(fl) != len(flags) {
			return nil, false, false
		}
		for j := range fl {
			if fl[j] != flags[j] {
				disagree = true
			}
			if input {
				flags[j] = flags[j] || fl[j]
			} else {
				flags[j] = flags[j] && fl[j]
			}
		}
	}
	return rebuild(sides[0].root(), flags), disagree, true
}

// intersectInputs / unionInputs work on lists of inputVal sets.
func mergeInputSets(sets [][]inputVal, all bool, where string, res *modelResult, diffKey string) []inputVal {
	count := map[string]int{}
	refs := map[string][]*tref{}
	for _, set := range sets {
		for _, a := range set {
			count[a.Name]++
			refs[a.Name] = append(refs[a.Name], a.Type)
		}
	}
	names := make([]string, 0, len(count))
	for n := range count {
		names = append(names, n)
	}
	sort.Strings(names)
	var out []inputVal
	for _, n := range names {
		partial := count[n] != len(sets)
		if partial {
			res.Diffs[diffKey+":partial"]++
			// a required input that some side does not know cannot be served by both
			for _, t := range refs[n] {
				if t != nil && t.Kind == "NON_NULL" {
					res.Problems = append(res.Problems, fmt.Sprintf("%s.%s: required on one side, unknown to another", where, n))
					break
				}
			}
			if all {
				continue
			}
		}
		m, dis, ok := combineRefs(refs[n], true)
		if !ok {
			res.Problems = append(res.Problems, fmt.Sprintf("%s.%s: incompatible input types", where, n))
			continue
		}
		if dis {
			res.Diffs[diffKey+":null"]++
		}
		out = append(out, inputVal{n, m})
	}
	return out
}

func mergeNameSets(sets [][]string, all bool, res *modelResult, diffKey string) []string {
	count := map[string]int{}
	for _, set := range sets {
		seen := map[string]bool{}
		for _, n := range set {
			if !seen[n] {
				seen[n] = true
				count[n]++
			}
		}
	}
	var out []string
	for n, c := range count {
		if c != len(sets) {
			res.Diffs[diffKey+":partial"]++
			if all {
				continue
			}
		}
		out = append(out, n)
	}
	sort.Strings(out)
	return out
}

// mergeDefs combines schemas; all=true keeps what every schema has
// (versions of one service), all=false what any has (services).
func mergeDefs(schemas []*schemaDef, all bool, res *modelResult, stage string) *schemaDef {
	out := newSchemaDef()
	count := map[string]int{}
	for _, s := range schemas {
		for n := range s.Types {
			count[n]++
		}
	}
	names := make([]string, 0, len(count))
	for n := range count {
		names = append(names, n)
	}
	sort.Strings(names)
	for _, n := range names {
		var defs []*typeDef
		for _, s := range schemas {
			if d, ok := s.Types[n]; ok {
				defs = append(defs, d)
			}
		}
		kindOK := true
		for _, d := range defs[1:] {
			if d.Kind != defs[0].Kind {
				kindOK = false
			}
		}
		if !kindOK {
			res.Problems = append(res.Problems, fmt.Sprintf("%s: type %s has conflicting kinds", stage, n))
			continue
		}
		if count[n] != len(schemas) {
			res.Diffs[stage+":type:partial"]++
			if all {
				continue
			}
		}
		m := &typeDef{Name: n, Kind: defs[0].Kind}
		switch m.Kind {
		case "OBJECT":
			fcount := map[string]int{}
			for _, d := range defs {
				for _, f := range d.Fields {
					fcount[f.Name]++
				}
			}
			fnames := make([]string, 0, len(fcount))
			for fn := range fcount {
				fnames = append(fnames, fn)
			}
			sort.Strings(fnames)
			for _, fn := range fnames {
				if fcount[fn] != len(defs) {
					res.Diffs[stage+":field:partial"]++
					if all {
						continue
					}
				}
				var refs []*tref
				var argSets [][]inputVal
				for _, d := range defs {
					if f := d.field(fn); f != nil {
						refs = append(refs, f.Type)
						argSets = append(argSets, f.Args)
					}
				}
				ft, dis, ok := combineRefs(refs, false)
				if !ok {
					res.Problems = append(res.Problems, fmt.Sprintf("%s: %s.%s has incompatible types", stage, n, fn))
					continue
				}
				if dis {
					res.Diffs[stage+":out:null"]++
				}
				args := mergeInputSets(argSets, all, stage+": "+n+"."+fn, res, stage+":arg")
				m.Fields = append(m.Fields, fieldDef{Name: fn, Type: ft, Args: args})
			}
		case "INPUT_OBJECT":
			var sets [][]inputVal
			for _, d := range defs {
				sets = append(sets, d.InputFields)
			}
			m.InputFields = mergeInputSets(sets, all, stage+": "+n, res, stage+":inputfield")
		case "ENUM":
			var sets [][]string
			for _, d := range defs {
				sets = append(sets, d.EnumValues)
			}
			m.EnumValues = mergeNameSets(sets, all, res, stage+":enum")
		case "UNION":
			var sets [][]string
			for _, d := range defs {
				sets = append(sets, d.Possible)
			}
			m.Possible = mergeNameSets(sets, all, res, stage+":union")
		case "SCALAR":
		default:
			res.Problems = append(res.Problems, fmt.Sprintf("%s: type %s has unsupported kind %s", stage, n, m.Kind))
			continue
		}
		out.Types[n] = m
	}
	return out
}

// modelMerge computes the expected gateway schema of a set: set[s][v].
func modelMerge(set [][]*schemaDef) *modelResult {
	res := &modelResult{Support: map[string]map[int]bool{}, Diffs: map[string]int{}}
	for _, versions := range set {
		var per *schemaDef
		if len(versions) == 1 {
			per = versions[0].clone()
		} else {
			per = mergeDefs(versions, true, res, "versions")
		}
		res.PerService = append(res.PerService, per)
	}
	if len(res.PerService) == 1 {
		res.Merged = res.PerService[0].clone()
	} else {
		res.Merged = mergeDefs(res.PerService, false, res, "services")
	}
	for si, per := range res.PerService {
		for _, t := range per.Types {
			if t.Kind != "OBJECT" {
				continue
			}
			for _, f := range t.Fields {
				k := t.Name + "." + f.Name
				if res.Support[k] == nil {
					res.Support[k] = map[int]bool{}
				}
				res.Support[k][si] = true
			}
		}
	}
	return res
}
