module github.com/samsarahq/thunder/verifharness

go 1.21

require (
	github.com/anishathalye/porcupine v1.3.0
	github.com/go-sql-driver/mysql v1.3.1-0.20170715192408-3955978caca4
	github.com/gorilla/websocket v1.0.1-0.20161018003955-8003df83eef3
	github.com/samsarahq/thunder v0.0.0
	github.com/siddontang/go-mysql v0.0.0-20160925014134-d8e777f00cdb
)

require (
	github.com/gogo/protobuf v1.1.2-0.20180914054005-e14cafb6a2c2 // indirect
	github.com/golang/protobuf v1.4.2 // indirect
	github.com/graphql-go/graphql v0.4.19-0.20160928141709-8c317402d1b7 // indirect
	github.com/juju/errors v0.0.0-20220203013757-bd733f3c86b9 // indirect
	github.com/ngaut/log v0.0.0-20160810023011-cec23d3e10b0 // indirect
	github.com/samsarahq/go v0.0.0-20181026175739-13570df44b46 // indirect
	github.com/satori/go.uuid v0.0.0-20160218235746-e673fdd4dea8 // indirect
	github.com/siddontang/go v0.0.0-20161005110831-1e9ce2a5ac40 // indirect
	golang.org/x/net v0.0.0-20211216030914-fe4d6282115f // indirect
	golang.org/x/sync v0.0.0-20190423024810-112230192c58 // indirect
	golang.org/x/sys v0.0.0-20210806184541-e5e7981a1069 // indirect
	golang.org/x/text v0.3.7 // indirect
	google.golang.org/genproto v0.0.0-20200526211855-cb27e3aa2013 // indirect
	google.golang.org/grpc v1.35.0 // indirect
	google.golang.org/protobuf v1.25.0 // indirect
)

replace github.com/samsarahq/thunder => /repo
